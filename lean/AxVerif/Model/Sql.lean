/-
  C05 — reference evaluator for the supported SQL fragment.  This file IS the specification the
  implementation is compared with (`Defects.none`), plus one flag per shipped defect.

  Values with NULL, three-valued logic, comparisons, BETWEEN, IN (list), IS [NOT] NULL, LIKE, integer
  arithmetic with overflow / division by zero as errors; scan, filter, project, nested-loop joins
  (inner, left, right, full, cross), GROUP BY with COUNT/SUM/AVG/MIN/MAX, DISTINCT, ORDER BY,
  LIMIT/OFFSET; INSERT, UPDATE, DELETE with affected counts.

  Core Lean only (and C19's value model for the int → double conversion).  Everything is a total function over lists; the recursion is structural, so the
  definitions reduce in the kernel (`decide` proves the witness theorems).
-/
import AxVerif.Model.Value
namespace AxVerif.Sql

/-! ## Values -/

/-- A SQL value. `text` is a list of bytes (each < 256). `rat n d` (d > 0) only arises as the result of AVG. -/
inductive Value where
  | null
  | int (i : Int)
  | bool (b : Bool)
  | text (s : List Nat)
  | rat (n : Int) (d : Nat)
  /-- a DOUBLE column value.  Such values are stored, compared and shown, never computed with: `k` is the order key
      of the IEEE-754 bit pattern (the bits of a non-negative double; minus the bits without the sign of a negative
      one), so that comparing keys as integers is comparing the doubles.  No floating-point operation is modelled. -/
  | dbl (k : Int)
  deriving DecidableEq, Repr, Inhabited

abbrev Row := List Value
abbrev Table := List Row

/-- Declared column types of the fragment (INT = 32 bit, BIGINT = 64 bit). -/
inductive Ty where
  | int | bigint | bool | text | double
  /-- UINT (32 bits), BIGUINT (64 bits); FLOAT (like DOUBLE: stored, compared and shown only) -/
  | uint | biguint | float
  deriving DecidableEq, Repr, Inhabited

inductive Err where
  | parse | bind | type | constraint | overflow | divzero | panic | eval | other
  deriving DecidableEq, Repr, Inhabited

def Err.name : Err → String
  | .parse => "parse" | .bind => "bind" | .type => "type" | .constraint => "constraint"
  | .overflow => "overflow" | .divzero => "divzero" | .panic => "panic" | .eval => "eval" | .other => "other"

/-- One flag per defect of the shipped code.  All off = SQL semantics. -/
structure Defects where
  /-- `IS NOT NULL`, `NOT BETWEEN`, `NOT IN` computed as `test || negated` (always TRUE) -/
  negatedIsOr : Bool := false
  /-- `NOT LIKE` computed as `!negated && like` (always FALSE) -/
  notLikeFalse : Bool := false
  /-- BETWEEN is two-valued: comparisons with NULL count as FALSE, the result is never NULL -/
  betweenTwoValued : Bool := false
  /-- IN (list) is two-valued and NULL equals NULL inside the list -/
  inTwoValued : Bool := false
  /-- COUNT(expr) counts the rows where expr is NULL as well -/
  countColCountsNull : Bool := false
  /-- integer `/ 0` and `% 0` panic in the worker thread -/
  divZeroPanics : Bool := false
  /-- integer overflow panics in the worker thread (debug build) -/
  overflowPanics : Bool := false
  /-- prefix NOT parses its operand down to AND's binding power (`NOT a AND b` = `NOT (a AND b)`).
      A parser defect: this flag (and `unaryBindsLooser`, unary sign below `* / %`) is applied by Driver/Sql, which
      re-parses the printed text of every expression with the shipped binding powers (Model/Parser). -/
  notBindsLooser : Bool := false
  /-- equi-join executed by the shipped merge join: a NULL key on the left loses every match -/
  mergeJoinNullKey : Bool := false
  /-- equi-join executed by the shipped merge join: RIGHT/FULL joins emit no unmatched right row
      (exact when no right row matched at all) -/
  mergeJoinDropsRight : Bool := false
  /-- `ON right.col = left.col`: the key pair is used unoriented and a right column is read from a left row -/
  equiKeysUnoriented : Bool := false
  /-- nested-loop RIGHT/FULL join with an empty left input emits unpadded right rows (later column access fails) -/
  nljEmptyLeftNoPad : Bool := false
  deriving Repr, Inhabited

abbrev Defects.none : Defects := {}

/-! ## Three-valued logic -/

/-- truth values: `none` = unknown -/
abbrev TV := Option Bool

def and3 : TV → TV → TV
  | some false, _ => some false
  | _, some false => some false
  | some true, some true => some true
  | _, _ => none

def or3 : TV → TV → TV
  | some true, _ => some true
  | _, some true => some true
  | some false, some false => some false
  | _, _ => none

def not3 : TV → TV
  | some b => some (!b)
  | none => none

def TV.toValue : TV → Value
  | some b => .bool b
  | none => .null

/-- negate when the operator was written with NOT -/
def negIf (neg : Bool) (t : TV) : TV := if neg then not3 t else t

/-! ## Ordering of values -/

def cmpNat (a b : Nat) : Ordering := if a < b then .lt else if a = b then .eq else .gt
def cmpInt (a b : Int) : Ordering := if a < b then .lt else if a = b then .eq else .gt

/-- lexicographic combination of two comparisons: the second decides when the first is a tie -/
def lexOrd (o1 o2 : Ordering) : Ordering :=
  match o1 with
  | .eq => o2
  | o => o

/-- lexicographic order on byte strings -/
def cmpText : List Nat → List Nat → Ordering
  | [], [] => .eq
  | [], _ :: _ => .lt
  | _ :: _, [] => .gt
  | a :: as, b :: bs => lexOrd (cmpNat a b) (cmpText as bs)

/-- category of a non-NULL value (values of different categories are never compared by well-typed queries) -/
def Value.rank : Value → Nat
  | .bool _ => 0 | .int _ => 1 | .text _ => 2 | .rat _ _ => 3 | .null => 4 | .dbl _ => 5

/-- total order on non-NULL values; NULL is handled by the callers.
    (`rat` values are results of AVG and are never compared by the modelled grammar: they get a structural order.) -/
def Value.cmp : Value → Value → Ordering
  | .int a, .int b => cmpInt a b
  | .bool a, .bool b => cmpNat a.toNat b.toNat
  | .text a, .text b => cmpText a b
  | .rat a d, .rat b e => lexOrd (cmpInt a b) (cmpNat d e)
  | .dbl a, .dbl b => cmpInt a b
  | a, b => cmpNat a.rank b.rank

inductive CmpOp where
  | eq | ne | lt | le | gt | ge
  deriving DecidableEq, Repr, Inhabited

def CmpOp.holds : CmpOp → Ordering → Bool
  | .eq, o => o == .eq
  | .ne, o => o != .eq
  | .lt, o => o == .lt
  | .le, o => o != .gt
  | .gt, o => o == .gt
  | .ge, o => o != .lt

/-- SQL comparison: unknown as soon as one side is NULL -/
def cmp3 (op : CmpOp) : Value → Value → TV
  | .null, _ => none
  | _, .null => none
  | a, b => some (op.holds (a.cmp b))

/-! ## LIKE

Matching is by characters, as SQL defines it: `_` stands for one character, not one byte.  A text is a UTF-8 byte
string; a character is a lead byte with the continuation bytes (0x80–0xBF) that follow it.  `%` any sequence of
characters, `_` any one character, `\` makes the next character (also `%`, `_`, `\`) stand for itself; a pattern that
ends in a lone `\` matches nothing. -/

/-- a character of a text: its bytes -/
abbrev UChar := List Nat

def isCont (b : Nat) : Bool := 128 ≤ b && b < 192

/-- the characters of a byte string: every byte that is not a continuation byte starts one -/
def utf8Chars : List Nat → List UChar
  | [] => []
  | b :: bs =>
    match utf8Chars bs with
    | [] => [[b]]
    | c :: cs => if (c.head?.map isCont).getD false then (b :: c) :: cs else [b] :: c :: cs

inductive LikeItem where
  | anySeq            -- `%`
  | anyOne            -- `_`
  | lit (c : UChar)   -- an ordinary or an escaped character
  deriving DecidableEq, Repr, Inhabited

/-- the items of a pattern; `none` for a pattern that ends in the escape character -/
def likeItems : List UChar → Option (List LikeItem)
  | [] => some []
  | [[92]] => none
  | [92] :: c :: p => (likeItems p).map (.lit c :: ·)
  | [37] :: p => (likeItems p).map (.anySeq :: ·)
  | [95] :: p => (likeItems p).map (.anyOne :: ·)
  | c :: p => (likeItems p).map (.lit c :: ·)

/-- `f` holds for some suffix of the string -/
def anySuffix {α} (f : List α → Bool) : List α → Bool
  | [] => f []
  | c :: s => f (c :: s) || anySuffix f s

/-- the reference matcher: the simple recursive definition -/
def likeMatch : List LikeItem → List UChar → Bool
  | [], s => s.isEmpty
  | .anySeq :: p, s => anySuffix (likeMatch p) s
  | .anyOne :: p, s => match s with
    | [] => false
    | _ :: s' => likeMatch p s'
  | .lit c :: p, s => match s with
    | [] => false
    | x :: s' => x == c && likeMatch p s'

/-- `subject LIKE pattern` on byte strings -/
def likeText (p s : List Nat) : Bool :=
  match likeItems (utf8Chars p) with
  | none => false
  | some items => likeMatch items (utf8Chars s)

/-- what LIKE means: the subject is the concatenation of what the items stand for -/
inductive Likes : List LikeItem → List UChar → Prop where
  | nil : Likes [] []
  | anySeq (p : List LikeItem) (s₁ s₂ : List UChar) : Likes p s₂ → Likes (.anySeq :: p) (s₁ ++ s₂)
  | anyOne (p : List LikeItem) (c : UChar) (s : List UChar) : Likes p s → Likes (.anyOne :: p) (c :: s)
  | lit (p : List LikeItem) (c : UChar) (s : List UChar) : Likes p s → Likes (.lit c :: p) (c :: s)

def like3 : Value → Value → Except Err TV
  | .null, _ => .ok none
  | _, .null => .ok none
  | .text s, .text p => .ok (some (likeText p s))
  | _, _ => .error .type

/-! ## Arithmetic -/

inductive ArithOp where
  | add | sub | mul | div | mod
  deriving DecidableEq, Repr, Inhabited

def i32Min : Int := -2147483648
def i32Max : Int := 2147483647
def i64Min : Int := -9223372036854775808
def i64Max : Int := 9223372036854775807

def fitsI32 (v : Int) : Bool := i32Min ≤ v && v ≤ i32Max
def fitsI64 (v : Int) : Bool := i64Min ≤ v && v ≤ i64Max

def u64Max : Int := 18446744073709551615
def u32Max : Int := 4294967295

/-- the range of the result type of the promotion table: unsigned (op) unsigned is BIGUINT (0 … 2^64 - 1), every other
    pair of integer operands is BIGINT (64 bits, signed) — whatever the widths of the operands -/
def fitsPromoted (uns : Bool) (r : Int) : Bool := if uns then 0 ≤ r && r ≤ u64Max else fitsI64 r

/-- the exact result of an integer operation (truncating division) -/
def exactInt (op : ArithOp) (a b : Int) : Int :=
  match op with
  | .add => a + b | .sub => a - b | .mul => a * b
  | .div => Int.tdiv a b | .mod => Int.tmod a b

/-- integer arithmetic of the promotion table.  `uns` = both operands are of an unsigned type.  Division by zero is an
    error; otherwise the result is the exact integer result if the promoted type holds it, else an overflow error -/
def arithInt (D : Defects) (uns : Bool) (op : ArithOp) (a b : Int) : Except Err Value :=
  if (op = .div || op = .mod) && b = 0 then
    .error (if D.divZeroPanics then .panic else .divzero)
  else
    if fitsPromoted uns (exactInt op a b) then .ok (.int (exactInt op a b))
    else .error (if D.overflowPanics then .panic else .overflow)

def arith (D : Defects) (uns : Bool) (op : ArithOp) : Value → Value → Except Err Value
  | .null, _ => .ok .null
  | _, .null => .ok .null
  | .int a, .int b => arithInt D uns op a b
  | _, _ => .error .type

/-! ### DOUBLE / FLOAT values: the order key of the IEEE-754 bit pattern (integer arithmetic on bit patterns only; the
    conversion of an integer to the nearest double is C19's `intToFloat`) -/

def two63 : Nat := 9223372036854775808

def dblKeyOfBits (b : Nat) : Int := if b < two63 then (b : Int) else -(((b - two63 : Nat)) : Int)

def dblBitsOfKey (k : Int) : Nat := if k ≥ 0 then k.toNat else two63 + (-k).toNat

/-- the double nearest to an integer (exact below 2^53) -/
def dblOfInt (i : Int) : Value := .dbl (dblKeyOfBits (AxVerif.Value.intToFloat AxVerif.Value.f64 i))

/-- CEIL (`up`), FLOOR (`down`) or ROUND (neither: halves away from zero) of the finite double with key `k`, as an integer -/
def dblToInt (up down : Bool) (k : Int) : Int :=
  let b := dblBitsOfKey k
  let m := AxVerif.Value.f64.sig b
  let q := AxVerif.Value.f64.qexp b
  let neg := decide (k < 0)
  let mag : Nat :=
    if 0 ≤ q then m * 2 ^ q.toNat
    else
      let s := (-q).toNat
      let t := m / 2 ^ s
      let rem := m % 2 ^ s
      if rem == 0 then t
      else if up then (if neg then t else t + 1)
      else if down then (if neg then t + 1 else t)
      else (if 2 * rem ≥ 2 ^ s then t + 1 else t)
  if neg then -(mag : Int) else (mag : Int)

/-! ## Expressions -/

/-- scalar functions of one argument: the string functions, and ABS / CEIL / FLOOR / ROUND (which return DOUBLE) -/
inductive StrFn where
  | upper | lower | length | ltrim | rtrim
  | abs | ceil | floor | round
  deriving DecidableEq, Repr, Inhabited

inductive Expr where
  | lit (v : Value)
  | col (i : Nat)
  | not (e : Expr)
  | neg (e : Expr)
  | pos (e : Expr)
  | and (a b : Expr)
  | or (a b : Expr)
  | cmp (op : CmpOp) (a b : Expr)
  | arith (op : ArithOp) (a b : Expr)
  | like (neg : Bool) (a p : Expr)
  | isNull (neg : Bool) (e : Expr)
  | between (neg : Bool) (e lo hi : Expr)
  | inList (neg : Bool) (e : Expr) (xs : List Expr)
  /-- searched CASE: `parts` = [cond₁, result₁, …, condₖ, resultₖ, else] (`else` = NULL literal if absent) -/
  | caseWhen (parts : List Expr)
  /-- simple CASE `CASE x WHEN v₁ THEN r₁ … ELSE e END`: `parts` = [v₁, r₁, …, vₖ, rₖ, else] -/
  | caseOf (x : Expr) (parts : List Expr)
  /-- `UPPER(e)`, `LOWER(e)`, `LENGTH(e)`, `LTRIM(e)`, `RTRIM(e)` -/
  | strFn (f : StrFn) (e : Expr)
  /-- `a || b` -/
  | concat (a b : Expr)
  /-- `NULLIF(a, b)` -/
  | nullif (a b : Expr)
  /-- `COALESCE(x₁, …, xₙ)` -/
  | coalesce (xs : List Expr)
  deriving Repr, Inhabited

/-- A NULL in boolean position is unknown; a non-boolean is a type error -/
def asTV : Value → Except Err TV
  | .bool b => .ok (some b)
  | .null => .ok none
  | _ => .error .type

/-- `x BETWEEN lo AND hi` is `x >= lo AND x <= hi` -/
def between3 (x lo hi : Value) : TV := and3 (cmp3 .ge x lo) (cmp3 .le x hi)

/-- the shipped BETWEEN: both comparisons two-valued (a comparison with NULL is false) -/
def betweenShipped (x lo hi : Value) : Bool :=
  (cmp3 .ge x lo == some true) && (cmp3 .le x hi == some true)

/-- `x IN (y₁ … yₙ)` is `x = y₁ OR … OR x = yₙ` -/
def in3 (x : Value) : List Value → TV
  | [] => some false
  | y :: ys => or3 (cmp3 .eq x y) (in3 x ys)

/-- the shipped IN: membership in a set where NULL = NULL -/
def inShipped (x : Value) (ys : List Value) : Bool :=
  ys.any (fun y => match x, y with
    | .null, .null => true
    | _, _ => cmp3 .eq x y == some true)

/-! ### string functions (texts are byte strings; letters are the ASCII letters) -/

def upperByte (b : Nat) : Nat := if 97 ≤ b && b ≤ 122 then b - 32 else b

def lowerByte (b : Nat) : Nat := if 65 ≤ b && b ≤ 90 then b + 32 else b

/-- LTRIM: without the leading spaces -/
def ltrimBytes (s : List Nat) : List Nat := s.dropWhile (· == 32)

/-- RTRIM: without the trailing spaces -/
def rtrimBytes (s : List Nat) : List Nat := (ltrimBytes s.reverse).reverse

/-- LENGTH counts characters: the bytes of a UTF-8 text that are not continuation bytes -/
def charCount (s : List Nat) : Nat := (s.filter (fun b => b < 128 || 192 ≤ b)).length

def StrFn.isNumeric : StrFn → Bool
  | .abs | .ceil | .floor | .round => true
  | _ => false

def applyStrFn (f : StrFn) (s : List Nat) : Value :=
  match f with
  | .upper => .text (s.map upperByte)
  | .lower => .text (s.map lowerByte)
  | .length => .int (charCount s)
  | .ltrim => .text (ltrimBytes s)
  | .rtrim => .text (rtrimBytes s)
  | _ => .null

/-- ABS / CEIL / FLOOR / ROUND of an integer: the DOUBLE nearest to |v| resp. to v -/
def applyNumFnInt (f : StrFn) (v : Int) : Value :=
  match f with
  | .abs => dblOfInt (v.natAbs : Int)
  | _ => dblOfInt v

/-- … of a DOUBLE (by its order key): the sign cleared; the integer above / below / nearest (halves away from zero) -/
def applyNumFnDbl (f : StrFn) (k : Int) : Value :=
  match f with
  | .abs => .dbl (k.natAbs : Int)
  | .ceil => dblOfInt (dblToInt true false k)
  | .floor => dblOfInt (dblToInt false true k)
  | _ => dblOfInt (dblToInt false false k)

/-- NULL in, NULL out; a string function of anything but a text, a numeric function of anything but a number, is a type
    error -/
def strFn1 (f : StrFn) : Value → Except Err Value
  | .null => .ok .null
  | .text s => if f.isNumeric then .error .type else .ok (applyStrFn f s)
  | .int v => if f.isNumeric then .ok (applyNumFnInt f v) else .error .type
  | .dbl k => if f.isNumeric then .ok (applyNumFnDbl f k) else .error .type
  | _ => .error .type

/-- `a || b`: NULL if either side is NULL -/
def concatV : Value → Value → Except Err Value
  | .text a, .text b => .ok (.text (a ++ b))
  | .null, .null | .null, .text _ | .text _, .null => .ok .null
  | _, _ => .error .type

def isNullLit : Expr → Bool
  | .lit .null => true
  | _ => false

mutual
/-- does the value of this expression have the 32-bit runtime kind (for unary minus)? -/
def rtInt32 (tys : List Ty) : Expr → Bool
  | .lit (.int v) => fitsI32 v
  | .col i => tys.getD i .bigint == .int
  | .neg (.lit (.int v)) => fitsI32 (-v)       -- the parser reads `- 5` as the literal -5
  | .neg e => rtInt32 tys e
  | .pos e => rtInt32 tys e
  | .caseWhen parts => rtInt32Results tys parts
  | .caseOf _ parts => rtInt32Results tys parts
  | _ => false

/-- all result branches of a CASE have the 32-bit kind (NULL branches do not matter) -/
def rtInt32Results (tys : List Ty) : List Expr → Bool
  | [] => true
  | [e] => rtInt32 tys e || isNullLit e
  | _ :: r :: rest => (rtInt32 tys r || isNullLit r) && rtInt32Results tys rest
end

/-! ## Static result types (as the binder infers them) and the casts applied to produced values -/

def wider : Ty → Ty → Ty
  | .bigint, _ => .bigint
  | _, .bigint => .bigint
  | .int, _ => .int
  | _, .int => .int
  | a, _ => a

/-- NULL branches say nothing about the type of a CASE; numeric branches widen each other; otherwise the first
    typed branch decides (as the binder does) -/
def joinTy : Option Ty → Option Ty → Option Ty
  | none, b => b
  | a, none => a
  | some .int, some .bigint => some .bigint
  | some .bigint, some .int => some .bigint
  | some a, some _ => some a

mutual
/-- static type of an expression as the binder infers it; `none` for an untyped NULL -/
def inferTyO (tys : List Ty) : Expr → Option Ty
  | .lit (.int v) => some (if fitsI32 v then .int else .bigint)
  | .lit (.text _) => some .text
  | .lit (.bool _) => some .bool
  | .lit (.dbl _) => some .double
  | .lit _ => none
  | .col i => some (tys.getD i .bigint)
  | .neg e => inferTyO tys e
  | .pos e => inferTyO tys e
  | .arith _ a b => match inferTyO tys a, inferTyO tys b with
    | none, none => none
    | ta, tb => some (wider (ta.getD (tb.getD .bool)) (tb.getD (ta.getD .bool)))   -- an untyped NULL operand takes the other's type
  | .caseWhen parts => inferResults tys parts
  | .caseOf _ parts => inferResults tys parts
  | .strFn .length _ => some .int
  | .strFn f _ => some (if f.isNumeric then .double else .text)
  | .concat _ _ => some .text
  | .nullif a _ => inferTyO tys a
  | .coalesce xs => inferFirst tys xs
  | _ => some .bool

/-- the type of the first argument that has one (COALESCE) -/
def inferFirst (tys : List Ty) : List Expr → Option Ty
  | [] => none
  | e :: es => match inferTyO tys e with
    | some t => some t
    | none => inferFirst tys es

def inferResults (tys : List Ty) : List Expr → Option Ty
  | [] => none
  | [e] => inferTyO tys e
  | _ :: r :: rest => joinTy (inferTyO tys r) (inferResults tys rest)
end

def inferTy (tys : List Ty) (e : Expr) : Ty := (inferTyO tys e).getD .bool

/-- a produced value is stored with the declared / inferred type: a 64-bit integer that does not fit an INT
    column is a type error; so is a value of another category -/
def castTo (ty : Ty) : Value → Except Err Value
  | .null => .ok .null
  | .int v => match ty with
    | .int => if fitsI32 v then .ok (.int v) else .error .type
    | .bigint => if fitsI64 v then .ok (.int v) else .error .type
    | .uint => if 0 ≤ v && v ≤ u32Max then .ok (.int v) else .error .type
    | .biguint => if 0 ≤ v && v ≤ u64Max then .ok (.int v) else .error .type
    | _ => .error .type
  | .bool b => match ty with
    | .bool => .ok (.bool b)
    | _ => .error .type
  | .text s => match ty with
    | .text => .ok (.text s)
    | _ => .error .type
  | .rat n d => .ok (.rat n d)
  | .dbl k => match ty with
    | .double | .float => .ok (.dbl k)
    | _ => .error .type

def Ty.isUnsigned : Ty → Bool
  | .uint | .biguint => true
  | _ => false

mutual
/-- is the value of this expression of an unsigned runtime kind?  (Columns of an unsigned type; unsigned (op) unsigned;
    a COALESCE / NULLIF whose result type is unsigned — their result is cast to it; literals are signed.) -/
def rtUnsigned (tys : List Ty) : Expr → Bool
  | .col i => (tys.getD i .bigint).isUnsigned
  | .pos e => rtUnsigned tys e
  | .arith _ a b => rtUnsigned tys a && rtUnsigned tys b
  | .caseWhen parts => rtUnsignedResults tys parts
  | .caseOf _ parts => rtUnsignedResults tys parts
  | .nullif a _ => (inferTy tys a).isUnsigned
  | .coalesce xs => ((inferFirst tys xs).getD .bool).isUnsigned
  | _ => false

def rtUnsignedResults (tys : List Ty) : List Expr → Bool
  | [] => true
  | [e] => rtUnsigned tys e || isNullLit e
  | _ :: r :: rest => (rtUnsigned tys r || isNullLit r) && rtUnsignedResults tys rest
end

/-- the first value that is not NULL -/
def firstNonNull : List Value → Value
  | [] => .null
  | .null :: vs => firstNonNull vs
  | v :: _ => v

mutual
/-- Value of an expression on a row.  `tys` are the declared types of the row's columns. -/
def eval (D : Defects) (tys : List Ty) (row : Row) : Expr → Except Err Value
  | .lit v => .ok v
  | .col i => match row[i]? with
    | some v => .ok v
    | none => .error .eval
  | .not e =>
    match eval D tys row e with
    | .error x => .error x
    | .ok v => match asTV v with
      | .error x => .error x
      | .ok t => .ok (not3 t).toValue
  | .pos e => eval D tys row e
  | .neg e =>
    match eval D tys row e with
    | .error x => .error x
    | .ok .null => .ok .null
    | .ok (.int v) =>
      if rtUnsigned tys e then .error .type      -- no unary minus on UINT / BIGUINT
      else if (if rtInt32 tys e then fitsI32 (-v) else fitsI64 (-v)) then .ok (.int (-v))
      else .error (if D.overflowPanics then .panic else .overflow)
    | .ok _ => .error .type
  | .and a b =>
    match eval D tys row a with
    | .error x => .error x
    | .ok va => match eval D tys row b with
      | .error x => .error x
      | .ok vb => match asTV va, asTV vb with
        | .ok ta, .ok tb => .ok (and3 ta tb).toValue
        | .error x, _ => .error x
        | _, .error x => .error x
  | .or a b =>
    match eval D tys row a with
    | .error x => .error x
    | .ok va => match eval D tys row b with
      | .error x => .error x
      | .ok vb => match asTV va, asTV vb with
        | .ok ta, .ok tb => .ok (or3 ta tb).toValue
        | .error x, _ => .error x
        | _, .error x => .error x
  | .cmp op a b =>
    match eval D tys row a with
    | .error x => .error x
    | .ok va => match eval D tys row b with
      | .error x => .error x
      | .ok vb => .ok (cmp3 op va vb).toValue
  | .arith op a b =>
    match eval D tys row a with
    | .error x => .error x
    | .ok va => match eval D tys row b with
      | .error x => .error x
      | .ok vb => arith D (rtUnsigned tys a && rtUnsigned tys b) op va vb
  | .like neg a p =>
    match eval D tys row a with
    | .error x => .error x
    | .ok va => match eval D tys row p with
      | .error x => .error x
      | .ok vp => match like3 va vp with
        | .error x => .error x
        | .ok none => .ok .null
        | .ok (some m) =>
          if neg && D.notLikeFalse then .ok (.bool false) else .ok (.bool (m != neg))
  | .strFn f e =>
    match eval D tys row e with
    | .error x => .error x
    | .ok v => strFn1 f v
  | .concat a b =>
    match eval D tys row a with
    | .error x => .error x
    | .ok va => match eval D tys row b with
      | .error x => .error x
      | .ok vb => concatV va vb
  | .nullif a b =>
    match eval D tys row a with
    | .error x => .error x
    | .ok va => match eval D tys row b with
      | .error x => .error x
      | .ok vb => castTo (inferTy tys a) (if cmp3 .eq va vb == some true then .null else va)
  | .coalesce xs =>
    match evalList D tys row xs with
    | .error x => .error x
    | .ok vs => castTo ((inferFirst tys xs).getD .bool) (firstNonNull vs)
  | .isNull neg e =>
    match eval D tys row e with
    | .error x => .error x
    | .ok v =>
      let isN := v == .null
      if D.negatedIsOr then .ok (.bool (isN || neg)) else .ok (.bool (isN != neg))
  | .between neg e lo hi =>
    match eval D tys row e with
    | .error x => .error x
    | .ok v => match eval D tys row lo with
      | .error x => .error x
      | .ok vl => match eval D tys row hi with
        | .error x => .error x
        | .ok vh =>
          if D.negatedIsOr then .ok (.bool (betweenShipped v vl vh || neg))
          else if D.betweenTwoValued then .ok (.bool (betweenShipped v vl vh != neg))
          else .ok (negIf neg (between3 v vl vh)).toValue
  | .inList neg e xs =>
    match eval D tys row e with
    | .error x => .error x
    | .ok v => match evalList D tys row xs with
      | .error x => .error x
      | .ok vs =>
        if D.negatedIsOr then .ok (.bool (inShipped v vs || neg))
        else if D.inTwoValued then .ok (.bool (inShipped v vs != neg))
        else .ok (negIf neg (in3 v vs)).toValue

  | .caseWhen parts => evalCaseWhen D tys row parts
  | .caseOf x parts =>
    match eval D tys row x with
    | .error e => .error e
    | .ok v => evalCaseOf D tys row v parts

/-- searched CASE: the first condition that is TRUE selects its result; only that result is evaluated -/
def evalCaseWhen (D : Defects) (tys : List Ty) (row : Row) : List Expr → Except Err Value
  | [] => .ok .null
  | [e] => eval D tys row e
  | c :: r :: rest =>
    match eval D tys row c with
    | .error x => .error x
    | .ok v => match asTV v with
      | .error x => .error x
      | .ok (some true) => eval D tys row r
      | .ok _ => evalCaseWhen D tys row rest

/-- simple CASE on the operand value `v`: the first WHEN value equal to it (never a NULL) selects its result -/
def evalCaseOf (D : Defects) (tys : List Ty) (row : Row) (v : Value) : List Expr → Except Err Value
  | [] => .ok .null
  | [e] => eval D tys row e
  | c :: r :: rest =>
    match eval D tys row c with
    | .error x => .error x
    | .ok w => match cmp3 .eq v w with
      | some true => eval D tys row r
      | _ => evalCaseOf D tys row v rest

def evalList (D : Defects) (tys : List Ty) (row : Row) : List Expr → Except Err (List Value)
  | [] => .ok []
  | e :: es => match eval D tys row e with
    | .error x => .error x
    | .ok v => match evalList D tys row es with
      | .error x => .error x
      | .ok vs => .ok (v :: vs)
end

/-- truth value of a predicate on a row (WHERE / ON / the condition of UPDATE and DELETE) -/
def evalPred (D : Defects) (tys : List Ty) (e : Expr) (row : Row) : Except Err Bool :=
  match eval D tys row e with
  | .error x => .error x
  | .ok (.bool b) => .ok b
  | .ok .null => .ok false
  | .ok _ => .error .type

/-! ## Relational operators (pure parts: these are what the theorems are about) -/

/-- `mapM` for `Except`, written with `match` -/
def mapE {α β} (f : α → Except Err β) : List α → Except Err (List β)
  | [] => .ok []
  | a :: as => match f a with
    | .error x => .error x
    | .ok b => match mapE f as with
      | .error x => .error x
      | .ok bs => .ok (b :: bs)

/-- WHERE: keep the rows on which the predicate is TRUE -/
def filterRows (p : Row → Except Err Bool) : List Row → Except Err (List Row)
  | [] => .ok []
  | r :: rs => match p r with
    | .error x => .error x
    | .ok b => match filterRows p rs with
      | .error x => .error x
      | .ok out => .ok (if b then r :: out else out)

inductive JoinKind where
  | inner | left | right | full | cross
  deriving DecidableEq, Repr, Inhabited

def nulls (n : Nat) : Row := List.replicate n .null

/-- the matches of one left row, in right order -/
def matchesOf (m : Row → Row → Bool) (a : Row) (r : List Row) : List Row :=
  (r.filter (m a)).map (a ++ ·)

/-- left rows with their matches; an unmatched left row is padded when `padLeft` -/
def joinLeftPart (m : Row → Row → Bool) (padLeft : Bool) (rw : Nat) (l r : List Row) : List Row :=
  l.flatMap (fun a =>
    let ms := matchesOf m a r
    if ms.isEmpty && padLeft then [a ++ nulls rw] else ms)

/-- right rows no left row matches, padded on the left -/
def unmatchedRight (m : Row → Row → Bool) (lw : Nat) (l r : List Row) : List Row :=
  (r.filter (fun b => !(l.any (fun a => m a b)))).map (nulls lw ++ ·)

/-- nested-loop join on a decided match relation. `lw`, `rw` = widths of the inputs. -/
def joinPure (k : JoinKind) (m : Row → Row → Bool) (lw rw : Nat) (l r : List Row) : List Row :=
  match k with
  | .inner | .cross => joinLeftPart m false rw l r
  | .left => joinLeftPart m true rw l r
  | .right => joinLeftPart m false rw l r ++ unmatchedRight m lw l r
  | .full => joinLeftPart m true rw l r ++ unmatchedRight m lw l r

/-- DISTINCT: keep the first occurrence of every row -/
def dedup : List Row → List Row
  | [] => []
  | r :: rs => r :: (dedup rs).filter (· != r)

/-- LIMIT / OFFSET -/
def limitOffset (limit : Option Nat) (offset : Nat) (rows : List Row) : List Row :=
  match limit with
  | some l => (rows.drop offset).take l
  | none => rows.drop offset

/-! ### ORDER BY -/

/-- comparison of two sort-key values. NULL is the largest value unless `nullsFirst`; DESC reverses everything. -/
def cmpNullable (nullsFirst : Bool) : Value → Value → Ordering
  | .null, .null => .eq
  | .null, _ => if nullsFirst then .lt else .gt
  | _, .null => if nullsFirst then .gt else .lt
  | a, b => a.cmp b

def cmpKey (nullsFirst : Bool) (asc : Bool) (a b : Value) : Ordering :=
  if asc then cmpNullable nullsFirst a b else (cmpNullable nullsFirst a b).swap

/-- lexicographic comparison of key vectors; `dirs` = ascending? per key (a missing key counts as NULL) -/
def cmpKeys (nullsFirst : Bool) : List Bool → List Value → List Value → Ordering
  | [], _, _ => .eq
  | asc :: dirs, as, bs =>
    lexOrd (cmpKey nullsFirst asc (as.headD .null) (bs.headD .null)) (cmpKeys nullsFirst dirs as.tail bs.tail)

def leKeys (nullsFirst : Bool) (dirs : List Bool) (a b : List Value × Row) : Bool :=
  cmpKeys nullsFirst dirs a.1 b.1 != .gt

/-- stable insertion sort -/
def insertSorted {α} (le : α → α → Bool) (x : α) : List α → List α
  | [] => [x]
  | y :: ys => if le x y then x :: y :: ys else y :: insertSorted le x ys

def sortBy {α} (le : α → α → Bool) : List α → List α
  | [] => []
  | x :: xs => insertSorted le x (sortBy le xs)

/-- sort rows by precomputed keys -/
def sortRows (nullsFirst : Bool) (dirs : List Bool) (keyed : List (List Value × Row)) : List Row :=
  (sortBy (leKeys nullsFirst dirs) keyed).map (·.2)

/-! ### GROUP BY and aggregates -/

inductive AggFn where
  | countStar | count | sum | avg | min | max
  deriving DecidableEq, Repr, Inhabited

/-- groups in order of first appearance: (key, members in input order) -/
def groupBy {α} (key : α → List Value) : List α → List (List Value × List α)
  | [] => []
  | x :: xs =>
    let rest := groupBy key xs
    let k := key x
    if rest.any (fun g => g.1 == k) then
      rest.map (fun g => if g.1 == k then (g.1, x :: g.2) else g)
    else (k, [x]) :: rest

def nonNull (vs : List Value) : List Value := vs.filter (· != .null)

def sumInts (D : Defects) : List Value → Except Err Int
  | [] => .ok 0
  | .int v :: vs => match sumInts D vs with
    | .error x => .error x
    | .ok s => if fitsI64 (v + s) then .ok (v + s) else .error (if D.overflowPanics then .panic else .overflow)
  | _ :: _ => .error .type

def minVal : List Value → Value
  | [] => .null
  | v :: vs => match minVal vs with
    | .null => v
    | m => if v.cmp m == .gt then m else v

def maxVal : List Value → Value
  | [] => .null
  | v :: vs => match maxVal vs with
    | .null => v
    | m => if v.cmp m == .lt then m else v

/-- the quotient `n / d` in lowest terms (so that equal averages are equal values) -/
def ratNorm (n : Int) (d : Nat) : Value :=
  let g := Nat.gcd n.natAbs d
  if g = 0 then .rat n d else .rat (n / (g : Int)) (d / g)

/-- an aggregate over the argument values of one group (`countStar` gets one value per row, ignored) -/
def aggregate (D : Defects) (f : AggFn) (vs : List Value) : Except Err Value :=
  match f with
  | .countStar => .ok (.int vs.length)
  | .count => .ok (.int (if D.countColCountsNull then vs.length else (nonNull vs).length))
  | .sum => match nonNull vs with
    | [] => .ok .null
    | ws => match sumInts D ws with
      | .error x => .error x
      | .ok s => .ok (.int s)
  | .avg => match nonNull vs with
    | [] => .ok .null
    | ws => match sumInts D ws with
      | .error x => .error x
      | .ok s => .ok (ratNorm s ws.length)
  | .min => .ok (minVal (nonNull vs))
  | .max => .ok (maxVal (nonNull vs))

/-! ## Queries -/

inductive From where
  | table (t : Nat)
  | join (k : JoinKind) (l r : From) (on : Option Expr)
  /-- derived table `(SELECT items FROM inner [WHERE w]) AS r`: the select-project form of a query in FROM -/
  | derived (inner : From) (w : Option Expr) (items : List Expr)
  deriving Repr, Inhabited

structure Agg where
  fn : AggFn
  arg : Expr        -- ignored for `countStar`
  /-- `AGG(DISTINCT arg)`: every distinct non-NULL value counts once -/
  distinct : Bool := false
  deriving Repr, Inhabited

structure Select where
  distinct : Bool
  from_ : From
  where_ : Option Expr
  /-- aggregate query iff `aggs ≠ []`; its output is the group keys followed by the aggregates -/
  groupBy : List Expr
  aggs : List Agg
  /-- projection; `none` = `*`.  In an aggregate query (GROUP BY or aggregates present) the items — like HAVING —
      are expressions over the *aggregate row*: the group keys followed by the aggregates -/
  items : Option (List Expr)
  /-- ORDER BY: (position in the output, ascending?) -/
  orderBy : List (Nat × Bool)
  limit : Option Nat
  offset : Option Nat
  /-- HAVING, over the aggregate row (aggregate queries only) -/
  having : Option Expr := none
  deriving Repr, Inhabited

structure TableDef where
  tys : List Ty
  rows : Table
  deriving Repr, Inhabited

abbrev Db := List TableDef

def From.tys (db : Db) : From → List Ty
  | .table t => (db.getD t default).tys
  | .join _ l r _ => l.tys db ++ r.tys db
  | .derived f _ items => items.map (inferTy (f.tys db))

/-- is the expression a conjunction of `column = column` (the planner's equi-join test)? -/
def isEquiCond : Expr → Bool
  | .cmp .eq (.col _) (.col _) => true
  | .and a b => isEquiCond a && isEquiCond b
  | _ => false

/-- first equality of an equi condition -/
def firstEqui : Expr → Option (Nat × Nat)
  | .cmp .eq (.col l) (.col r) => some (l, r)
  | .and a _ => firstEqui a
  | _ => none

/-- all equalities of an equi condition -/
def equiPairs : Expr → List (Nat × Nat)
  | .cmp .eq (.col l) (.col r) => [(l, r)]
  | .and a b => equiPairs a ++ equiPairs b
  | _ => []

/-- evaluate the projection of one row and cast every item to its inferred type -/
def projectRow (D : Defects) (tys : List Ty) (items : List Expr) (row : Row) : Except Err Row :=
  mapE (fun e => match eval D tys row e with
    | .error x => .error x
    | .ok v => castTo (inferTy tys e) v) items

/-- WHERE step -/
def applyWhere (D : Defects) (tys : List Ty) (w : Option Expr) (rows : List Row) : Except Err (List Row) :=
  match w with
  | none => .ok rows
  | some e => filterRows (evalPred D tys e) rows

def evalFrom (D : Defects) (db : Db) : From → Except Err (List Row)
  | .table t => match db[t]? with
    | some td => .ok td.rows
    | none => .error .bind
  | .join k l r on =>
    match evalFrom D db l with
    | .error x => .error x
    | .ok lrows => match evalFrom D db r with
      | .error x => .error x
      | .ok rrows =>
        let ltys := l.tys db
        let rtys := r.tys db
        let tys := ltys ++ rtys
        let lw := ltys.length
        let rw := rtys.length
        -- shipped-defect paths of the equi-join operators
        let equi := match on with | some c => isEquiCond c | none => false
        let unoriented := match on with
          | some c => (equiPairs c).any (fun p => p.1 ≥ lw)
          | none => false
        if D.equiKeysUnoriented && equi && unoriented then .error .eval
        else if D.nljEmptyLeftNoPad && !equi && lrows.isEmpty && !rrows.isEmpty && (k == .right || k == .full) then
          .error .eval
        else
        -- decide the match relation for every pair first (any error aborts the statement)
        let pairErr := mapE (fun a => mapE (fun b =>
            match on with
            | none => .ok true
            | some c => evalPred D tys c (a ++ b)) rrows) lrows
        match pairErr with
        | .error x => .error x
        | .ok _ =>
          let m : Row → Row → Bool := fun a b =>
            match on with
            | none => true
            | some c => match evalPred D tys c (a ++ b) with
              | .ok true => true
              | _ => false
          let nullKey : Row → Bool := fun a => match on with
            | some c => (equiPairs c).any (fun p => a.getD p.1 .null == .null)
            | none => false
          let m' : Row → Row → Bool :=
            if D.mergeJoinNullKey && equi && lrows.any nullKey then fun _ _ => false else m
          if D.mergeJoinDropsRight && equi && (k == .right || k == .full) then
            .ok (joinPure (if k == .right then .inner else .left) m' lw rw lrows rrows)
          else
            .ok (joinPure k m' lw rw lrows rrows)
  | .derived f w items =>
    match evalFrom D db f with
    | .error x => .error x
    | .ok rows => match applyWhere D (f.tys db) w rows with
      | .error x => .error x
      | .ok kept => mapE (projectRow D (f.tys db) items) kept

/-- distinct values, first occurrences -/
def dedupV : List Value → List Value
  | [] => []
  | v :: vs => v :: (dedupV vs).filter (· != v)

/-- the argument values an aggregate sees: all of them, or the distinct non-NULL ones -/
def aggInput (a : Agg) (vs : List Value) : List Value :=
  if a.distinct && a.fn != .countStar then dedupV (nonNull vs) else vs

def aggOutTy (tys : List Ty) (a : Agg) : Option Ty :=
  match a.fn with
  | .min | .max => some (inferTy tys a.arg)
  | _ => none

/-- one output row of an aggregate query: the group key followed by the aggregates -/
def aggRow (D : Defects) (tys : List Ty) (keys : List Expr) (aggs : List Agg)
    (g : List Value × List Row) : Except Err Row :=
  match mapE (fun (kv : Expr × Value) => castTo (inferTy tys kv.1) kv.2) (keys.zip g.1) with
  | .error x => .error x
  | .ok ks =>
    match mapE (fun (a : Agg) =>
        match mapE (fun row => match a.fn with
            | .countStar => .ok Value.null
            | _ => eval D tys row a.arg) g.2 with
        | .error x => .error x
        | .ok vs => match aggregate D a.fn (aggInput a vs) with
          | .error x => .error x
          | .ok v => match aggOutTy tys a with
            | some ty => castTo ty v
            | none => .ok v) aggs with
    | .error x => .error x
    | .ok as => .ok (ks ++ as)

def keyedBy (pos : List Nat) (row : Row) : List Value × Row := (pos.map (fun i => row.getD i .null), row)

/-- pair every row with its group key -/
def keyRows (D : Defects) (tys : List Ty) (keys : List Expr) (rows : List Row) :
    Except Err (List (List Value × Row)) :=
  mapE (fun row => match evalList D tys row keys with
    | .error x => .error x
    | .ok k => .ok (k, row)) rows

/-- groups of an aggregate query (no GROUP BY and no input row: one group over nothing) -/
def groupsOf (noKeys : Bool) (keyed : List (List Value × Row)) : List (List Value × List Row) :=
  let groups := (groupBy (fun (p : List Value × Row) => p.1) keyed).map
    (fun g => (g.1, g.2.map (fun (p : List Value × Row) => p.2)))
  if noKeys && groups.isEmpty then [([], [])] else groups

/-- is this an aggregate query? -/
def Select.isAgg (q : Select) : Bool := !q.aggs.isEmpty || !q.groupBy.isEmpty

/-- column types of the aggregate row: the keys, then COUNT → BIGINT, SUM / AVG → (untyped number, here BIGINT),
    MIN / MAX → type of the argument -/
def aggTys (tys : List Ty) (keys : List Expr) (aggs : List Agg) : List Ty :=
  keys.map (inferTy tys) ++ aggs.map (fun a => match a.fn with
    | .min | .max => inferTy tys a.arg
    | _ => .bigint)

/-- projection of rows (`none` = `*`) -/
def projectAll (D : Defects) (tys : List Ty) (items : Option (List Expr)) (rows : List Row) : Except Err (List Row) :=
  match items with
  | none => .ok rows
  | some items => mapE (projectRow D tys items) rows

/-- projection or aggregation step.  An aggregate query groups, computes the aggregate row of every group (keys,
    then aggregates), keeps the groups on which HAVING is TRUE, and projects the select list over the aggregate row. -/
def produce (D : Defects) (tys : List Ty) (q : Select) (rows : List Row) : Except Err (List Row) :=
  if !q.isAgg then projectAll D tys q.items rows
  else
    match keyRows D tys q.groupBy rows with
    | .error x => .error x
    | .ok keyed =>
      match mapE (aggRow D tys q.groupBy q.aggs) (groupsOf q.groupBy.isEmpty keyed) with
      | .error x => .error x
      | .ok arows =>
        let atys := aggTys tys q.groupBy q.aggs
        match applyWhere D atys q.having arows with
        | .error x => .error x
        | .ok kept => projectAll D atys q.items kept

/-- ORDER BY (on output positions), DISTINCT, OFFSET/LIMIT -/
def finish (nullsFirst : Bool) (q : Select) (rows : List Row) : List Row :=
  let sorted := if q.orderBy.isEmpty then rows
    else sortRows nullsFirst (q.orderBy.map (fun p => p.2)) (rows.map (keyedBy (q.orderBy.map (fun p => p.1))))
  let uniq := if q.distinct then dedup sorted else sorted
  limitOffset q.limit (q.offset.getD 0) uniq

/-- The whole SELECT pipeline, in the order the engine applies it:
    FROM → WHERE → GROUP BY/aggregates or projection → ORDER BY → DISTINCT → OFFSET/LIMIT.
    (ORDER BY refers to output positions, so sorting the projected rows is the same as sorting before projecting.) -/
def evalSelect (D : Defects) (nullsFirst : Bool) (db : Db) (q : Select) : Except Err (List Row) :=
  let tys := q.from_.tys db
  match evalFrom D db q.from_ with
  | .error x => .error x
  | .ok rows0 =>
    match applyWhere D tys q.where_ rows0 with
    | .error x => .error x
    | .ok rows1 =>
      match produce D tys q rows1 with
      | .error x => .error x
      | .ok rows2 => .ok (finish nullsFirst q rows2)

/-! ## DML -/

/-- DELETE: (remaining rows, number deleted) -/
def deleteRows (p : Row → Except Err Bool) (rows : List Row) : Except Err (List Row × Nat) :=
  match mapE p rows with
  | .error x => .error x
  | .ok bs =>
    let tagged := rows.zip bs
    .ok ((tagged.filter (fun t => !t.2)).map (·.1), (tagged.filter (·.2)).length)

/-- overwrite positions of a row -/
def setCols (row : Row) (assigns : List (Nat × Value)) : Row :=
  assigns.foldl (fun r a => r.set a.1 a.2) row

/-- UPDATE: (new rows, number updated). `assign` computes the new row of a selected row. -/
def updateRows (p : Row → Except Err Bool) (assign : Row → Except Err Row) (rows : List Row) :
    Except Err (List Row × Nat) :=
  match mapE p rows with
  | .error x => .error x
  | .ok bs =>
    match mapE (fun (t : Row × Bool) => if t.2 then assign t.1 else .ok t.1) (rows.zip bs) with
    | .error x => .error x
    | .ok rows' => .ok (rows', (bs.filter id).length)

/-- values of the SET expressions on the (old) row, each cast to the type of its column -/
def evalSets (D : Defects) (tys : List Ty) (row : Row) (sets : List (Nat × Expr)) : Except Err (List (Nat × Value)) :=
  mapE (fun (s : Nat × Expr) => match eval D tys row s.2 with
    | .error x => .error x
    | .ok v => match castTo (tys.getD s.1 .bigint) v with
      | .error x => .error x
      | .ok v' => .ok (s.1, v')) sets

/-- the new value of a row selected by UPDATE -/
def assignRow (D : Defects) (tys : List Ty) (sets : List (Nat × Expr)) (row : Row) : Except Err Row :=
  match evalSets D tys row sets with
  | .error x => .error x
  | .ok as => .ok (setCols row as)

inductive Stmt where
  | select (q : Select)
  | insert (t : Nat) (rows : List (List Expr))
  | update (t : Nat) (sets : List (Nat × Expr)) (where_ : Option Expr)
  | delete (t : Nat) (where_ : Option Expr)
  deriving Repr, Inhabited

/-- `INSERT INTO t (c…) VALUES (e…)`: the full row the listed values stand for.  Column j of the table gets the expression
    written for it, NULL if the list does not name it.  `none` (an ill-formed statement) if the list names a column twice
    or a column the table does not have, or if the number of values differs from the number of listed columns. -/
def expandCols (ncols : Nat) (cols : List Nat) (row : List Expr) : Option (List Expr) :=
  if cols.length != row.length || !cols.Nodup || cols.any (fun c => c ≥ ncols) then none
  else some ((List.range ncols).map (fun j => match (cols.zip row).find? (fun p => p.1 == j) with
    | some p => p.2
    | none => .lit .null))

inductive Outcome where
  | rows (rs : List Row)
  | affected (n : Nat)
  | error (e : Err)
  deriving DecidableEq, Repr, Inhabited

def setTable (db : Db) (t : Nat) (rows : Table) : Db :=
  db.set t { (db.getD t default) with rows := rows }

def predOf (D : Defects) (tys : List Ty) : Option Expr → Row → Except Err Bool
  | none => fun _ => .ok true
  | some w => evalPred D tys w

/-- One statement against the database: new database and outcome. A failing statement changes nothing. -/
def execStmt (D : Defects) (nullsFirst : Bool) (db : Db) : Stmt → Db × Outcome
  | .select q => match evalSelect D nullsFirst db q with
    | .error x => (db, .error x)
    | .ok rs => (db, .rows rs)
  | .insert t rows => match db[t]? with
    | none => (db, .error .bind)
    | some td =>
      if rows.any (fun r => r.length != td.tys.length) then (db, .error .bind) else
      match mapE (fun (r : List Expr) =>
          mapE (fun (et : Expr × Ty) => match eval D [] [] et.1 with
            | .error x => .error x
            | .ok v => castTo et.2 v) (r.zip td.tys)) rows with
      | .error x => (db, .error x)
      | .ok newRows => (setTable db t (td.rows ++ newRows), .affected newRows.length)
  | .update t sets w => match db[t]? with
    | none => (db, .error .bind)
    | some td =>
      match updateRows (predOf D td.tys w) (assignRow D td.tys sets) td.rows with
      | .error x => (db, .error x)
      | .ok (rows', n) => (setTable db t rows', .affected n)
  | .delete t w => match db[t]? with
    | none => (db, .error .bind)
    | some td => match deleteRows (predOf D td.tys w) td.rows with
      | .error x => (db, .error x)
      | .ok (rows', n) => (setTable db t rows', .affected n)

/-! ## Static typing of comparisons

SQL is statically typed: comparing a number with a text (or a boolean) is an error of the statement, whatever the
data.  (The engine finds it when the comparison meets two non-NULL values; generated cases always do.) -/

/-- category of a type: numbers, texts, booleans -/
def Ty.cat : Ty → Nat
  | .int | .bigint | .double | .uint | .biguint | .float => 0
  | .text => 1
  | .bool => 2

/-- both sides have a known type and the categories differ.  `unk` = columns without a type (a group key or a
    MIN / MAX over an untyped NULL): they clash with nothing -/
def catClash (tys : List Ty) (unk : List Nat) (a b : Expr) : Bool :=
  let isUnk : Expr → Bool := fun e => match e with | .col i => unk.contains i | _ => false
  if isUnk a || isUnk b then false else
  match inferTyO tys a, inferTyO tys b with
  | some x, some y => x.cat != y.cat
  | _, _ => false

mutual
/-- does the expression contain a comparison (=, <, BETWEEN, IN, simple CASE) across categories? -/
def illTyped (tys : List Ty) (unk : List Nat) : Expr → Bool
  | .lit _ | .col _ => false
  | .not e | .neg e | .pos e | .isNull _ e | .strFn _ e => illTyped tys unk e
  | .and a b | .or a b | .arith _ a b | .like _ a b | .concat a b => illTyped tys unk a || illTyped tys unk b
  | .nullif a b => catClash tys unk a b || illTyped tys unk a || illTyped tys unk b
  | .coalesce xs => illTypedList tys unk xs
  | .cmp _ a b => catClash tys unk a b || illTyped tys unk a || illTyped tys unk b
  | .between _ e lo hi =>
    catClash tys unk e lo || catClash tys unk e hi || illTyped tys unk e || illTyped tys unk lo || illTyped tys unk hi
  | .inList _ e xs => illTyped tys unk e || clashAny tys unk e xs || illTypedList tys unk xs
  | .caseWhen parts => illTypedList tys unk parts
  | .caseOf x parts => illTyped tys unk x || clashWhens tys unk x parts || illTypedList tys unk parts
def illTypedList (tys : List Ty) (unk : List Nat) : List Expr → Bool
  | [] => false
  | e :: es => illTyped tys unk e || illTypedList tys unk es
def clashAny (tys : List Ty) (unk : List Nat) (e : Expr) : List Expr → Bool
  | [] => false
  | x :: xs => catClash tys unk e x || clashAny tys unk e xs
/-- the WHEN values of a simple CASE (every other element of `parts`, not the last) -/
def clashWhens (tys : List Ty) (unk : List Nat) (x : Expr) : List Expr → Bool
  | c :: _ :: rest => catClash tys unk x c || clashWhens tys unk x rest
  | _ => false
end

def illTypedOpt (tys : List Ty) (unk : List Nat) : Option Expr → Bool
  | none => false
  | some e => illTyped tys unk e

def From.illTyped (db : Db) : From → Bool
  | .table _ => false
  | .join _ l r on => l.illTyped db || r.illTyped db || illTypedOpt (l.tys db ++ r.tys db) [] on
  | .derived f w items =>
    f.illTyped db || illTypedOpt (f.tys db) [] w || illTypedList (f.tys db) [] items

/-- positions of the aggregate row without a type: keys and MIN / MAX arguments that are untyped NULLs -/
def aggUnknown (tys : List Ty) (keys : List Expr) (aggs : List Agg) : List Nat :=
  let ks := (List.range keys.length).filter (fun i => (inferTyO tys (keys.getD i (.lit .null))).isNone)
  let as := (List.range aggs.length).filter (fun j =>
    let a := aggs.getD j default
    (a.fn == .min || a.fn == .max) && (inferTyO tys a.arg).isNone)
  ks ++ as.map (· + keys.length)

def stmtIllTyped (db : Db) : Stmt → Bool
  | .select q =>
    let tys := q.from_.tys db
    let atys := if q.isAgg then aggTys tys q.groupBy q.aggs else tys
    let unk := if q.isAgg then aggUnknown tys q.groupBy q.aggs else []
    q.from_.illTyped db || illTypedOpt tys [] q.where_ || illTypedList tys [] q.groupBy
      || illTypedList tys [] (q.aggs.map (·.arg)) || illTypedOpt atys unk q.having
      || (match q.items with | none => false | some items => illTypedList atys unk items)
  | .insert _ _ => false
  | .update t sets w =>
    let tys := (db.getD t default).tys
    illTypedOpt tys [] w || illTypedList tys [] (sets.map (·.2))
  | .delete t w => illTypedOpt (db.getD t default).tys [] w

/-- a statement with a cross-category comparison is rejected with a type error and changes nothing -/
def execStmtTyped (D : Defects) (nullsFirst : Bool) (db : Db) (s : Stmt) : Db × Outcome :=
  if stmtIllTyped db s then (db, .error .type) else execStmt D nullsFirst db s

def execAll (D : Defects) (nullsFirst : Bool) : Db → List Stmt → List Outcome
  | _, [] => []
  | db, s :: ss =>
    let (db', o) := execStmtTyped D nullsFirst db s
    o :: execAll D nullsFirst db' ss

end AxVerif.Sql
