/-
  B+tree page graph (C10): the dump of a real tree, the decision procedure `checkTree`, and the code's own read paths
  (`lookup` = child routing + binary search, `leafScan` = left-most descent + sibling links) as total functions on the dump.

  Keys are `Nat`s: the harness realises key *indices* as real keys through a monotone map per key type (tied by the `cmp`
  cases against `CellComparator`), so `<` on `Nat` is the code's key order. A payload is identified by (length, seed).

  Conventions taken from tree/bplustree.rs:
  * a page is a leaf iff it has no right child (`is_leaf`);
  * `find_child_on_page`: go to the left child of the first cell whose key is **greater** than the search key, else to the
    right child — keys equal to a separator live on its right side, so a subtree owns the half-open interval [lo, hi);
  * `get_left_most`: follow `child(0)` (= the right child on a page without cells) down to a leaf;
  * the iterator follows `next_sibling` from there.
  Core Lean only.
-/
namespace AxVerif.BTree

/-- payload identity: (length, seed) -/
abbrev Val := Nat × Nat

structure LeafCell where
  key : Nat
  val : Val
  /-- overflow chain page ids (not used by C10's checker; C11 reuses the dump) -/
  chain : List Nat := []
  deriving Repr, DecidableEq

structure IntCell where
  left : Nat
  key : Nat
  chain : List Nat := []
  deriving Repr, DecidableEq

/-- A B-tree page as dumped. Page id 0 means "none" in every link. -/
inductive Page where
  | leaf (prev next : Nat) (cells : List LeafCell)
  | interior (prev next right : Nat) (cells : List IntCell)
  deriving Repr, DecidableEq

/-- The page graph. `fuel` bounds every walk (the driver uses number of pages + 1). -/
structure Dump where
  root : Nat
  fuel : Nat
  page : Nat → Option Page

/-- Pages as data (what the driver builds, and what C11 can reuse). -/
structure DumpData where
  root : Nat
  pages : Array (Option Page)

/-- a dump with one page replaced -/
def Dump.withPage (d : Dump) (id : Nat) (p : Option Page) : Dump :=
  { d with page := fun i => if i = id then p else d.page i }

def DumpData.toDump (d : DumpData) : Dump :=
  { root := d.root, fuel := d.pages.size + 1, page := fun i => if i = 0 then none else (d.pages[i]?).join }

/-- The tree read off the graph. A page with cells c₁…cₙ and right child r is
    `cons id ch₁ k₁ (cons id ch₂ k₂ (… (last id r)))`. -/
inductive T where
  | leaf (id : Nat) (cells : List (Nat × Val))
  | last (id : Nat) (right : T)
  | cons (id : Nat) (child : T) (sep : Nat) (rest : T)
  deriving Repr

def leafEntries (cells : List LeafCell) : List (Nat × Val) := cells.map fun c => (c.key, c.val)

/-- children of one interior page, given the function that reads a child -/
def buildInt (f : Nat → Option T) (id : Nat) : List IntCell → Nat → Option T
  | [], right => (f right).map (T.last id)
  | c :: cs, right =>
    match f c.left, buildInt f id cs right with
    | some ch, some rest => some (T.cons id ch c.key rest)
    | _, _ => none

/-- Fuel-bounded reading of the subtree below page `id` (a cycle exhausts the fuel). -/
def extract (d : Dump) : Nat → Nat → Option T
  | 0, _ => none
  | fuel + 1, id =>
    match d.page id with
    | none => none
    | some (.leaf _ _ cells) => some (T.leaf id (leafEntries cells))
    | some (.interior _ _ right cells) => buildInt (extract d fuel) id cells right

namespace T

/-- in-order contents -/
def toList : T → List (Nat × Val)
  | leaf _ cells => cells
  | last _ r => r.toList
  | cons _ ch _ rest => ch.toList ++ rest.toList

/-- leaves in order: (page id, cells) -/
def leafList : T → List (Nat × List (Nat × Val))
  | leaf id cells => [(id, cells)]
  | last _ r => r.leafList
  | cons _ ch _ rest => ch.leafList ++ rest.leafList

/-- every page id of the tree, each page once -/
def ids : T → List Nat
  | leaf id _ => [id]
  | last id r => id :: r.ids
  | cons _ ch _ rest => ch.ids ++ rest.ids

/-- number of levels below this node if all leaves are at the same depth -/
def height : T → Option Nat
  | leaf _ _ => some 0
  | last _ r => r.height.map (· + 1)
  | cons _ ch _ rest =>
    match ch.height, rest.height with
    | some a, some b => if a + 1 = b then some b else none
    | _, _ => none

/-- depth of every leaf, the node itself being at depth `d` -/
def leafDepths : Nat → T → List Nat
  | d, leaf _ _ => [d]
  | d, last _ r => leafDepths (d + 1) r
  | d, cons _ ch _ rest => leafDepths (d + 1) ch ++ leafDepths d rest

end T

def inLo (lo : Option Nat) (k : Nat) : Bool :=
  match lo with
  | none => true
  | some l => decide (l ≤ k)

def inHi (hi : Option Nat) (k : Nat) : Bool :=
  match hi with
  | none => true
  | some h => decide (k < h)

/-- strictly increasing -/
def ascending : List Nat → Bool
  | [] => true
  | [_] => true
  | a :: b :: rest => decide (a < b) && ascending (b :: rest)

def keysOf (l : List (Nat × Val)) : List Nat := l.map (·.1)

/-- Keys strictly ordered inside every leaf, every separator inside the interval of its page, and every subtree
    inside the interval its separators promise. -/
def T.bounded : Option Nat → Option Nat → T → Bool
  | lo, hi, .leaf _ cells => ascending (keysOf cells) && (keysOf cells).all (fun k => inLo lo k && inHi hi k)
  | lo, hi, .last _ r => r.bounded lo hi
  | lo, hi, .cons _ ch s rest => inLo lo s && inHi hi s && ch.bounded lo (some s) && rest.bounded (some s) hi

/-- separators strictly increasing inside every interior page -/
def T.sepsAscending : T → Bool
  | .leaf _ _ => true
  | .last _ r => r.sepsAscending
  | .cons _ ch s rest =>
    ch.sepsAscending && rest.sepsAscending &&
      (match rest with
       | .cons _ _ s' _ => decide (s < s')
       | _ => true)

/-- The leaf chain: `prev` of the first leaf is `p`, every `next` is the following leaf, the last `next` is 0. -/
def linksOk (d : Dump) : Nat → List Nat → Bool
  | _, [] => true
  | p, l :: ls =>
    match d.page l with
    | some (.leaf pr nx _) => pr == p && nx == ls.headD 0 && linksOk d l ls
    | _ => false

def Page.prev : Page → Nat
  | .leaf p _ _ => p
  | .interior p _ _ _ => p

def Page.next : Page → Nat
  | .leaf _ n _ => n
  | .interior _ n _ _ => n

/-- pages of level `n` below (and including) a page head, in key order; `head = false` for the continuation of a page -/
def T.levelAux : Nat → Bool → T → List Nat
  | n, _, .leaf id _ => if n = 0 then [id] else []
  | 0, head, .last id _ => if head then [id] else []
  | n + 1, _, .last _ r => r.levelAux n true
  | 0, head, .cons id _ _ _ => if head then [id] else []
  | n + 1, _, .cons _ ch _ rest => ch.levelAux n true ++ rest.levelAux (n + 1) false

def T.level (t : T) (n : Nat) : List Nat := t.levelAux n true

/-- sibling chain of any level (the code keeps `prev`/`next` on interior pages too and uses them in `balance`) -/
def chainOk (d : Dump) : Nat → List Nat → Bool
  | _, [] => true
  | p, l :: ls =>
    match d.page l with
    | some pg => pg.prev == p && pg.next == ls.headD 0 && chainOk d l ls
    | none => false

/-- every level of the tree is linked in key order -/
def levelsLinked (d : Dump) (t : T) : Bool :=
  (List.range ((t.height.getD 0) + 1)).all fun n => chainOk d 0 (t.level n)

/-- merge of two lists (fuel = sum of the lengths is enough; structural recursion so that the kernel can evaluate it) -/
def mergeF : Nat → List Nat → List Nat → List Nat
  | 0, xs, ys => xs ++ ys
  | _ + 1, [], ys => ys
  | _ + 1, xs, [] => xs
  | f + 1, x :: xs, y :: ys =>
    if x ≤ y then x :: mergeF f xs (y :: ys) else y :: mergeF f (x :: xs) ys

/-- top-down merge sort; `fuel` bounds the depth of the recursion -/
def msort : Nat → List Nat → List Nat
  | 0, l => l
  | f + 1, l =>
    if l.length < 2 then l
    else
      let a := l.take (l.length / 2)
      let b := l.drop (l.length / 2)
      mergeF l.length (msort f a) (msort f b)

/-- no page id occurs twice (sort, then compare neighbours) -/
def distinct (l : List Nat) : Bool := ascending (msort l.length l)

/-- no leaf without cells, except a root that is itself an (empty) leaf -/
def T.noEmptyLeaf : T → Bool
  | .leaf _ _ => true
  | t => t.leafList.all fun p => !p.2.isEmpty

/-- the tree read from the root -/
def treeOf (d : Dump) : Option T := extract d d.fuel d.root

/-- The decision procedure applied to every dump of the real tree. -/
def checkT (d : Dump) (t : T) : Bool :=
  t.bounded none none && t.sepsAscending && t.height.isSome && distinct t.ids &&
    !(t.ids.contains 0) && linksOk d 0 (t.leafList.map (·.1)) && decide (t.leafList.length < d.fuel) &&
    levelsLinked d t && t.noEmptyLeaf

def checkTree (d : Dump) : Bool :=
  match treeOf d with
  | none => false
  | some t => checkT d t

/-- in-order contents of the dump (empty if the graph is not a tree within the fuel) -/
def toList (d : Dump) : List (Nat × Val) :=
  match treeOf d with
  | none => []
  | some t => t.toList

/-- first entry with key `k` -/
def alookup (k : Nat) : List (Nat × Val) → Option Val
  | [] => none
  | (k', v) :: rest => if k = k' then some v else alookup k rest

/-- `binary_search_page`: `left`, `right`, `mid = left + (right - left) / 2`. -/
def bsearch (cells : List (Nat × Val)) (k : Nat) : Nat → Nat → Nat → Option Val
  | 0, _, _ => none
  | fuel + 1, lo, hi =>
    if lo < hi then
      let mid := lo + (hi - lo) / 2
      match cells[mid]? with
      | none => none
      | some (k', v) =>
        if k = k' then some v
        else if k' < k then bsearch cells k fuel (mid + 1) hi
        else bsearch cells k fuel lo mid
    else none

def leafSearch (cells : List (Nat × Val)) (k : Nat) : Option Val :=
  bsearch cells k (cells.length + 1) 0 cells.length

/-- `find_child_on_page` -/
def findChild (k : Nat) : List IntCell → Nat → Nat
  | [], right => right
  | c :: cs, right => if k < c.key then c.left else findChild k cs right

/-- `page_search` on the graph -/
def lookupG (d : Dump) : Nat → Nat → Nat → Option Val
  | 0, _, _ => none
  | fuel + 1, id, k =>
    match d.page id with
    | none => none
    | some (.leaf _ _ cells) => leafSearch (leafEntries cells) k
    | some (.interior _ _ right cells) => lookupG d fuel (findChild k cells right) k

def lookup (d : Dump) (k : Nat) : Option Val := lookupG d d.fuel d.root k

/-- the same search on the tree that was read off -/
def T.lookup : T → Nat → Option Val
  | .leaf _ cells, k => leafSearch cells k
  | .last _ r, k => r.lookup k
  | .cons _ ch s rest, k => if k < s then ch.lookup k else rest.lookup k

/-- `get_left_most`: follow `child(0)` down to a leaf -/
def leftmost (d : Dump) : Nat → Nat → Option Nat
  | 0, _ => none
  | fuel + 1, id =>
    match d.page id with
    | none => none
    | some (.leaf _ _ _) => some id
    | some (.interior _ _ right cells) =>
      leftmost d fuel (match cells with
        | [] => right
        | c :: _ => c.left)

/-- the forward iterator: all cells of a leaf, then `next_sibling` -/
def scanFrom (d : Dump) : Nat → Nat → List (Nat × Val)
  | 0, _ => []
  | fuel + 1, id =>
    if id = 0 then []
    else
      match d.page id with
      | some (.leaf _ nx cells) => leafEntries cells ++ scanFrom d fuel nx
      | _ => []

def leafScan (d : Dump) : List (Nat × Val) :=
  match leftmost d d.fuel d.root with
  | none => []
  | some l => scanFrom d d.fuel l

/-- `get_right_most`: follow the right child down to a leaf -/
def rightmost (d : Dump) : Nat → Nat → Option Nat
  | 0, _ => none
  | fuel + 1, id =>
    match d.page id with
    | none => none
    | some (.leaf _ _ _) => some id
    | some (.interior _ _ right _) => rightmost d fuel right

/-- the backward iterator (`into_iter_backward` + `next_back`): the cells of a leaf from last to first, then
    `prev_sibling`. `none` = the code panics or fails: it computes `num_slots - 1` on every leaf it enters, so a leaf
    without cells is fatal (usize underflow), and a page that is not a leaf is an error. -/
def scanBackFrom (d : Dump) : Nat → Nat → Option (List (Nat × Val))
  | 0, _ => some []
  | fuel + 1, id =>
    if id = 0 then some []
    else
      match d.page id with
      | some (.leaf pr _ cells) =>
        if cells.isEmpty then none
        else (scanBackFrom d fuel pr).map fun r => (leafEntries cells).reverse ++ r
      | _ => none

def leafScanBack (d : Dump) : Option (List (Nat × Val)) :=
  match d.page d.root with
  | some (.leaf _ _ []) => some []          -- `BtreeEmpty`, reported as an empty scan
  | _ =>
    match rightmost d d.fuel d.root with
    | none => none
    | some l => scanBackFrom d d.fuel l

/-! ### The spec map: a key-sorted association list -/

def sinsert (k : Nat) (v : Val) : List (Nat × Val) → List (Nat × Val)
  | [] => [(k, v)]
  | (k', v') :: rest =>
    if k < k' then (k, v) :: (k', v') :: rest
    else if k = k' then (k, v) :: rest
    else (k', v') :: sinsert k v rest

def serase (k : Nat) : List (Nat × Val) → List (Nat × Val)
  | [] => []
  | (k', v') :: rest => if k = k' then rest else (k', v') :: serase k rest

/-- Operations of the ordered-map interface of the tree. -/
inductive Op where
  | ins (k : Nat) (v : Val)
  | upd (k : Nat) (v : Val)
  | ups (k : Nat) (v : Val)
  | rm (k : Nat)
  | get (k : Nat)
  | scan
  deriving Repr, DecidableEq

inductive Res where
  | ok | dup | nokey
  | found (v : Option Val)
  | list (l : List (Nat × Val))
  deriving Repr, DecidableEq

/-- One step of the spec: `insert` refuses an existing key, `update`/`remove` a missing one. -/
def specStep (m : List (Nat × Val)) : Op → List (Nat × Val) × Res
  | .ins k v => if (alookup k m).isSome then (m, .dup) else (sinsert k v m, .ok)
  | .upd k v => if (alookup k m).isSome then (sinsert k v m, .ok) else (m, .nokey)
  | .ups k v => (sinsert k v m, .ok)
  | .rm k => if (alookup k m).isSome then (serase k m, .ok) else (m, .nokey)
  | .get k => (m, .found (alookup k m))
  | .scan => (m, .list m)

def specRun (m : List (Nat × Val)) : List Op → List (Nat × Val)
  | [] => m
  | op :: ops => specRun (specStep m op).1 ops

end AxVerif.BTree
