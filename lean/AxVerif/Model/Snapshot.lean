/-
  Model of `multithreading/coordinator.rs :: Snapshot` — what a reader is entitled to see.
  Core Lean only.  Transaction ids are `Nat` (the code uses `u64`; nothing here depends on the width).
-/
namespace AxVerif.Tuple

/-- One flag per shipped defect of the tuple codec / snapshot predicate.  All off = the specification. -/
structure Defects where
  /-- `Tuple::add_version_with` ignores `new_xmin` and stamps the new version with the inserter's xmin
      (storage/tuple.rs:1019-1020). -/
  updateKeepsInserterXmin : Bool := false
  /-- `Snapshot::is_committed_before_snapshot`: with `xmax = None` (no transaction with id > 0 had committed when
      the snapshot was taken) every id that is not in the active/aborted sets counts as committed
      (coordinator.rs:180-184).  Since af2ef76 the coordinator never constructs such a snapshot; only
      `Snapshot::new(.., None, ..)` does. -/
  xmaxNoneSeesAll : Bool := false
  /-- `parse_for_snapshot` tests only "deleter committed before the snapshot" before giving up on the newest version;
      a row deleted by the reader itself falls through to the delta walk and an older version comes back
      (storage/tuple.rs:596-605). -/
  ownDeleteWalksDeltas : Bool := false
  /-- the delta walk accepts an older version only if its creator committed before the snapshot — not if the
      creator is the reader itself (storage/tuple.rs:649). -/
  walkIgnoresOwnVersions : Bool := false
  /-- `vaccum_with` drops the newest version older than the horizon although readers at the horizon that cannot
      see anything newer need exactly that version (storage/tuple.rs:1308-1343). -/
  vacuumDropsHorizonVersion : Bool := false
  /-- `add_version_with` copies the older deltas to the unaligned end of the new delta while every reader aligns
      the cursor before a delta header (storage/tuple.rs:1044-1047, 1162-1163). -/
  deltasCopiedUnaligned : Bool := false
  /-- the version counter is a `u8` incremented with `+`: the 256th version panics (storage/tuple.rs:1020). -/
  versionOverflowPanics : Bool := false
  /-- `Bool::write_to` does `writer[cursor..].copy_from_slice(&[b])`, which panics unless the bool is the last
      byte of the buffer (types/bool.rs:289). -/
  boolWriteNeedsLastByte : Bool := false
  /-- the delta loops run `while cursor < data.len()`: on the padded form of a tuple (as the log stores it) a walk
      that passes the last delta reads a header beyond the end and panics (storage/tuple.rs:611). -/
  paddedWalkPanics : Bool := false
  deriving Repr, DecidableEq

/-- `Snapshot` (coordinator.rs:96-107). -/
structure Snapshot where
  xid : Nat
  xmin : Nat
  /-- last committed transaction when the snapshot was taken; `none` = none with id > 0 -/
  xmax : Option Nat
  active : List Nat
  aborted : List Nat
  deriving Repr, DecidableEq

/-- `Snapshot::is_committed_before_snapshot` (coordinator.rs:177-194). -/
def committedBefore (D : Defects) (s : Snapshot) (t : Nat) : Bool :=
  let startedAfter : Bool :=
    match s.xmax with
    | some m => decide (m < t)
    | none => if D.xmaxNoneSeesAll then false else decide (0 < t)
  !startedAfter && !(s.active.contains t) && !(s.aborted.contains t)

/-- what the reader may see of a creator: its own work, or work committed before its snapshot -/
def creatorVisible (D : Defects) (s : Snapshot) (t : Nat) : Bool :=
  decide (t = s.xid) || committedBefore D s t

/-- `Snapshot::is_tuple_visible` (coordinator.rs:147-174), transcribed branch by branch. -/
def isTupleVisible (D : Defects) (s : Snapshot) (tmin : Nat) (tmax : Option Nat) : Bool :=
  match decide (tmin = s.xid), tmax with
  | true, some x => decide (x ≠ s.xid)
  | _, _ =>
    if !committedBefore D s tmin then false
    else match tmax with
      | some x => !committedBefore D s x
      | none => true

end AxVerif.Tuple
