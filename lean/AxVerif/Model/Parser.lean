/-
  C05 — model of the expression parser (sql/parser/mod.rs: `parse_expr_bp`, `parse_prefix`, `parse_infix`,
  `infix_binding_power`) and of the lexer (sql/parser/lexer.rs) for the expression fragment:
  literals, identifiers, unary + - NOT, the binary operators, IS [NOT], [NOT] BETWEEN, [NOT] IN (list),
  [NOT] LIKE, parentheses.  Function calls, CASE, sub-queries, tuples and `*` are outside the model
  (the model answers `error`).

  The parser is the Pratt loop of the code, driven by a table of binding powers (`Table`) that is
  extracted from the code on every run (`Generated/Parse.lean`).  Recursion is on a fuel argument.
  Core Lean only.
-/
namespace AxVerif.Parser

inductive Tok where
  | num (n : Nat)
  | str (s : List Nat)
  | ident (s : List Nat)
  | kTrue | kFalse | kNull | kAnd | kOr | kNot | kLike | kIn | kBetween | kIs
  | lparen | rparen | comma | dot
  | eq | neq | lt | gt | le | ge | plus | minus | star | slash | percent | concat
  /-- any other keyword or symbol: never part of the modelled expression grammar -/
  | other (s : List Nat)
  deriving DecidableEq, Repr, Inhabited

inductive UnOp where
  | pos | neg | not
  deriving DecidableEq, Repr, Inhabited

inductive BinOp where
  | or | and | eq | neq | lt | gt | le | ge | like | notlike | plus | minus | concat | mul | div | mod | is | isnot
  deriving DecidableEq, Repr, Inhabited

/-- the AST of sql/parser/ast.rs for the fragment (`IN` keeps its list, `IS` its right operand) -/
inductive PExpr where
  | num (i : Int)
  | str (s : List Nat)
  | bool (b : Bool)
  | null
  | ident (s : List Nat)
  | qident (t c : List Nat)
  | un (op : UnOp) (e : PExpr)
  | bin (op : BinOp) (l r : PExpr)
  | between (neg : Bool) (e lo hi : PExpr)
  | inList (neg : Bool) (e : PExpr) (items : List PExpr)
  deriving Repr, Inhabited

/-- binding powers as the code uses them (extracted) -/
structure Table where
  or_ : Nat × Nat
  and_ : Nat × Nat
  eq : Nat × Nat
  neq : Nat × Nat
  lt : Nat × Nat
  gt : Nat × Nat
  le : Nat × Nat
  ge : Nat × Nat
  like : Nat × Nat
  in_ : Nat × Nat
  between : Nat × Nat
  is_ : Nat × Nat
  plus : Nat × Nat
  minus : Nat × Nat
  star : Nat × Nat
  slash : Nat × Nat
  percent : Nat × Nat
  concat : Nat × Nat
  notIn : Option (Nat × Nat)
  notBetween : Option (Nat × Nat)
  notLike : Option (Nat × Nat)
  /-- `NOT` followed by anything else, `,` and `)`: no infix operator -/
  notOther : Option (Nat × Nat)
  comma : Option (Nat × Nat)
  rparen : Option (Nat × Nat)
  /-- effective power with which a prefix operator parses its operand; the bounds of BETWEEN -/
  prefixNot : Nat
  prefixMinus : Nat
  prefixPlus : Nat
  betweenBound : Nat
  deriving DecidableEq, Repr, Inhabited

/-- the documented precedence: OR < AND < NOT < comparison, LIKE, IN, BETWEEN, IS < + - || < * / % < unary sign;
    binary operators associate to the left -/
def docTable : Table :=
  { or_ := (1, 2), and_ := (3, 4),
    eq := (5, 6), neq := (5, 6), lt := (5, 6), gt := (5, 6), le := (5, 6), ge := (5, 6),
    like := (5, 6), in_ := (5, 6), between := (5, 6), is_ := (5, 6),
    plus := (7, 8), minus := (7, 8), concat := (7, 8),
    star := (9, 10), slash := (9, 10), percent := (9, 10),
    notIn := some (5, 6), notBetween := some (5, 6), notLike := some (5, 6),
    notOther := none, comma := none, rparen := none,
    prefixNot := 5, prefixMinus := 11, prefixPlus := 11, betweenBound := 5 }

/-- the table of the shipped code: NOT parsed its operand down to AND's left power, the unary signs down to `*`'s -/
def shippedTable : Table := { docTable with prefixNot := 3, prefixMinus := 9, prefixPlus := 9 }

/-- `infix_binding_power`: the powers of token `t` as an infix operator, given the token after it -/
def infixPower (P : Table) (t : Tok) (next : Option Tok) : Option (Nat × Nat) :=
  match t with
  | .kOr => some P.or_ | .kAnd => some P.and_
  | .eq => some P.eq | .neq => some P.neq | .lt => some P.lt | .gt => some P.gt | .le => some P.le | .ge => some P.ge
  | .kLike => some P.like | .kIn => some P.in_ | .kBetween => some P.between | .kIs => some P.is_
  | .plus => some P.plus | .minus => some P.minus | .star => some P.star | .slash => some P.slash
  | .percent => some P.percent | .concat => some P.concat
  | .kNot => match next with
    | some .kIn => P.notIn
    | some .kBetween => P.notBetween
    | some .kLike => P.notLike
    | _ => P.notOther
  | .comma => P.comma
  | .rparen => P.rparen
  | _ => none

/-- the binary operator an infix token stands for, when its right operand is simply `parse_expr_bp(r_bp)` -/
def simpleBin : Tok → Option BinOp
  | .kOr => some .or | .kAnd => some .and
  | .eq => some .eq | .neq => some .neq | .lt => some .lt | .gt => some .gt | .le => some .le | .ge => some .ge
  | .kLike => some .like
  | .plus => some .plus | .minus => some .minus | .star => some .mul | .slash => some .div
  | .percent => some .mod | .concat => some .concat
  | _ => none

abbrev Res (α : Type) := Option (α × List Tok)

mutual
/-- `parse_expr_bp(min_bp)` -/
def parseBp (P : Table) : Nat → Nat → List Tok → Res PExpr
  | 0, _, _ => none
  | f + 1, minBp, ts =>
    match parsePrefix P f ts with
    | none => none
    | some (lhs, rest) => parseLoop P f minBp lhs rest

/-- the `while let Some((l_bp, r_bp)) = self.infix_binding_power()` loop -/
def parseLoop (P : Table) : Nat → Nat → PExpr → List Tok → Res PExpr
  | 0, _, _, _ => none
  | f + 1, minBp, lhs, ts =>
    match ts with
    | [] => some (lhs, [])
    | t :: rest =>
      match infixPower P t rest.head? with
      | none => some (lhs, ts)
      | some (l, r) =>
        if l < minBp then some (lhs, ts)
        else match parseInfix P f lhs r t rest with
          | none => none
          | some (lhs', rest') => parseLoop P f minBp lhs' rest'

/-- `parse_prefix` -/
def parsePrefix (P : Table) : Nat → List Tok → Res PExpr
  | 0, _ => none
  | f + 1, ts =>
    match ts with
    | .num n :: r => some (.num n, r)
    | .str s :: r => some (.str s, r)
    | .kTrue :: r => some (.bool true, r)
    | .kFalse :: r => some (.bool false, r)
    | .kNull :: r => some (.null, r)
    | .ident a :: .dot :: .ident b :: r => some (.qident a b, r)
    | .ident _ :: .dot :: _ => none
    | .ident _ :: .lparen :: _ => none          -- function call: outside the model
    | .ident a :: r => some (.ident a, r)
    | .lparen :: r =>
      match parseBp P f 0 r with
      | some (e, .rparen :: r') => some (e, r')
      | _ => none                               -- tuples `(a, b)` are outside the model
    | .plus :: r =>
      match parseBp P f P.prefixPlus r with
      | some (e, r') => some (.un .pos e, r')
      | none => none
    | .minus :: .num n :: r => some (.num (-(n : Int)), r)
    | .minus :: r =>
      match parseBp P f P.prefixMinus r with
      | some (e, r') => some (.un .neg e, r')
      | none => none
    | .kNot :: r =>
      match parseBp P f P.prefixNot r with
      | some (e, r') => some (.un .not e, r')
      | none => none
    | _ => none

/-- `parse_infix(left, r_bp)` with the current token `t` and the tokens after it -/
def parseInfix (P : Table) : Nat → PExpr → Nat → Tok → List Tok → Res PExpr
  | 0, _, _, _, _ => none
  | f + 1, lhs, rbp, t, rest =>
    match simpleBin t with
    | some op =>
      match parseBp P f rbp rest with
      | some (rhs, r') => some (.bin op lhs rhs, r')
      | none => none
    | none =>
      match t, rest with
      | .kIs, .kNot :: r =>
        match parseBp P f rbp r with
        | some (rhs, r') => some (.bin .isnot lhs rhs, r')
        | none => none
      | .kIs, r =>
        match parseBp P f rbp r with
        | some (rhs, r') => some (.bin .is lhs rhs, r')
        | none => none
      | .kIn, .lparen :: r =>
        match parseList P f r with
        | some (items, .rparen :: r') => some (.inList false lhs items, r')
        | _ => none
      | .kBetween, r => parseBetween P f false lhs r
      | .kNot, .kIn :: .lparen :: r =>
        match parseList P f r with
        | some (items, .rparen :: r') => some (.inList true lhs items, r')
        | _ => none
      | .kNot, .kBetween :: r => parseBetween P f true lhs r
      | .kNot, .kLike :: r =>
        match parseBp P f rbp r with
        | some (rhs, r') => some (.bin .notlike lhs rhs, r')
        | none => none
      | _, _ => none

/-- `low = parse_expr_bp(bound); expect(AND); high = parse_expr_bp(bound)` -/
def parseBetween (P : Table) : Nat → Bool → PExpr → List Tok → Res PExpr
  | 0, _, _, _ => none
  | f + 1, neg, lhs, r =>
    match parseBp P f P.betweenBound r with
    | some (lo, .kAnd :: r') =>
      match parseBp P f P.betweenBound r' with
      | some (hi, r'') => some (.between neg lhs lo hi, r'')
      | none => none
    | _ => none

/-- comma separated expressions (the caller expects the closing parenthesis) -/
def parseList (P : Table) : Nat → List Tok → Res (List PExpr)
  | 0, _ => none
  | f + 1, ts =>
    match parseBp P f 0 ts with
    | some (e, .comma :: r) =>
      match parseList P f r with
      | some (es, r') => some (e :: es, r')
      | none => none
    | some (e, r) => some ([e], r)
    | none => none
end

/-- parse a whole token list as one expression -/
def parseExpr (P : Table) (ts : List Tok) : Option PExpr :=
  match parseBp P (32 * ts.length + 32) 0 ts with
  | some (e, []) => some e
  | _ => none

/-! ## printing with minimal parentheses -/

def binTok : BinOp → List Tok
  | .or => [.kOr] | .and => [.kAnd]
  | .eq => [.eq] | .neq => [.neq] | .lt => [.lt] | .gt => [.gt] | .le => [.le] | .ge => [.ge]
  | .like => [.kLike] | .notlike => [.kNot, .kLike]
  | .plus => [.plus] | .minus => [.minus] | .concat => [.concat]
  | .mul => [.star] | .div => [.slash] | .mod => [.percent]
  | .is => [.kIs] | .isnot => [.kIs, .kNot]

/-- (left, right) binding power of a binary operator in the table -/
def binPower (P : Table) : BinOp → Nat × Nat
  | .or => P.or_ | .and => P.and_
  | .eq => P.eq | .neq => P.neq | .lt => P.lt | .gt => P.gt | .le => P.le | .ge => P.ge
  | .like => P.like | .notlike => P.notLike.getD (0, 0)
  | .plus => P.plus | .minus => P.minus | .concat => P.concat
  | .mul => P.star | .div => P.slash | .mod => P.percent
  | .is => P.is_ | .isnot => P.is_

def unTok : UnOp → Tok
  | .pos => .plus | .neg => .minus | .not => .kNot

def unPower (P : Table) : UnOp → Nat
  | .pos => P.prefixPlus | .neg => P.prefixMinus | .not => P.prefixNot

/-- the level at which an expression binds: an expression printed where level `p` is required is put in
    parentheses iff its level is below `p`.  Atoms bind tightest. -/
def level (P : Table) : PExpr → Nat
  | .un op _ => unPower P op
  | .bin op _ _ => (binPower P op).1
  | .between _ _ _ _ => P.between.1
  | .inList _ _ _ => P.in_.1
  | _ => 1000

/-- is the operator on the comparison level (not associative in the printed form)? -/
def cmpLevel : BinOp → Bool
  | .eq | .neq | .lt | .gt | .le | .ge | .like | .notlike | .is | .isnot => true
  | _ => false

/-- level required of the left operand: the operator's own left power (so chains of the same level associate
    to the left without parentheses), except on the comparison level, which is printed non-associatively -/
def leftCtx (P : Table) (op : BinOp) : Nat :=
  if cmpLevel op then (binPower P op).2 else (binPower P op).1

def wrapIf (c : Bool) (ts : List Tok) : List Tok := if c then .lparen :: ts ++ [.rparen] else ts

mutual
/-- tokens of `e` without outer parentheses; a sub-expression is parenthesised iff its level is below the level
    its position requires -/
def body (P : Table) : PExpr → List Tok
  | .num i => if i < 0 then [.minus, .num i.natAbs] else [.num i.toNat]
  | .str s => [.str s]
  | .bool b => [if b then .kTrue else .kFalse]
  | .null => [.kNull]
  | .ident s => [.ident s]
  | .qident t c => [.ident t, .dot, .ident c]
  | .un op e => unTok op :: wrapIf (level P e < unPower P op) (body P e)
  | .bin op l r =>
    wrapIf (level P l < leftCtx P op) (body P l) ++ binTok op ++
      wrapIf (level P r < (binPower P op).2) (body P r)
  | .between neg e lo hi =>
    wrapIf (level P e < P.between.2) (body P e) ++ (if neg then [.kNot, .kBetween] else [.kBetween]) ++
      wrapIf (level P lo < P.plus.1) (body P lo) ++ [.kAnd] ++ wrapIf (level P hi < P.plus.1) (body P hi)
  | .inList neg e items =>
    wrapIf (level P e < P.in_.2) (body P e) ++ (if neg then [.kNot, .kIn, .lparen] else [.kIn, .lparen]) ++
      bodyList P items ++ [.rparen]

def bodyList (P : Table) : List PExpr → List Tok
  | [] => []
  | e :: es => body P e ++ (match es with | [] => [] | _ :: _ => .comma :: bodyList P es)
end

/-- tokens of `e` where binding level `p` is required -/
def toks (P : Table) (p : Nat) (e : PExpr) : List Tok := wrapIf (level P e < p) (body P e)

/-- minimal-parentheses rendering of a whole expression -/
def printMin (P : Table) (e : PExpr) : List Tok := body P e

mutual
/-- expressions the printer can render so that they come back: `- <number>` is read as a negative literal, and the
    element list of IN is not empty -/
def Printable : PExpr → Bool
  | .un .neg (.num n) => n < 0
  | .un _ e => Printable e
  | .bin _ l r => Printable l && Printable r
  | .between _ e lo hi => Printable e && Printable lo && Printable hi
  | .inList _ e items => Printable e && !items.isEmpty && PrintableList items
  | _ => true

def PrintableList : List PExpr → Bool
  | [] => true
  | e :: es => Printable e && PrintableList es
end

/-! ### printing with every operand in parentheses -/

def paren (ts : List Tok) : List Tok := .lparen :: ts ++ [.rparen]

mutual
def full : PExpr → List Tok
  | .num i => if i < 0 then [.minus, .num i.natAbs] else [.num i.toNat]
  | .str s => [.str s]
  | .bool b => [if b then .kTrue else .kFalse]
  | .null => [.kNull]
  | .ident s => [.ident s]
  | .qident t c => [.ident t, .dot, .ident c]
  | .un op e => unTok op :: paren (full e)
  | .bin op l r => paren (full l) ++ binTok op ++ paren (full r)
  | .between neg e lo hi =>
    paren (full e) ++ (if neg then [.kNot, .kBetween] else [.kBetween]) ++ paren (full lo) ++ [.kAnd] ++ paren (full hi)
  | .inList neg e items =>
    paren (full e) ++ (if neg then [.kNot, .kIn, .lparen] else [.kIn, .lparen]) ++ fullList items ++ [.rparen]

def fullList : List PExpr → List Tok
  | [] => []
  | e :: es => full e ++ (match es with | [] => [] | _ :: _ => .comma :: fullList es)
end

mutual
/-- the element list of every IN is non-empty (all the grammar can produce) -/
def ListsOk : PExpr → Bool
  | .un _ e => ListsOk e
  | .bin _ l r => ListsOk l && ListsOk r
  | .between _ e lo hi => ListsOk e && ListsOk lo && ListsOk hi
  | .inList _ e items => ListsOk e && !items.isEmpty && ListsOkList items
  | _ => true

def ListsOkList : List PExpr → Bool
  | [] => true
  | e :: es => ListsOk e && ListsOkList es
end

/-! ## lexer -/

def isDigit (c : Nat) : Bool := 48 ≤ c && c ≤ 57
def isAlpha (c : Nat) : Bool := (65 ≤ c && c ≤ 90) || (97 ≤ c && c ≤ 122)
def isIdentChar (c : Nat) : Bool := isAlpha c || isDigit c || c == 95
def isSpace (c : Nat) : Bool := c == 32 || c == 9 || c == 10 || c == 13
def lower (c : Nat) : Nat := if 65 ≤ c && c ≤ 90 then c + 32 else c

/-- the other keywords of lexer.rs, as byte lists (select, from, where, …) -/
def reserved : List (List Nat) :=
  [[115, 101, 108, 101, 99, 116]  /- select -/,
   [102, 114, 111, 109]  /- from -/,
   [119, 104, 101, 114, 101]  /- where -/,
   [99, 97, 115, 101]  /- case -/,
   [119, 104, 101, 110]  /- when -/,
   [116, 104, 101, 110]  /- then -/,
   [101, 108, 115, 101]  /- else -/,
   [101, 110, 100]  /- end -/,
   [111, 114, 100, 101, 114]  /- order -/,
   [98, 121]  /- by -/,
   [103, 114, 111, 117, 112]  /- group -/,
   [104, 97, 118, 105, 110, 103]  /- having -/,
   [97, 115, 99]  /- asc -/,
   [100, 101, 115, 99]  /- desc -/,
   [105, 110, 115, 101, 114, 116]  /- insert -/,
   [105, 110, 116, 111]  /- into -/,
   [118, 97, 108, 117, 101, 115]  /- values -/,
   [117, 112, 100, 97, 116, 101]  /- update -/,
   [115, 101, 116]  /- set -/,
   [100, 101, 108, 101, 116, 101]  /- delete -/,
   [99, 114, 101, 97, 116, 101]  /- create -/,
   [116, 97, 98, 108, 101]  /- table -/,
   [100, 114, 111, 112]  /- drop -/,
   [108, 105, 109, 105, 116]  /- limit -/,
   [111, 102, 102, 115, 101, 116]  /- offset -/,
   [106, 111, 105, 110]  /- join -/,
   [105, 110, 110, 101, 114]  /- inner -/,
   [111, 117, 116, 101, 114]  /- outer -/,
   [102, 117, 108, 108]  /- full -/,
   [108, 101, 102, 116]  /- left -/,
   [114, 105, 103, 104, 116]  /- right -/,
   [99, 114, 111, 115, 115]  /- cross -/,
   [101, 120, 105, 115, 116, 115]  /- exists -/,
   [97, 110, 121]  /- any -/,
   [97, 108, 108]  /- all -/,
   [115, 111, 109, 101]  /- some -/,
   [111, 110]  /- on -/,
   [97, 115]  /- as -/,
   [100, 105, 115, 116, 105, 110, 99, 116]  /- distinct -/,
   [117, 110, 105, 111, 110]  /- union -/,
   [105, 110, 116, 101, 114, 115, 101, 99, 116]  /- intersect -/,
   [101, 120, 99, 101, 112, 116]  /- except -/,
   [119, 105, 116, 104]  /- with -/,
   [114, 101, 99, 117, 114, 115, 105, 118, 101]  /- recursive -/,
   [112, 114, 105, 109, 97, 114, 121]  /- primary -/,
   [107, 101, 121]  /- key -/,
   [102, 111, 114, 101, 105, 103, 110]  /- foreign -/,
   [114, 101, 102, 101, 114, 101, 110, 99, 101, 115]  /- references -/,
   [117, 110, 105, 113, 117, 101]  /- unique -/,
   [105, 110, 100, 101, 120]  /- index -/,
   [118, 105, 101, 119]  /- view -/,
   [112, 114, 111, 99, 101, 100, 117, 114, 101]  /- procedure -/,
   [102, 117, 110, 99, 116, 105, 111, 110]  /- function -/,
   [116, 114, 105, 103, 103, 101, 114]  /- trigger -/,
   [100, 97, 116, 97, 98, 97, 115, 101]  /- database -/,
   [115, 99, 104, 101, 109, 97]  /- schema -/,
   [103, 114, 97, 110, 116]  /- grant -/,
   [114, 101, 118, 111, 107, 101]  /- revoke -/,
   [99, 111, 109, 109, 105, 116]  /- commit -/,
   [114, 111, 108, 108, 98, 97, 99, 107]  /- rollback -/,
   [116, 114, 97, 110, 115, 97, 99, 116, 105, 111, 110]  /- transaction -/,
   [98, 101, 103, 105, 110]  /- begin -/,
   [99, 111, 110, 115, 116, 114, 97, 105, 110, 116]  /- constraint -/,
   [100, 101, 102, 97, 117, 108, 116]  /- default -/,
   [99, 104, 101, 99, 107]  /- check -/,
   [97, 108, 116, 101, 114]  /- alter -/,
   [97, 100, 100]  /- add -/,
   [99, 111, 108, 117, 109, 110]  /- column -/,
   [109, 111, 100, 105, 102, 121]  /- modify -/,
   [114, 101, 110, 97, 109, 101]  /- rename -/,
   [116, 111]  /- to -/,
   [108, 111, 99, 107]  /- lock -/,
   [105, 102]  /- if -/]

/-- keyword or identifier (keywords are case-insensitive); words are byte lists: true, false, null, and, or, not,
    like, in, between, is -/
def keyword (w : List Nat) : Tok :=
  let l := w.map lower
  if l == [116, 114, 117, 101] then .kTrue
  else if l == [102, 97, 108, 115, 101] then .kFalse
  else if l == [110, 117, 108, 108] then .kNull
  else if l == [97, 110, 100] then .kAnd
  else if l == [111, 114] then .kOr
  else if l == [110, 111, 116] then .kNot
  else if l == [108, 105, 107, 101] then .kLike
  else if l == [105, 110] then .kIn
  else if l == [98, 101, 116, 119, 101, 101, 110] then .kBetween
  else if l == [105, 115] then .kIs
  else if reserved.contains l then .other l
  else .ident w

def takeWhileN (p : Nat → Bool) : List Nat → List Nat × List Nat
  | [] => ([], [])
  | c :: cs => if p c then let (a, b) := takeWhileN p cs; (c :: a, b) else ([], c :: cs)

/-- body of a string literal after the opening quote: `''` is an escaped quote -/
def lexString : List Nat → List Nat × List Nat
  | [] => ([], [])
  | 39 :: 39 :: cs => let (a, b) := lexString cs; (39 :: a, b)
  | 39 :: cs => ([], cs)
  | c :: cs => let (a, b) := lexString cs; (c :: a, b)

def digitsVal (ds : List Nat) : Nat := ds.foldl (fun acc d => acc * 10 + (d - 48)) 0

/-- the lexer on a list of ASCII codes; `none` for input outside the model (decimal points, `"`, comments …) -/
def lex : Nat → List Nat → Option (List Tok)
  | 0, _ => none
  | _, [] => some []
  | f + 1, c :: cs =>
    if isSpace c then lex f cs
    else if isDigit c then
      let (ds, rest) := takeWhileN isDigit (c :: cs)
      match rest with
      | 46 :: _ => none
      | _ => (lex f rest).map (Tok.num (digitsVal ds) :: ·)
    else if isAlpha c || c == 95 then
      let (w, rest) := takeWhileN isIdentChar (c :: cs)
      (lex f rest).map (keyword w :: ·)
    else if c == 39 then
      let (s, rest) := lexString cs
      (lex f rest).map (Tok.str s :: ·)
    else
      let one (t : Tok) := (lex f cs).map (t :: ·)
      match c, cs with
      | 40, _ => one .lparen
      | 41, _ => one .rparen
      | 44, _ => one .comma
      | 46, _ => one .dot
      | 42, _ => one .star
      | 47, _ => one .slash
      | 37, _ => one .percent
      | 43, _ => one .plus
      | 61, _ => one .eq
      | 45, 45 :: _ => none
      | 45, _ => one .minus
      | 33, 61 :: r => (lex f r).map (Tok.neq :: ·)
      | 33, _ => one .kNot
      | 60, 61 :: r => (lex f r).map (Tok.le :: ·)
      | 60, 62 :: r => (lex f r).map (Tok.neq :: ·)
      | 60, _ => one .lt
      | 62, 61 :: r => (lex f r).map (Tok.ge :: ·)
      | 62, _ => one .gt
      | 124, 124 :: r => (lex f r).map (Tok.concat :: ·)
      | _, _ => none

def lexAll (cs : List Nat) : Option (List Tok) := lex (cs.length + 1) cs


/-! ## rendering tokens as text (what the SQL printer of the harness writes) -/

/-- decimal digits of a number, as ASCII codes -/
def natDigits (n : Nat) : List Nat :=
  if n < 10 then [48 + n] else natDigits (n / 10) ++ [48 + n % 10]

/-- a string literal's body: quotes doubled -/
def escapeQuotes : List Nat → List Nat
  | [] => []
  | c :: cs => if c = 39 then 39 :: 39 :: escapeQuotes cs else c :: escapeQuotes cs

/-- the text of one token (keywords in upper case) -/
def tokText : Tok → List Nat
  | .num n => natDigits n
  | .str s => 39 :: (escapeQuotes s ++ [39])
  | .ident s => s
  | .kTrue => [84, 82, 85, 69] | .kFalse => [70, 65, 76, 83, 69] | .kNull => [78, 85, 76, 76]
  | .kAnd => [65, 78, 68] | .kOr => [79, 82] | .kNot => [78, 79, 84] | .kLike => [76, 73, 75, 69]
  | .kIn => [73, 78] | .kBetween => [66, 69, 84, 87, 69, 69, 78] | .kIs => [73, 83]
  | .lparen => [40] | .rparen => [41] | .comma => [44] | .dot => [46]
  | .eq => [61] | .neq => [60, 62] | .lt => [60] | .gt => [62] | .le => [60, 61] | .ge => [62, 61]
  | .plus => [43] | .minus => [45] | .star => [42] | .slash => [47] | .percent => [37] | .concat => [124, 124]
  | .other s => s

/-- tokens separated by single blanks -/
def render : List Tok → List Nat
  | [] => []
  | [t] => tokText t
  | t :: ts => tokText t ++ 32 :: render ts

/-- tokens whose text the lexer reads back: identifiers start with a letter or `_`, continue with letters, digits,
    `_`, and are not keywords; every other token of the expression grammar is fine -/
def PrintableTok : Tok → Bool
  | .ident s => (match s with
      | [] => false
      | c :: _ => (isAlpha c || c == 95) && s.all isIdentChar && keyword s == .ident s)
  | .other _ => false
  | _ => true


mutual
/-- every identifier of the expression is one the lexer reads back (see `PrintableTok`) -/
def IdentsOk : PExpr → Bool
  | .ident s => PrintableTok (.ident s)
  | .qident t c => PrintableTok (.ident t) && PrintableTok (.ident c)
  | .un _ e => IdentsOk e
  | .bin _ l r => IdentsOk l && IdentsOk r
  | .between _ e lo hi => IdentsOk e && IdentsOk lo && IdentsOk hi
  | .inList _ e items => IdentsOk e && IdentsOkList items
  | _ => true

def IdentsOkList : List PExpr → Bool
  | [] => true
  | e :: es => IdentsOk e && IdentsOkList es
end

end AxVerif.Parser
