/-
  Part B of the durability model (C01 / C02 / C08): the abstract write-ahead-logging protocol.

  * log records: operations tagged with their transaction, COMMIT, ABORT;
  * a machine with a stable image (as of the last checkpoint), the durable part of the log, and the volatile log tail;
  * events: append, force, checkpoint, acknowledge;  crash = lose the volatile tail;
  * recovery = analysis (winners) + redo of the winners' operations in log order onto the stable image.

  This is the *intended* protocol (no-steal, atomic quiescent checkpoint).  The shipped deviations are separate,
  explicitly named machines (`stepTornCkpt`, …) used only by witness theorems.
  Core Lean only.
-/
import AxVerif.Model.Durable
namespace AxVerif.Recovery
open AxVerif AxVerif.Durable

inductive Rec where
  | op (t : Nat) (d : Dml)
  | commit (t : Nat)
  | abort (t : Nat)
deriving Repr, DecidableEq

def Rec.tid : Rec → Nat
  | .op t _ => t | .commit t => t | .abort t => t

def Rec.isFinish : Rec → Bool
  | .op _ _ => false | .commit _ => true | .abort _ => true

/-- Analysis, as `run_analysis` does it: COMMIT puts the transaction into the redo set, a later ABORT takes it out. -/
def winnerStep (t : Nat) (w : Bool) : Rec → Bool
  | .commit t' => if t' = t then true else w
  | .abort t' => if t' = t then false else w
  | .op _ _ => w

def isWinner (rs : List Rec) (t : Nat) : Bool := rs.foldl (winnerStep t) false

/-- Redo: the operations of the winners of `ctx`, in log order. -/
def redoStep (ctx : List Rec) (s : DbState) : Rec → DbState
  | .op t d => if isWinner ctx t then applyDml s d else s
  | _ => s

def replayIn (ctx : List Rec) (s : DbState) (rs : List Rec) : DbState := rs.foldl (redoStep ctx) s

/-- Recovery of a log onto a stable image. -/
def replay (s : DbState) (rs : List Rec) : DbState := replayIn rs s rs

/-- every transaction with a record in `rs` has finished (COMMIT or ABORT) within `rs` -/
def quiescent (rs : List Rec) : Bool :=
  rs.all (fun r => rs.any (fun r' => r'.isFinish && r'.tid == r.tid))

structure St where
  stable : DbState
  log : List Rec
  buf : List Rec
deriving Repr

def init : St := { stable := [], log := [], buf := [] }

inductive Ev where
  | append (r : Rec)
  | force
  | checkpoint
  | ack (t : Nat)
deriving Repr, DecidableEq

/-- A checkpoint is atomic and only taken at a quiescent point; otherwise it degenerates to a force
    (the log is kept, because it still holds records of unfinished transactions). -/
def step (s : St) : Ev → St
  | .append r => { s with buf := s.buf ++ [r] }
  | .force => { s with log := s.log ++ s.buf, buf := [] }
  | .checkpoint =>
    let all := s.log ++ s.buf
    if quiescent all then { stable := replay s.stable all, log := [], buf := [] }
    else { s with log := all, buf := [] }
  | .ack _ => s

def run (es : List Ev) : St := es.foldl step init

/-- Power loss: the volatile tail of the log is gone, the stable image and the forced log remain. -/
def crash (s : St) : St := { s with buf := [] }

def recover (s : St) : DbState := replay s.stable s.log

/-- What `Database::open` leaves behind: the recovered image checkpointed, the log empty. -/
def reopen (s : St) : St := { stable := recover (crash s), log := [], buf := [] }

/-! ### history-level views of an event list -/

def appended : List Ev → List Rec
  | [] => []
  | .append r :: es => r :: appended es
  | _ :: es => appended es

/-- number of records made durable: those appended before the last force / checkpoint -/
def durableCount (es : List Ev) : Nat :=
  (es.foldl (fun (p : Nat × Nat) e => match e with
    | .append _ => (p.1, p.2 + 1)
    | .force => (p.2, p.2)
    | .checkpoint => (p.2, p.2)
    | .ack _ => p) (0, 0)).1

def durable (es : List Ev) : List Rec := (appended es).take (durableCount es)

/-- Well-formed histories: once a transaction has finished, no further record carries its id. -/
def WfRecs (rs : List Rec) : Prop :=
  rs.Pairwise (fun r r' => ¬ (r.isFinish = true ∧ r.tid = r'.tid))

instance (rs : List Rec) : Decidable (WfRecs rs) :=
  inferInstanceAs (Decidable (rs.Pairwise (fun r r' => ¬ (r.isFinish = true ∧ r.tid = r'.tid))))

/-! ### protocol rule R1 on event traces: a commit is acknowledged only after a force that covers its COMMIT record -/

structure R1State where
  pending : List Nat     -- COMMIT appended, not yet forced
  safe : List Nat        -- COMMIT forced
deriving Repr

def r1Step (p : R1State × Bool) : Ev → R1State × Bool
  | .append (.commit t) => ({ p.1 with pending := t :: p.1.pending }, p.2)
  | .append _ => p
  | .force => ({ pending := [], safe := p.1.pending ++ p.1.safe }, p.2)
  | .checkpoint => ({ pending := [], safe := p.1.pending ++ p.1.safe }, p.2)
  | .ack t => (p.1, p.2 && p.1.safe.contains t)

def checkR1 (es : List Ev) : Bool := (es.foldl r1Step ({ pending := [], safe := [] }, true)).2

/-! ### the commit procedure of the code, as events -/

inductive HOp where
  | write (t : Nat) (d : Dml)
  | commit (t : Nat)          -- append COMMIT, force, acknowledge
  | rollback (t : Nat)        -- append ABORT, force, (nothing to acknowledge)
  | checkpoint
deriving Repr

def HOp.events : HOp → List Ev
  | .write t d => [.append (.op t d)]
  | .commit t => [.append (.commit t), .force, .ack t]
  | .rollback t => [.append (.abort t), .force]
  | .checkpoint => [.checkpoint]

def events (h : List HOp) : List Ev := (h.map HOp.events).flatten

/-! ### workloads of the `crash` engine as protocol histories

The transaction id of an autocommit statement / batch is its op index; the id of a session's transaction is the
index of its `begin`.  `ok[i]` tells whether the implementation reported op `i` as successful: a failing statement
writes nothing (statement atomicity is C03's subject, not assumed silently here: the `live` comparison checks it). -/

def sessionTid (ops : List Op) (k i : Nat) : Nat :=
  (List.range i).foldl (fun acc j => match ops[j]? with
    | some (Op.sBegin k') => if k' = k then j else acc
    | _ => acc) 0

def opHOps (ops : List Op) (ok : List Bool) (i : Nat) : List HOp :=
  if ok.getD i false then
    match ops[i]? with
    | some (Op.auto d) => [.write i d, .commit i]
    | some (Op.batch ds) => ds.map (HOp.write i) ++ [.commit i]
    | some Op.flush => [.checkpoint]
    | some Op.vacuum => [.checkpoint]
    | some (Op.sDml k d) => [.write (sessionTid ops k i) d]
    | some (Op.sCommit k) => [.commit (sessionTid ops k i)]
    | some (Op.sRollback k) => [.rollback (sessionTid ops k i)]
    | some (Op.sDrop k) => [.rollback (sessionTid ops k i)]
    | _ => []
  else []

/-- protocol history of the first `n` ops -/
def toHOps (ops : List Op) (ok : List Bool) (n : Nat) : List HOp :=
  ((List.range n).map (opHOps ops ok)).flatten

/-- The database a crash leaves after the first `n` ops have returned (whatever is still open is lost). -/
def expectedAfter (ops : List Op) (ok : List Bool) (n : Nat) : DbState :=
  recover (crash (run (events (toHOps ops ok n))))

/-- is op `i` a commit point (so that a crash while it is in flight may or may not include it)? -/
def isCommitPoint (ops : List Op) (i : Nat) : Bool :=
  match ops[i]? with
  | some (Op.auto _) => true | some (Op.batch _) => true | some (Op.sCommit _) => true | _ => false

/-! ### shipped deviation used by witness theorems: the checkpoint is three separate steps -/

/-- State after the checkpoint's page writes reached the disk but before the log was truncated. -/
def tornAfterPages (s : St) : St :=
  let all := s.log ++ s.buf
  { stable := replay s.stable all, log := all, buf := [] }

/-! ### the shipped checkpoint as it really runs: page writes first, log truncation afterwards

`Ev2` splits the checkpoint into its two durable effects; the machine is *torn* exactly between them
(`Pager::flush`: force the log, write the dirty pages and the header, then truncate the log — holding the pager lock,
so nothing is appended in between). -/

inductive Ev2 where
  | append (r : Rec)
  | force
  | ckptPages       -- the log is forced, then dirty pages and header reach the file
  | ckptTruncate    -- the log is truncated
  | ack (t : Nat)
deriving Repr, DecidableEq

structure St2 where
  s : St
  torn : Bool
deriving Repr

def step2 (x : St2) : Ev2 → St2
  | .append r => if x.torn then x else { x with s := step x.s (.append r) }
  | .force => if x.torn then x else { x with s := step x.s .force }
  | .ack t => { x with s := step x.s (.ack t) }
  | .ckptPages =>
    if x.torn then x else
    let all := x.s.log ++ x.s.buf
    if quiescent all then { s := { stable := replay x.s.stable all, log := all, buf := [] }, torn := true }
    else { x with s := step x.s .force }
  | .ckptTruncate =>
    if x.torn then { s := { x.s with log := [], buf := [] }, torn := false } else x

def run2 (es : List Ev2) : St2 := es.foldl step2 { s := init, torn := false }

/-- what the atomic machine is told when the split machine, in state `x`, sees event `e` -/
def emit (x : St2) : Ev2 → List Ev
  | .append r => if x.torn then [] else [.append r]
  | .force => if x.torn then [] else [.force]
  | .ack t => [.ack t]
  | .ckptPages => if x.torn then [] else [.checkpoint]
  | .ckptTruncate => []

/-- the atomic-checkpoint trace that a split-checkpoint trace stands for -/
def glueFrom (x : St2) : List Ev2 → List Ev
  | [] => []
  | e :: es => emit x e ++ glueFrom (step2 x e) es

def glue (es : List Ev2) : List Ev := glueFrom { s := init, torn := false } es

/-! ### the journaled checkpoint (`io/journal.rs`): steal allowed, checkpoint in four durable steps

Between checkpoints the file may be overwritten in place at any time (`scribble`: an evicted dirty page, or some of the
page writes of a checkpoint in progress) — read as is, it is then an arbitrary state.  The pre-image journal returns it
to the last checkpoint (`Model/Journal.lean`, `restore_returns_checkpoint`), so recovery starts from `s.stable` until
the journal is marked DONE; from then on the file is the new checkpoint and the log is obsolete. -/

inductive Phase where
  | idle        -- journal ACTIVE, describing `s.stable`
  | pages       -- … and every page of the new checkpoint (and the header) is in the file
  | done        -- journal DONE
  | dropped     -- log truncated
deriving Repr, DecidableEq

inductive Ev3 where
  | append (r : Rec)
  | force
  | ack (t : Nat)
  | scribble (g : DbState)   -- in-place page writes: the file, read as is, becomes `g` (anything)
  | ckptPages                -- the log is forced, then dirty pages and header reach the file
  | ckptDone                 -- the journal is marked DONE
  | ckptDropLog              -- the log is truncated
  | ckptReset                -- the journal is restarted for the new checkpoint
deriving Repr

structure St3 where
  s : St             -- `s.stable`: what the journal restores the file to
  file : DbState     -- the file read as is
  phase : Phase
deriving Repr

def step3 (x : St3) : Ev3 → St3
  | .append r => if x.phase = .idle then { x with s := step x.s (.append r) } else x
  | .force => if x.phase = .idle then { x with s := step x.s .force } else x
  | .ack _ => x
  | .scribble g => if x.phase = .idle then { x with file := g } else x
  | .ckptPages =>
    if x.phase = .idle then
      let all := x.s.log ++ x.s.buf
      if quiescent all then { s := { x.s with log := all, buf := [] }, file := replay x.s.stable all, phase := .pages }
      else { x with s := step x.s .force }
    else x
  | .ckptDone => if x.phase = .pages then { x with phase := .done } else x
  | .ckptDropLog => if x.phase = .done then { x with s := { x.s with log := [], buf := [] }, phase := .dropped } else x
  | .ckptReset => if x.phase = .dropped then { s := { stable := x.file, log := [], buf := [] }, file := x.file, phase := .idle } else x

def init3 : St3 := { s := init, file := [], phase := .idle }
def run3 (es : List Ev3) : St3 := es.foldl step3 init3

def crash3 (x : St3) : St3 := { x with s := crash x.s }

/-- `Database::open`: an ACTIVE journal returns the file to the last checkpoint and the log is replayed onto it;
    a DONE journal means the file is the checkpoint and the log is dropped. -/
def recover3 (x : St3) : DbState :=
  match x.phase with
  | .idle => recover x.s
  | .pages => recover x.s
  | .done => x.file
  | .dropped => x.file

/-- what the atomic machine is told -/
def emit3 (x : St3) : Ev3 → List Ev
  | .append r => if x.phase = .idle then [.append r] else []
  | .force => if x.phase = .idle then [.force] else []
  | .ack t => [.ack t]
  | .scribble _ => []
  | .ckptPages => if x.phase = .idle then [.force] else []
  | .ckptDone => if x.phase = .pages then [.checkpoint] else []
  | .ckptDropLog => []
  | .ckptReset => []

def glue3From (x : St3) : List Ev3 → List Ev
  | [] => []
  | e :: es => emit3 x e ++ glue3From (step3 x e) es

def glue3 (es : List Ev3) : List Ev := glue3From init3 es

end AxVerif.Recovery
