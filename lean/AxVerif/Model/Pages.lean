/-
  Page ownership (C11): the page allocator of io/pager.rs as a pure state machine, and the whole-file dump with the
  decision procedure `checkOwnership`.

  ## The allocator (io/pager.rs `allocate_page` / `dealloc_page`, multithreading/frames.rs `MemFrame::dealloc`)

  Page zero holds `first_free_page`, `last_free_page`, `total_pages`. Free pages are overflow-shaped pages linked through
  the `next` field of their header:
    * `allocate_page`: if `first_free_page = Some p`: read `next` of `p` **as an overflow page** (fails with InvalidData if the
      cached frame of `p` is a B-tree frame), `first_free_page := next`, `last_free_page := None` if it was `p`, re-initialise
      the header of `p` for the requested page type, return `p`. Otherwise return `total_pages` and increment it.
    * `dealloc_page p`: page 0 is rejected (InvalidInput). `first_free_page := Some p` if it was `None`; if
      `last_free_page = Some l`, write `next := Some p` into `l` (as an overflow page); `last_free_page := Some p`; then the
      frame of `p` is turned into an overflow frame: a B-tree frame gets a fresh overflow header (`next = None`), an overflow
      frame kept its header in the shipped code (defect `deallocKeepsNext`, fixed) and gets a fresh one now.
  No call checks whether `p` is allocated: `dealloc_page` of a page that is already free is modelled as the code does it.
  `0` stands for `None` in every link. Core Lean only.
-/
import AxVerif.Model.BTree
namespace AxVerif.Pages

structure Defects where
  /-- shipped `MemFrame::dealloc` on an overflow frame zeroed the data but kept the header, `next` included
      (KF-C11-dealloc-keeps-next, fixed) -/
  deallocKeepsNext : Bool := false
  /-- judge tolerance for KF-C10-divider-full-copy as seen by C11: the overflow chain stored in a divider (a cell of an
      interior page) is not counted as a reference -/
  dividerSharesChain : Bool := false
  deriving Repr, DecidableEq

def Defects.none : Defects := {}

/-- function update -/
def setF {α : Type} (f : Nat → α) (i : Nat) (v : α) : Nat → α := fun j => if j = i then v else f j

/-- State of the allocator. -/
structure Alloc where
  /-- `total_pages` of the header (page 0 is the header page, so a fresh file has 1) -/
  total : Nat
  /-- `first_free_page`, 0 = None -/
  first : Nat
  /-- `last_free_page`, 0 = None -/
  last : Nat
  /-- the `next` field in the header of page `p` (0 = None); meaningful for overflow-shaped pages -/
  next : Nat → Nat
  /-- kind of the cached frame of page `p`: `some true` = overflow frame (overflow link or free page), `some false` = B-tree
      frame, `none` = not cached (after a flush): the next reader decides how the bytes are interpreted -/
  ovf : Nat → Option Bool

def Alloc.init : Alloc := { total := 1, first := 0, last := 0, next := fun _ => 0, ovf := fun _ => none }

inductive Err where
  | invalidInput | invalidData
  deriving Repr, DecidableEq

/-- `allocate_page::<P>()`; `k = true` asks for an overflow page -/
def alloc (s : Alloc) (k : Bool) : Alloc × Except Err Nat :=
  if s.first = 0 then
    ({ s with total := s.total + 1, next := setF s.next s.total 0, ovf := setF s.ovf s.total (some k) }, .ok s.total)
  else if s.ovf s.first = some false then (s, .error .invalidData)
  else
    ({ s with first := s.next s.first, last := if s.last = s.first then 0 else s.last,
              next := setF s.next s.first 0, ovf := setF s.ovf s.first (some k) }, .ok s.first)

/-- `dealloc_page::<P>(p)` for `p < total_pages`; `k = true` for `P = OverflowPage` (matters only for a page that is not cached) -/
def dealloc (D : Defects) (s : Alloc) (p : Nat) (k : Bool) : Alloc × Except Err Unit :=
  if p = 0 then (s, .error .invalidInput)
  else
    let s1 : Alloc := if s.first = 0 then { s with first := p } else s
    if s1.last ≠ 0 ∧ s1.ovf s1.last = some false then (s1, .error .invalidData)
    else
      let nx := if s1.last ≠ 0 then setF s1.next s1.last p else s1.next
      let ov := if s1.last ≠ 0 then setF s1.ovf s1.last (some true) else s1.ovf
      let wasOvf := (ov p).getD k
      let nx' := if D.deallocKeepsNext && wasOvf then nx else setF nx p 0
      ({ s1 with last := p, next := nx', ovf := setF ov p (some true) }, .ok ())

/-- what `CellBuilder::build_cell` does to an overflow page it has allocated: `next := q` (fails on a B-tree frame) -/
def link (s : Alloc) (p q : Nat) : Alloc × Except Err Unit :=
  if p = 0 then (s, .error .invalidInput)
  else if s.ovf p = some false then (s, .error .invalidData)
  else ({ s with next := setF s.next p q, ovf := setF s.ovf p (some true) }, .ok ())

/-- `Pager::flush` (checkpoint): pages and header go to the file, the cache is emptied -/
def flush (s : Alloc) : Alloc := { s with ovf := fun _ => none }

/-- the pages met following `next` from `p`, at most `fuel` of them -/
def walk (next : Nat → Nat) : Nat → Nat → List Nat
  | 0, _ => []
  | fuel + 1, p => if p = 0 then [] else p :: walk next fuel (next p)

/-- the free list as a reader of the file finds it (at most `total_pages` entries) -/
def freeList (s : Alloc) : List Nat := walk s.next s.total s.first

inductive Op where
  | alloc (ovf : Bool)
  | dealloc (p : Nat) (ovf : Bool)
  | link (p q : Nat)
  | flush
  deriving Repr, DecidableEq

inductive Out where
  | page (p : Nat)
  | ok
  | err (e : Err)
  deriving Repr, DecidableEq

def step (D : Defects) (s : Alloc) : Op → Alloc × Out
  | .alloc k => match alloc s k with
    | (s', .ok p) => (s', .page p)
    | (s', .error e) => (s', .err e)
  | .dealloc p k => match dealloc D s p k with
    | (s', .ok _) => (s', .ok)
    | (s', .error e) => (s', .err e)
  | .link p q => match link s p q with
    | (s', .ok _) => (s', .ok)
    | (s', .error e) => (s', .err e)
  | .flush => (flush s, .ok)

def run (D : Defects) (s : Alloc) : List Op → Alloc
  | [] => s
  | op :: ops => run D (step D s op).1 ops

/-! ### the specification: a FIFO queue of free page ids and the set of pages handed out -/

structure Abs where
  total : Nat
  free : List Nat
  used : List Nat
  deriving Repr, DecidableEq

def Abs.init : Abs := { total := 1, free := [], used := [] }

/-- pop the head of the queue, else extend the file -/
def Abs.alloc (a : Abs) : Abs × Nat :=
  match a.free with
  | [] => ({ a with total := a.total + 1, used := a.total :: a.used }, a.total)
  | p :: fr => ({ a with free := fr, used := p :: a.used }, p)

/-- append at the tail; only a page that has been handed out can be given back -/
def Abs.dealloc (a : Abs) (p : Nat) : Abs :=
  { a with free := a.free ++ [p], used := a.used.erase p }

/-- one step of the specification; `none` = the caller broke the contract (gave back a page it does not hold, linked a page
    it does not hold) -/
def Abs.step (a : Abs) : Op → Option Abs
  | .alloc _ => some a.alloc.1
  | .dealloc p _ => if p ∈ a.used then some (a.dealloc p) else none
  | .link p _ => if p ∈ a.used then some a else none
  | .flush => some a

def Abs.run (a : Abs) : List Op → Option Abs
  | [] => some a
  | op :: ops => match a.step op with
    | none => none
    | some a' => a'.run ops

/-- the operation sequence respects the caller's contract -/
def legal (ops : List Op) : Bool := (Abs.init.run ops).isSome

/-! ## The whole-file dump -/

open AxVerif.BTree in
/-- A database file as dumped: header fields, every page as either a B-tree page (`page`) or an overflow-shaped page with its
    `next` link (`link`; 0 = none), and the root pages of the trees the catalog lists. -/
structure FileDump where
  total : Nat
  firstFree : Nat
  lastFree : Nat
  link : Nat → Option Nat
  page : Nat → Option Page
  roots : List Nat

namespace FileDump
open AxVerif.BTree

/-- the page graph as seen from one root (fuel = number of pages + 1 bounds every descent) -/
def dumpOf (f : FileDump) (root : Nat) : Dump := { root := root, fuel := f.total + 1, page := f.page }

def allSome {α : Type} : List (Option α) → Option (List α)
  | [] => some []
  | none :: _ => none
  | some a :: rest => match allSome rest with
    | some r => some (a :: r)
    | none => none

/-- the trees read off the roots (`none` if below some root the graph is not a tree of B-tree pages within the fuel) -/
def trees (f : FileDump) : Option (List T) := allSome (f.roots.map fun r => treeOf (f.dumpOf r))

/-- overflow chains stored in the cells of one page, in slot order (a cell without a chain contributes `[]`) -/
def pageChains (D : Defects) : Page → List (List Nat)
  | .leaf _ _ cells => cells.map (·.chain)
  | .interior _ _ _ cells => if D.dividerSharesChain then [] else cells.map (·.chain)

/-- the chains of all cells of the given pages -/
def chainsOf (D : Defects) (f : FileDump) (ids : List Nat) : List (List Nat) :=
  (ids.map fun id => match f.page id with
    | some pg => pageChains D pg
    | none => []).flatten

/-- `c` is a chain of the file: every page is overflow-shaped, points at the next one, and the last one at nothing -/
def chainLinked (link : Nat → Option Nat) : List Nat → Bool
  | [] => true
  | [x] => link x == some 0
  | x :: y :: rest => link x == some y && chainLinked link (y :: rest)

/-- follow `next` from `p` through overflow-shaped pages until `none`; fails on a B-tree page or when the fuel runs out -/
def walkFree (link : Nat → Option Nat) : Nat → Nat → Option (List Nat)
  | 0, p => if p = 0 then some [] else none
  | fuel + 1, p =>
    if p = 0 then some []
    else match link p with
      | none => none
      | some n => match walkFree link fuel n with
        | some l => some (p :: l)
        | none => none

def freeWalk (f : FileDump) : Option (List Nat) := walkFree f.link f.total f.firstFree

def lastD (l : List Nat) : Nat := l.getLast?.getD 0

/-- pages 1 … total-1 -/
def allPages (f : FileDump) : List Nat := List.range' 1 (f.total - 1)

/-- The decision procedure: every page other than page zero has exactly one owner. -/
def checkWith (D : Defects) (f : FileDump) : Bool :=
  match f.trees, f.freeWalk with
  | some ts, some fl =>
    let nodes := (ts.map T.ids).flatten
    let chains := chainsOf D f nodes
    let owned := nodes ++ chains.flatten ++ fl
    chains.all (chainLinked f.link) &&
      decide (lastD fl = f.lastFree) &&
      msort owned.length owned == f.allPages
  | _, _ => false

def checkOwnership (f : FileDump) : Bool := checkWith Defects.none f

end FileDump

end AxVerif.Pages
