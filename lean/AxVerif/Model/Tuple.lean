/-
  Model of `storage/tuple.rs` — the tuple codec with its reverse-delta version chain — in two layers:

  * a *logical* row (`LRow`): the newest version, the list of older versions (each with the set of columns the
    update that replaced it touched) and an optional deleter; `specVisible` says which version a snapshot is
    entitled to;
  * the *byte-level* layout as the code writes and reads it:
      [xmin u64 | xmax i64 | version u8 | pad] [null bitmap ⌈n/8⌉] [keys, each at its alignment]
      [non-null values, each at its alignment] ( [pad to 8] [xmin u64 | version u8 | pad] [nChanges u8]
      [full null bitmap of that older version] ( [idx u8] [old value, aligned, if not NULL] )* )*
    `build`, `parseLast`, `addVersion`, `delete`, `parseForSnapshot`, `vacuumWith`, and `encode : LRow → Bytes`.

  Core Lean only.  Sizes and alignments come from `Generated/Tuple.lean` (`Params`).
-/
import AxVerif.Model.Bytes
import AxVerif.Model.Snapshot
namespace AxVerif.Tuple
open AxVerif

/-! ### parameters extracted from the code -/

inductive Kind | bool | int | bigint | uint | biguint | float | double | blob
  deriving DecidableEq, Repr

structure Params where
  hdrSize : Nat
  hdrAlign : Nat
  hdrXminOff : Nat
  hdrXmaxOff : Nat
  hdrVerOff : Nat
  dhSize : Nat
  dhAlign : Nat
  dhXminOff : Nat
  dhVerOff : Nat
  cellAlign : Nat
  boolSize : Nat
  boolAlign : Nat
  intSize : Nat
  intAlign : Nat
  bigintSize : Nat
  bigintAlign : Nat
  uintSize : Nat
  uintAlign : Nat
  biguintSize : Nat
  biguintAlign : Nat
  floatSize : Nat
  floatAlign : Nat
  doubleSize : Nat
  doubleAlign : Nat
  blobSize : Nat
  blobAlign : Nat
  deriving Repr, DecidableEq

/-- fixed size of a kind (0 for the variable-length kind) -/
def Params.size (P : Params) : Kind → Nat
  | .bool => P.boolSize | .int => P.intSize | .bigint => P.bigintSize | .uint => P.uintSize
  | .biguint => P.biguintSize | .float => P.floatSize | .double => P.doubleSize | .blob => P.blobSize

def Params.align (P : Params) : Kind → Nat
  | .bool => P.boolAlign | .int => P.intAlign | .bigint => P.bigintAlign | .uint => P.uintAlign
  | .biguint => P.biguintAlign | .float => P.floatAlign | .double => P.doubleAlign | .blob => P.blobAlign

/-! ### values, rows, schemas -/

/-- a column value: `none` = NULL, `some payload` = the little-endian bytes of a fixed-width value or the content
    of a blob -/
abbrev Cell := Option Bytes

structure Schema where
  keys : List Kind
  vals : List Kind
  deriving Repr, DecidableEq

structure Row where
  keys : List Bytes
  vals : List Cell
  deriving Repr, DecidableEq

/-! ### outcome of an operation of the code -/

inductive Fail | err | panic
  deriving DecidableEq, Repr

abbrev R (α : Type) := Except Fail α

/-! ### small helpers -/

def zeros (n : Nat) : Bytes := List.replicate n 0

/-- `aligned_offset` (the code uses `(o + a - 1) & !(a - 1)`, the same number for a power of two `a`) -/
def alignUp (c a : Nat) : Nat := (c + a - 1) / a * a

/-- zero bytes between offset `c` and the next multiple of `a` -/
def padTo (c a : Nat) : Bytes := zeros (alignUp c a - c)

def bitmapSize (n : Nat) : Nat := (n + 7) / 8

def bitVal (b : Bool) (w : Nat) : Nat := if b then w else 0

/-- byte `j` of the bitmap of the predicate `f` (bit `i % 8` of byte `i / 8` is `f i`) -/
def bitmapByte (f : Nat → Bool) (j : Nat) : UInt8 :=
  UInt8.ofNat (bitVal (f (8 * j)) 1 + bitVal (f (8 * j + 1)) 2 + bitVal (f (8 * j + 2)) 4 + bitVal (f (8 * j + 3)) 8
    + bitVal (f (8 * j + 4)) 16 + bitVal (f (8 * j + 5)) 32 + bitVal (f (8 * j + 6)) 64 + bitVal (f (8 * j + 7)) 128)

def isNullAt (vals : List Cell) (i : Nat) : Bool :=
  match vals[i]? with
  | some none => true
  | _ => false

/-- `write_null_bitmap`: one bit per value column, set when the value is NULL -/
def mkBitmap (vals : List Cell) : Bytes :=
  (List.range (bitmapSize vals.length)).map (bitmapByte (isNullAt vals))

def testBit (b : UInt8) (i : Nat) : Bool := (b.toNat / 2 ^ i) % 2 == 1

/-- `check_null`: indexing the bitmap out of range panics -/
def checkNull (bm : Bytes) (i : Nat) : R Bool :=
  match bm[i / 8]? with
  | some b => .ok (testBit b (i % 8))
  | none => .error .panic

def slice (d : Bytes) (off n : Nat) : R Bytes :=
  if off + n ≤ d.length then .ok ((d.drop off).take n) else .error .panic

def getByte (d : Bytes) (i : Nat) : R UInt8 :=
  match d[i]? with
  | some b => .ok b
  | none => .error .panic

/-- little-endian number of a byte list -/
def rdLE : Bytes → Nat
  | [] => 0
  | b :: bs => b.toNat + 256 * rdLE bs

/-! ### the variable-length integer in front of a blob (zig-zag LEB128, `types/varint.rs`) -/

def leb : Nat → Nat → Bytes
  | 0, _ => []
  | f + 1, n => if n < 128 then [UInt8.ofNat n] else UInt8.ofNat (n % 128 + 128) :: leb f (n / 128)

/-- (value, bytes read); `none` = no terminating byte within `fuel` bytes -/
def unleb : Nat → Bytes → Option (Nat × Nat)
  | 0, _ => none
  | _ + 1, [] => none
  | f + 1, b :: rest =>
    if b.toNat < 128 then some (b.toNat, 1)
    else match unleb f rest with
      | some (v, k) => some (b.toNat - 128 + 128 * v, k + 1)
      | none => none

def maxVarint : Nat := 10

/-! ### one value -/

/-- the bytes of a non-null value of kind `k` (without alignment gap) -/
def encPayload (k : Kind) (p : Bytes) : Bytes :=
  match k with
  | .blob => leb maxVarint (2 * p.length) ++ p
  | _ => p

/-- `DataType::write_to` at offset `off`: alignment gap, then the value -/
def emitVal (P : Params) (k : Kind) (off : Nat) (p : Bytes) : Bytes :=
  padTo off (P.align k) ++ encPayload k p

/-- `DataTypeKind::deserialize(data, cursor)`: (payload, new cursor) -/
def deser (P : Params) (k : Kind) (d : Bytes) (cursor : Nat) : R (Bytes × Nat) :=
  match k with
  | .blob =>
    if d.length < cursor then .error .panic
    else match unleb maxVarint (d.drop cursor) with
      | none => .error .err
      | some (v, n) =>
        if v % 2 = 1 then .error .err          -- negative length: never fits
        else if d.length - cursor < n + v / 2 then .error .err
        else .ok (((d.drop (cursor + n)).take (v / 2)), cursor + n + v / 2)
  | .bool =>
    if d.length < cursor then .error .panic
    else match d[cursor]? with
      | none => .error .err
      | some b => .ok ([if b = 0 then 0 else 1], cursor + 1)
  | k =>
    let o := alignUp cursor (P.align k)
    match slice d o (P.size k) with
    | .ok p => .ok (p, o + P.size k)
    | .error e => .error e

/-! ### headers -/

def xmaxField : Option Nat → Nat
  | none => 2 ^ 64 - 1
  | some x => x

/-- `TupleHeader { xmin: u64, xmax: i64, version: u8 }`, `repr(C, align(8))`; padding bytes modelled as zero -/
def encHeader (P : Params) (xmin : Nat) (xmax : Option Nat) (ver : Nat) : Bytes :=
  le64 xmin ++ le64 (xmaxField xmax) ++ [UInt8.ofNat ver] ++ zeros (P.hdrSize - 17)

/-- `DeltaHeader { xmin: u64, version: u8 }` -/
def encDeltaHeader (P : Params) (xmin ver : Nat) : Bytes :=
  le64 xmin ++ [UInt8.ofNat ver] ++ zeros (P.dhSize - 9)

structure Header where
  xmin : Nat
  xmax : Option Nat
  version : Nat
  deriving Repr, DecidableEq

/-- `TupleHeader::read_from(data, 0)` -/
def readHeader (P : Params) (d : Bytes) : R Header :=
  match slice d 0 P.hdrSize with
  | .error e => .error e
  | .ok h =>
    let xm := rdLE ((h.drop 8).take 8)
    .ok { xmin := rdLE (h.take 8), xmax := if xm < 2 ^ 63 then some xm else none, version := rdLE ((h.drop 16).take 1) }

/-! ### writer: main part -/

/-- keys / non-null values written one after the other starting at offset `off` -/
def emitCells (P : Params) : Nat → List Kind → List Cell → Bytes
  | _, [], _ => []
  | _, _, [] => []
  | off, _ :: ks, none :: cs => emitCells P off ks cs
  | off, k :: ks, some p :: cs => emitVal P k off p ++ emitCells P (off + (emitVal P k off p).length) ks cs

/-- header, null bitmap, keys, non-null values -/
def encMain (P : Params) (sch : Schema) (xmin : Nat) (xmax : Option Nat) (ver : Nat)
    (keys : List Bytes) (vals : List Cell) : Bytes :=
  let h := encHeader P xmin xmax ver ++ mkBitmap vals
  let k := emitCells P h.length sch.keys (keys.map some)
  h ++ k ++ emitCells P (h.length + k.length) sch.vals vals

/-- end offsets of the bool values among the cells written from `off` on (for the `boolWriteNeedsLastByte` defect) -/
def boolEnds (P : Params) : Nat → List Kind → List Cell → List Nat
  | _, [], _ => []
  | _, _, [] => []
  | off, _ :: ks, none :: cs => boolEnds P off ks cs
  | off, k :: ks, some p :: cs =>
    let e := off + (emitVal P k off p).length
    (if k = .bool then [e] else []) ++ boolEnds P e ks cs

/-- `compute_initial_size` -/
def sizeCells (P : Params) : Nat → List Kind → List Cell → Nat
  | c, [], _ => c
  | c, _, [] => c
  | c, _ :: ks, none :: cs => sizeCells P c ks cs
  | c, k :: ks, some p :: cs => sizeCells P (alignUp c (P.align k) + (encPayload k p).length) ks cs

def computeInitialSize (P : Params) (sch : Schema) (row : Row) : Nat :=
  sizeCells P (sizeCells P (P.hdrSize + bitmapSize sch.vals.length) sch.keys (row.keys.map some)) sch.vals row.vals

/-- `TupleBuilder::build` (the row has already passed `validate`) -/
def build (D : Defects) (P : Params) (sch : Schema) (row : Row) (xmin : Nat) : R Bytes :=
  let out := encMain P sch xmin none 0 row.keys row.vals
  let h := P.hdrSize + bitmapSize row.vals.length
  let k := emitCells P h sch.keys (row.keys.map some)
  if D.boolWriteNeedsLastByte &&
      (boolEnds P h sch.keys (row.keys.map some) ++ boolEnds P (h + k.length) sch.vals row.vals).any (· ≠ out.length)
  then .error .panic
  else .ok out

/-! ### reader: newest version -/

/-- `TupleLayout` -/
structure Layout where
  vxmin : Nat
  vxmax : Option Nat
  nullStart : Nat
  keyOffs : List Nat
  valOffs : List Nat
  dataEnd : Nat
  version : Nat
  deriving Repr, DecidableEq

/-- keys (`bm = none`) are never NULL; values are NULL when their bit is set -/
def nullOf (bm : Option Bytes) (i : Nat) : R Bool :=
  match bm with
  | none => .ok false
  | some b => checkNull b i

/-- skip over keys (`bm = none`) or over values with the given null bitmap; remembers where each one starts -/
def skipCells (P : Params) (d : Bytes) (bm : Option Bytes) : List Kind → Nat → Nat → R (List Nat × Nat)
  | [], _, c => .ok ([], c)
  | k :: ks, i, c =>
    match nullOf bm i with
    | .error e => .error e
    | .ok true =>
      match skipCells P d bm ks (i + 1) c with
      | .ok (offs, c') => .ok (c :: offs, c')
      | .error e => .error e
    | .ok false =>
      match deser P k d c with
      | .error e => .error e
      | .ok (_, c1) =>
        match skipCells P d bm ks (i + 1) c1 with
        | .ok (offs, c') => .ok (c :: offs, c')
        | .error e => .error e

/-- `TupleReader::parse_last_version` -/
def parseLast (P : Params) (sch : Schema) (d : Bytes) : R Layout :=
  match readHeader P d with
  | .error e => .error e
  | .ok h =>
    let bmSize := bitmapSize sch.vals.length
    match slice d P.hdrSize bmSize with
    | .error e => .error e
    | .ok bm =>
      match skipCells P d none sch.keys 0 (P.hdrSize + bmSize) with
      | .error e => .error e
      | .ok (ko, c1) =>
        match skipCells P d (some bm) sch.vals 0 c1 with
        | .error e => .error e
        | .ok (vo, c2) =>
          .ok { vxmin := h.xmin, vxmax := h.xmax, nullStart := P.hdrSize, keyOffs := ko, valOffs := vo,
                dataEnd := c2, version := h.version }

/-- `TupleRef::key_with` for every key -/
def readKeys (P : Params) (d : Bytes) : List Kind → List Nat → R (List Bytes)
  | [], _ => .ok []
  | _ :: _, [] => .error .err
  | k :: ks, o :: os =>
    match deser P k d o with
    | .error e => .error e
    | .ok (p, _) =>
      match readKeys P d ks os with
      | .ok r => .ok (p :: r)
      | .error e => .error e

/-- `TupleRef::value_with` for every value: the null bitmap is looked at first -/
def readVals (P : Params) (d : Bytes) (bm : Bytes) : List Kind → List Nat → Nat → R (List Cell)
  | [], _, _ => .ok []
  | _ :: _, [], _ => .error .err
  | k :: ks, o :: os, i =>
    match checkNull bm i with
    | .error e => .error e
    | .ok true =>
      match readVals P d bm ks os (i + 1) with
      | .ok r => .ok (none :: r)
      | .error e => .error e
    | .ok false =>
      match deser P k d o with
      | .error e => .error e
      | .ok (p, _) =>
        match readVals P d bm ks os (i + 1) with
        | .ok r => .ok (some p :: r)
        | .error e => .error e

/-- `TupleRef::to_row_with` -/
def toRow (P : Params) (sch : Schema) (d : Bytes) (lay : Layout) : R Row :=
  match readKeys P d sch.keys lay.keyOffs with
  | .error e => .error e
  | .ok ks =>
    match slice d lay.nullStart (bitmapSize sch.vals.length) with
    | .error e => .error e
    | .ok bm =>
      match readVals P d bm sch.vals lay.valOffs 0 with
      | .error e => .error e
      | .ok vs => .ok { keys := ks, vals := vs }

/-- `Row::from_bytes_checked` -/
def decodeLast (P : Params) (sch : Schema) (d : Bytes) : R Row :=
  match parseLast P sch d with
  | .error e => .error e
  | .ok lay => toRow P sch d lay

/-! ### reader: the delta walk -/

/-- the `num_changes` entries of a delta: `[idx u8][value if the delta's bitmap says non-null]`;
    each non-null entry redirects the offset of its column -/
def applyChanges (P : Params) (sch : Schema) (d : Bytes) (bm : Bytes) : Nat → Nat → List Nat → R (List Nat × Nat)
  | 0, c, offs => .ok (offs, c)
  | n + 1, c, offs =>
    match getByte d c with
    | .error e => .error e
    | .ok ib =>
      let idx := ib.toNat
      match checkNull bm idx with
      | .error e => .error e
      | .ok true => applyChanges P sch d bm n (c + 1) offs
      | .ok false =>
        match sch.vals[idx]? with
        | none => .error .err
        | some k =>
          match deser P k d (c + 1) with
          | .error e => .error e
          | .ok (_, c1) => applyChanges P sch d bm n c1 (offs.set idx (c + 1))

/-- one iteration of the delta loop: header (aligned), number of changes, full bitmap, changes -/
def applyDelta (P : Params) (sch : Schema) (d : Bytes) (lay : Layout) (cursor : Nat) : R (Layout × Nat) :=
  let a := alignUp cursor P.dhAlign
  match slice d a P.dhSize with
  | .error e => .error e
  | .ok h =>
    match getByte d (a + P.dhSize) with
    | .error e => .error e
    | .ok n =>
      let bmStart := a + P.dhSize + 1
      match slice d bmStart (bitmapSize sch.vals.length) with
      | .error e => .error e
      | .ok bm =>
        match applyChanges P sch d bm n.toNat (bmStart + bitmapSize sch.vals.length) lay.valOffs with
        | .error e => .error e
        | .ok (offs, c) =>
          .ok ({ lay with vxmax := some lay.vxmin, version := rdLE ((h.drop 8).take 1), vxmin := rdLE (h.take 8),
                          nullStart := bmStart, valOffs := offs }, c)

/-- loop condition of every delta loop.  The code tests `cursor < data.len()`; the specification asks for a whole
    delta header to be left, which is the same on an exact-length tuple and ignores the padding of a stored one. -/
def moreDeltas (D : Defects) (P : Params) (d : Bytes) (cursor : Nat) : Bool :=
  if D.paddedWalkPanics then decide (cursor < d.length)
  else decide (alignUp cursor P.dhAlign + P.dhSize ≤ d.length)

/-- `TupleLayout::is_valid_for_snapshot` -/
def validFor (D : Defects) (s : Snapshot) (lay : Layout) : Bool :=
  let created := committedBefore D s lay.vxmin || decide (s.xid = lay.vxmin)
  match lay.vxmax with
  | some x => created && !(committedBefore D s x || decide (s.xid = x))
  | none => created

def walk (D : Defects) (P : Params) (sch : Schema) (s : Snapshot) (d : Bytes) : Nat → Nat → Layout → R (Option Layout)
  | 0, _, _ => .ok none
  | fuel + 1, cursor, lay =>
    if moreDeltas D P d cursor then
      match applyDelta P sch d lay cursor with
      | .error e => .error e
      | .ok (lay', c') =>
        if committedBefore D s lay'.vxmin || (!D.walkIgnoresOwnVersions && decide (lay'.vxmin = s.xid)) then .ok (some lay')
        else walk D P sch s d fuel c' lay'
    else .ok none

/-- the first test of `parse_for_snapshot`: the row was deleted as far as this reader is concerned -/
def deletedFor (D : Defects) (s : Snapshot) : Option Nat → Bool
  | some x => committedBefore D s x || (!D.ownDeleteWalksDeltas && decide (x = s.xid))
  | none => false

/-- `TupleReader::parse_for_snapshot` -/
def parseForSnapshot (D : Defects) (P : Params) (sch : Schema) (s : Snapshot) (d : Bytes) : R (Option Layout) :=
  match parseLast P sch d with
  | .error e => .error e
  | .ok lay =>
    if deletedFor D s lay.vxmax then .ok none
    else if validFor D s lay then .ok (some lay)
    else walk D P sch s d d.length (alignUp lay.dataEnd P.dhAlign) lay

/-- `Row::from_bytes_checked_with_snapshot`: the row a snapshot decodes, or nothing -/
def decodeFor (D : Defects) (P : Params) (sch : Schema) (s : Snapshot) (d : Bytes) : R (Option Row) :=
  match parseForSnapshot D P sch s d with
  | .error e => .error e
  | .ok none => .ok none
  | .ok (some lay) =>
    match toRow P sch d lay with
    | .error e => .error e
    | .ok r => .ok (some r)

/-! ### writer: a new version -/

abbrev Mods := List (Nat × Cell)

def lookupMod (m : Mods) (i : Nat) : Option Cell :=
  match m with
  | [] => none
  | (j, v) :: rest => if j = i then some v else lookupMod rest i

/-- the new value of column `i`: the modification if there is one, the old value otherwise -/
def newCell (m : Mods) (i : Nat) (v : Cell) : Cell :=
  match lookupMod m i with
  | some nv => nv
  | none => v

/-- `compute_values`: the values of the new version -/
def applyMods (m : Mods) : Nat → List Cell → List Cell
  | _, [] => []
  | i, v :: vs => newCell m i v :: applyMods m (i + 1) vs

/-- `compute_values`: the touched columns, ascending -/
def changedIdx (m : Mods) : Nat → List Cell → List Nat
  | _, [] => []
  | i, _ :: vs => (match lookupMod m i with | some _ => [i] | none => []) ++ changedIdx m (i + 1) vs

/-- the change entries of a delta written from offset `off` on: `[idx][old value if not NULL]` -/
def emitChanges (P : Params) (kinds : List Kind) (old : List Cell) : Nat → List Nat → Bytes
  | _, [] => []
  | off, i :: is =>
    match old[i]?, kinds[i]? with
    | some (some p), some k =>
      UInt8.ofNat i :: emitVal P k (off + 1) p ++ emitChanges P kinds old (off + 1 + (emitVal P k (off + 1) p).length) is
    | _, _ => UInt8.ofNat i :: emitChanges P kinds old (off + 1) is

/-- one delta, written at an offset that is a multiple of the header alignment (so offsets inside are relative):
    `[DeltaHeader][nChanges][bitmap of the old version][changes]` -/
def encDelta (P : Params) (sch : Schema) (xmin ver : Nat) (old : List Cell) (changed : List Nat) : Bytes :=
  encDeltaHeader P xmin ver ++ [UInt8.ofNat changed.length] ++ mkBitmap old
    ++ emitChanges P sch.vals old (P.dhSize + 1 + bitmapSize old.length) changed

def changeBoolEnds (P : Params) (kinds : List Kind) (old : List Cell) : Nat → List Nat → List Nat
  | _, [] => []
  | off, i :: is =>
    match old[i]?, kinds[i]? with
    | some (some p), some k =>
      let e := off + 1 + (emitVal P k (off + 1) p).length
      (if k = .bool then [e] else []) ++ changeBoolEnds P kinds old e is
    | _, _ => changeBoolEnds P kinds old (off + 1) is

/-- `calculate_new_tuple_size` -/
def sizeChanges (P : Params) (kinds : List Kind) (old : List Cell) : Nat → List Nat → Nat
  | c, [] => c
  | c, i :: is =>
    match old[i]?, kinds[i]? with
    | some (some p), some k => sizeChanges P kinds old (alignUp (c + 1) (P.align k) + (encPayload k p).length) is
    | _, _ => sizeChanges P kinds old (c + 1) is

def calcNewTupleSize (D : Defects) (P : Params) (sch : Schema) (keys : List Bytes) (newVals old : List Cell)
    (changed : List Nat) (existing : Nat) : Nat :=
  let c := sizeCells P (sizeCells P (P.hdrSize + bitmapSize newVals.length) sch.keys (keys.map some)) sch.vals newVals
  let c := alignUp c P.dhAlign + P.dhSize + 1 + bitmapSize newVals.length
  let c := sizeChanges P sch.vals old c changed
  if existing = 0 then c
  else if D.deltasCopiedUnaligned then c + existing
  else alignUp c P.dhAlign + existing

/-- `Tuple::add_version_with` -/
def addVersion (D : Defects) (P : Params) (sch : Schema) (d : Bytes) (m : Mods) (newXmin : Nat) : R Bytes :=
  if m.isEmpty then .ok d
  else if m.any (fun e => sch.vals.length ≤ e.1) then .error .err
  else
    match parseLast P sch d with
    | .error e => .error e
    | .ok lay =>
      match toRow P sch d lay with
      | .error e => .error e
      | .ok old =>
        let newVals := applyMods m 0 old.vals
        let changed := changedIdx m 0 old.vals
        let existing := d.drop (alignUp lay.dataEnd P.dhAlign)
        if D.versionOverflowPanics && lay.version = 255 then .error .panic
        else
          let xmin := if D.updateKeepsInserterXmin then lay.vxmin else newXmin
          let main := encMain P sch xmin none ((lay.version + 1) % 256) old.keys newVals
          let delta := encDelta P sch lay.vxmin lay.version old.vals changed
          let body := main ++ padTo main.length P.dhAlign ++ delta
          let out :=
            if existing.isEmpty then body
            else if D.deltasCopiedUnaligned then body ++ existing
            else body ++ padTo body.length P.dhAlign ++ existing
          let h := P.hdrSize + bitmapSize newVals.length
          let k := emitCells P h sch.keys (old.keys.map some)
          let dStart := main.length + (padTo main.length P.dhAlign).length
          if D.boolWriteNeedsLastByte &&
              (boolEnds P h sch.keys (old.keys.map some) ++ boolEnds P (h + k.length) sch.vals newVals
                ++ changeBoolEnds P sch.vals old.vals (dStart + P.dhSize + 1 + bitmapSize old.vals.length) changed).any
                (· ≠ out.length)
          then .error .panic
          else .ok out

/-! ### delete, stamp, vacuum, padding -/

def isDeleted (P : Params) (d : Bytes) : R Bool :=
  match readHeader P d with
  | .ok h => .ok h.xmax.isSome
  | .error e => .error e

/-- `Tuple::delete`: sets `xmax` to the deleter.  An existing delete mark is overwritten (since c92877b; before, the
    delete was silently ignored, which made a row undeletable for ever after a rolled-back DELETE).  Whether
    overwriting is *right* — the single slot loses the first deleter — is C03/C04's business (their finding
    `deleteMarkSingleSlot`); C18 is about decoding whatever mark the bytes carry. -/
def delete (P : Params) (d : Bytes) (xid : Nat) : R Bytes :=
  match readHeader P d with
  | .error e => .error e
  | .ok _ => .ok (d.take 8 ++ le64 xid ++ d.drop 16)

/-- harness scaffolding: overwrite the header's `xmin` -/
def stamp (P : Params) (d : Bytes) (xid : Nat) : R Bytes :=
  match readHeader P d with
  | .error e => .error e
  | .ok _ => .ok (le64 xid ++ d.drop 8)

/-- the end of the delta that starts at (the alignment of) `cursor`, and its creator -/
def skipDelta (P : Params) (sch : Schema) (d : Bytes) (cursor : Nat) : R (Nat × Nat) :=
  let a := alignUp cursor P.dhAlign
  match slice d a P.dhSize with
  | .error e => .error e
  | .ok h =>
    match getByte d (a + P.dhSize) with
    | .error e => .error e
    | .ok n =>
      let bmStart := a + P.dhSize + 1
      match slice d bmStart (bitmapSize sch.vals.length) with
      | .error e => .error e
      | .ok bm =>
        match applyChanges P sch d bm n.toNat (bmStart + bitmapSize sch.vals.length) (List.replicate sch.vals.length 0) with
        | .error e => .error e
        | .ok (_, c) => .ok (rdLE (h.take 8), c)

/-- the loop of `vaccum_with`: returns the offset up to which the tuple is kept.
    `covered` = a version every reader at the horizon can see has already been kept (specification only). -/
def vacLoop (D : Defects) (P : Params) (sch : Schema) (d : Bytes) (h : Nat) : Nat → Nat → Bool → Nat → R Nat
  | 0, _, _, keep => .ok keep
  | fuel + 1, cursor, covered, keep =>
    if moreDeltas D P d cursor then
      match slice d (alignUp cursor P.dhAlign) P.dhSize with
      | .error e => .error e
      | .ok hd =>
        let xmin := rdLE (hd.take 8)
        if h ≤ xmin || (!D.vacuumDropsHorizonVersion && !covered) then
          match skipDelta P sch d cursor with
          | .error e => .error e
          | .ok (_, c) => vacLoop D P sch d h fuel c (covered || decide (xmin < h)) c
        else .ok keep
    else .ok keep

/-- `Tuple::vaccum_with`: (bytes freed, new bytes) -/
def vacuumWith (D : Defects) (P : Params) (sch : Schema) (d : Bytes) (h : Nat) : R (Nat × Bytes) :=
  match parseLast P sch d with
  | .error e => .error e
  | .ok lay =>
    let start := alignUp lay.dataEnd P.dhAlign
    if d.length ≤ start then .ok (0, d)
    else
      match vacLoop D P sch d h d.length start (decide (lay.vxmin < h)) start with
      | .error e => .error e
      | .ok keep => .ok (d.length - keep, d.take keep)

/-- the stored / logged form of a tuple: zero padding up to the cell alignment -/
def padded (P : Params) (d : Bytes) : Bytes := d ++ padTo d.length P.cellAlign

/-! ### the logical row and its encoding -/

structure LVersion where
  creator : Nat
  ver : Nat
  vals : List Cell
  deriving Repr, DecidableEq

/-- a row with its history: the newest version, then the older ones newest first, each paired with the columns
    touched by the update that replaced it -/
structure LRow where
  keys : List Bytes
  cur : LVersion
  hist : List (LVersion × List Nat)
  deleter : Option Nat
  /-- the main part is followed by its alignment gap although no delta follows (what a vacuum that removed every
      delta leaves behind; invisible to every reader) -/
  trail : Bool := false
  deriving Repr, DecidableEq

def LRow.insert (keys : List Bytes) (vals : List Cell) (t : Nat) : LRow :=
  { keys := keys, cur := { creator := t, ver := 0, vals := vals }, hist := [], deleter := none, trail := false }

/-- the update as it is meant: a new version created by `t`; the previous one becomes history -/
def LRow.update (L : LRow) (t : Nat) (m : Mods) : LRow :=
  if m.isEmpty then L
  else
    { L with cur := { creator := t, ver := (L.cur.ver + 1) % 256, vals := applyMods m 0 L.cur.vals },
             hist := (L.cur, changedIdx m 0 L.cur.vals) :: L.hist, deleter := none }

/-- the delete as the code performs it: the single delete mark now names `t`, whatever it named before (see `delete`) -/
def LRow.delete (L : LRow) (t : Nat) : LRow :=
  { L with deleter := some t }

/-- history kept by a vacuum with horizon `h`: everything down to and including the newest version below the
    horizon, unless a newer kept version is already below it -/
def keepHist (h : Nat) : Bool → List (LVersion × List Nat) → List (LVersion × List Nat)
  | _, [] => []
  | covered, (v, c) :: rest =>
    if h ≤ v.creator then (v, c) :: keepHist h covered rest
    else if covered then []
    else (v, c) :: keepHist h true rest

def LRow.vacuum (L : LRow) (h : Nat) : LRow :=
  if L.hist.isEmpty then L
  else { L with hist := keepHist h (decide (L.cur.creator < h)) L.hist, trail := true }

/-- the first version in `vs` (newest first) whose creator the snapshot may see -/
def firstVisible (D : Defects) (s : Snapshot) : List LVersion → Option LVersion
  | [] => none
  | v :: vs => if creatorVisible D s v.creator then some v else firstVisible D s vs

/-- the deleter is the reader itself or committed before its snapshot -/
def specDeleted (D : Defects) (s : Snapshot) : Option Nat → Bool
  | some x => creatorVisible D s x
  | none => false

/-- THE SPECIFICATION: what a snapshot is entitled to decode from a row. -/
def specVisible (D : Defects) (s : Snapshot) (L : LRow) : Option Row :=
  if specDeleted D s L.deleter then none
  else match firstVisible D s (L.cur :: L.hist.map (·.1)) with
    | some v => some { keys := L.keys, vals := v.vals }
    | none => none

/-- the delta block, written from offset `rel` (counted from the aligned start of the block) on: every delta is
    preceded by the gap that brings it to a multiple of the header alignment -/
def encBlock (P : Params) (sch : Schema) : Nat → List (LVersion × List Nat) → Bytes
  | _, [] => []
  | rel, (v, c) :: rest =>
    let e := padTo rel P.dhAlign ++ encDelta P sch v.creator v.ver v.vals c
    e ++ encBlock P sch (rel + e.length) rest

/-- the bytes of a logical row -/
def encode (P : Params) (sch : Schema) (L : LRow) : Bytes :=
  let main := encMain P sch L.cur.creator L.deleter L.cur.ver L.keys L.cur.vals
  main ++ (if L.hist.isEmpty && !L.trail then [] else padTo main.length P.dhAlign) ++ encBlock P sch 0 L.hist

/-! ### operation sequences (for the statement "after any sequence of updates, deletes and vacuums") -/

inductive LOp
  | update (t : Nat) (m : Mods)
  | delete (t : Nat)
  | vacuum (h : Nat)
  deriving Repr

def LOp.applyL : LOp → LRow → LRow
  | .update t m, L => L.update t m
  | .delete t, L => L.delete t
  | .vacuum h, L => L.vacuum h

def LOp.applyB (D : Defects) (P : Params) (sch : Schema) : LOp → Bytes → R Bytes
  | .update t m, d => addVersion D P sch d m t
  | .delete t, d => AxVerif.Tuple.delete P d t
  | .vacuum h, d =>
    match vacuumWith D P sch d h with
    | .ok (_, d') => .ok d'
    | .error e => .error e

def runL : List LOp → LRow → LRow
  | [], L => L
  | op :: ops, L => runL ops (op.applyL L)

def runB (D : Defects) (P : Params) (sch : Schema) : List LOp → Bytes → R Bytes
  | [], d => .ok d
  | op :: ops, d =>
    match op.applyB D P sch d with
    | .ok d' => runB D P sch ops d'
    | .error e => .error e

end AxVerif.Tuple
