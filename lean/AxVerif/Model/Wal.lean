/-
  Model of the write-ahead log: crates/axmos-db/src/io/wal.rs (`WriteAheadLog`: push, rotate_block,
  get_next_block, perform_flush, truncate, open, Drop; `WalReader`: new, reload_blocks, next_ref),
  the block and record layouts of storage/wal.rs and the `try_push` of storage/core/buffer.rs.

  A block is its header fields plus the list of records it holds; block zero additionally carries the
  file header (`WalHeader`).  The file is block zero (absent while the file has length 0) followed by the
  numbered blocks, block N at offset N * block_size.  `push` assigns the LSN the way `Pager::push_to_log`
  does (`last_lsn() + 1`, or 0).  Every operation follows the control flow of the code; sizes are exact
  (header sizes, 8-byte padding, the two `available_space` formulas including the doubled header).

  `Defects` switches the five defects of the shipped code back on; `{}` (all off) is the code with the
  `fix:` commits, and is what the theorems of Thm/C17.lean are about.

  Byte level: `encodeRecord` / `decodeRecord` are the 80-byte `RecordHeader` image (`repr(C)`, `Option<u64>` =
  8-byte tag + 8-byte value, u32 total size, u16 payload lengths) followed by the padded payload.
-/
import AxVerif.Model.Bytes
namespace AxVerif.Wal
open AxVerif

/-- Constants obtained from the code on every run (see `Generated/Wal.lean`). -/
structure Params where
  /-- block size actually used (`WAL_BLOCK_SIZE` rounded up to the file-system block size) -/
  blockSize : Nat
  /-- `size_of::<BlockHeader>()` -/
  blockHdr : Nat
  /-- `size_of::<BlockZeroHeader>()` -/
  zeroHdr : Nat
  /-- `size_of::<RecordHeader>()` -/
  recHdr : Nat
  /-- `WAL_RECORD_ALIGNMENT` -/
  align : Nat
  /-- `max_record_size()` as the code evaluates it -/
  maxRecord : Nat
  /-- `available_space()` of a freshly allocated block zero, as the code evaluates it -/
  freshZeroAvail : Nat
  /-- `available_space()` of a freshly allocated numbered block, as the code evaluates it -/
  freshBlockAvail : Nat
  /-- `total_blocks` of a freshly allocated header -/
  freshTotalBlocks : Nat
deriving Repr, DecidableEq

/-- Defect switches; each reproduces one defect of the shipped code exactly. -/
structure Defects where
  /-- `last_lsn()` is block zero's own `block_last_lsn` (stops advancing once block zero is full) -/
  lsnFromBlockZero : Bool := false
  /-- first spill block unnumbered; `perform_flush` writes queue and current block at consecutive offsets
      from `block_size`, drops the current block and recomputes `total_blocks` from what it wrote -/
  flushOverwritesBlockOne : Bool := false
  /-- the reader uses the in-memory `total_blocks` without looking at the header it has just read -/
  readerTrustsMemoryHeader : Bool := false
  /-- `push` tries block zero whenever there is no current block, even if numbered blocks exist -/
  reopenReusesBlockZero : Bool := false
  /-- `open` and the reader fail with UnexpectedEof on a file shorter than one block (the file has length 0
      from `create` / `truncate` until the next force) instead of seeing an empty log -/
  shortFileIsError : Bool := false
deriving Repr, DecidableEq

/-- A log record: every field of `RecordHeader` plus the two payloads. -/
structure Rec where
  lsn : Nat
  tid : Nat
  prev : Option Nat
  oid : Option Nat
  rowid : Option Nat
  kind : Nat
  undo : Bytes
  redo : Bytes
deriving Repr, DecidableEq

/-- `n.next_multiple_of(a)` -/
def roundUp (n a : Nat) : Nat := (n + a - 1) / a * a

/-- `OwnedRecord::compute_padded_size` -/
def paddedSize (P : Params) (n : Nat) : Nat := roundUp (n + P.recHdr) P.align - P.recHdr

/-- `total_size()` of the record as stored -/
def recSize (P : Params) (r : Rec) : Nat := P.recHdr + paddedSize P (r.undo.length + r.redo.length)

/-- `BlockHeader` + the records in the data area -/
structure Block where
  num : Nat
  first : Option Nat
  last : Option Nat
  used : Nat
  recs : List Rec
deriving Repr, DecidableEq

/-- `WalHeader` -/
structure WalHdr where
  startLsn : Option Nat
  lastLsn : Option Nat
  totalBlocks : Nat
  blockSize : Nat
  totalEntries : Nat
  lastBlockUsed : Nat
deriving Repr, DecidableEq

/-- block zero: a block plus the file header -/
structure Zero where
  blk : Block
  hdr : WalHdr
deriving Repr, DecidableEq

/-- `WalBlock::alloc(id, size)`; `WalBlock::new(size)` (all zero) is `Block.fresh 0`, which is also what a
    hole of the file reads as. -/
def Block.fresh (id : Nat) : Block := { num := id, first := none, last := none, used := 0, recs := [] }

/-- `BlockZero::alloc(0, block_size)` -/
def Zero.fresh (P : Params) : Zero :=
  { blk := Block.fresh 0,
    hdr := { startLsn := none, lastLsn := none, totalBlocks := P.freshTotalBlocks, blockSize := P.blockSize,
             totalEntries := 0, lastBlockUsed := 0 } }

/-- The file: block zero (`none` = the file has length 0) and the numbered blocks, `blocks[i]` at offset
    `(i+1) * block_size`. -/
structure Disk where
  zero : Option Zero
  blocks : List Block
deriving Repr, DecidableEq

/-- write a whole block at index `i` (offset `(i+1) * block_size`); a gap reads as zero blocks -/
def writeAt (bs : List Block) (i : Nat) (b : Block) : List Block :=
  if i < bs.length then bs.set i b else bs ++ List.replicate (i - bs.length) (Block.fresh 0) ++ [b]

/-- write block number `n` at offset `n * block_size`; offset 0 is block zero's place and is overwritten by
    the header right afterwards, so nothing of it remains -/
def writeNum (bs : List Block) (b : Block) : List Block :=
  match b.num with
  | 0 => bs
  | n + 1 => writeAt bs n b

structure State where
  /-- in-memory block zero (`header`) -/
  hdr : Zero
  cur : Option Block
  queue : List Block
  disk : Disk
  /-- false once `open` has failed: there is no log object any more -/
  alive : Bool
deriving Repr, DecidableEq

inductive Err where
  | tooLarge   -- ErrorKind::InvalidInput
  | full       -- ErrorKind::StorageFull
  | eof        -- ErrorKind::UnexpectedEof
deriving Repr, DecidableEq

inductive Op where
  /-- append; the `lsn` field of the argument is ignored, the LSN is assigned -/
  | push (r : Rec)
  | force
  | truncate
  /-- drop (which forces) and open again -/
  | reopen
  /-- the file as it is survives, the log object does not; open again -/
  | crash
  | read (k : Nat)
deriving Repr, DecidableEq

inductive Out where
  | lsn (n : Nat)
  | ok
  | err (e : Err)
  | recs (l : List Rec)
  | dead
deriving Repr, DecidableEq

/-! ### create / truncate / open -/

/-- a file of length 0: what `create` and `truncate` (`set_len(0)`) leave until the next force -/
def emptyDisk : Disk := { zero := none, blocks := [] }

/-- `WriteAheadLog::create` -/
def init (P : Params) : State :=
  { hdr := Zero.fresh P, cur := none, queue := [], disk := emptyDisk, alive := true }

/-- `WriteAheadLog::truncate` -/
def truncate (P : Params) (s : State) : State :=
  { s with hdr := Zero.fresh P, cur := none, queue := [], disk := emptyDisk }

/-- block zero as `open` and the reader obtain it: read from the file, or — the file being shorter than one
    block — a freshly allocated one (shipped code: `read_exact` fails) -/
def diskZero (P : Params) (D : Defects) (d : Disk) : Except Err Zero :=
  match d.zero with
  | some z => .ok z
  | none => if D.shortFileIsError then .error .eof else .ok (Zero.fresh P)

/-- `WriteAheadLog::open` -/
def load (P : Params) (D : Defects) (s : State) : State × Out :=
  match diskZero P D s.disk with
  | .error e => ({ s with alive := false }, .err e)
  | .ok z => ({ s with hdr := z, cur := none, queue := [], alive := true }, .ok)

/-! ### push -/

/-- `BlockZero::available_space`: `usable_space(capacity())` subtracts the header a second time -/
def zeroAvail (P : Params) (b : Block) : Nat := P.blockSize - P.zeroHdr - P.zeroHdr - b.used

/-- `WalBlock::available_space`: same doubled header -/
def blockAvail (P : Params) (b : Block) : Nat := P.blockSize - P.blockHdr - P.blockHdr - b.used

/-- `try_push` once the space test has passed: copy the record, advance `used_bytes`, set first/last LSN -/
def Block.push (P : Params) (b : Block) (r : Rec) : Block :=
  { b with recs := b.recs ++ [r], used := b.used + recSize P r,
           first := match b.first with | none => some r.lsn | some f => some f,
           last := some r.lsn }

/-- `WriteAheadLog::last_lsn` -/
def lastLsn (D : Defects) (s : State) : Option Nat :=
  if D.lsnFromBlockZero then s.hdr.blk.last else s.hdr.hdr.lastLsn

/-- the LSN `Pager::push_to_log` gives the next record -/
def nextLsn (D : Defects) (s : State) : Nat :=
  match lastLsn D s with
  | some l => l + 1
  | none => 0

def setTotal (z : Zero) (n : Nat) : Zero := { z with hdr := { z.hdr with totalBlocks := n } }

/-- second half of `push`: the record goes to the current block `b` (rotating first if it does not fit) -/
def pushCur (P : Params) (s : State) (b : Block) (r : Rec) : State × Out :=
  if blockAvail P b < recSize P r then
    -- rotate_block: queue the full block, get_next_block, allocate
    let id := s.hdr.hdr.totalBlocks
    let nb := Block.fresh id
    let s1 := { s with queue := s.queue ++ [b], hdr := setTotal s.hdr (id + 1) }
    if blockAvail P nb < recSize P r then ({ s1 with cur := some nb }, .err .full)
    else ({ s1 with cur := some (nb.push P r) }, .lsn r.lsn)
  else ({ s with cur := some (b.push P r) }, .lsn r.lsn)

/-- `WriteAheadLog::push` (with the LSN assignment of `Pager::push_to_log` in front) -/
def push (P : Params) (D : Defects) (s : State) (r0 : Rec) : State × Out :=
  let r := { r0 with lsn := nextLsn D s }
  if recSize P r > P.maxRecord then (s, .err .tooLarge)
  else
    let h := s.hdr.hdr
    let h1 := { h with startLsn := (match h.startLsn with | none => some r.lsn | some x => some x),
                       lastLsn := some r.lsn, totalEntries := h.totalEntries + 1 }
    let s1 := { s with hdr := { s.hdr with hdr := h1 } }
    match s1.cur with
    | some b => pushCur P s1 b r
    | none =>
      if (D.reopenReusesBlockZero || decide (h1.totalBlocks ≤ 1)) && decide (zeroAvail P s1.hdr.blk ≥ recSize P r) then
        ({ s1 with hdr := { s1.hdr with blk := s1.hdr.blk.push P r } }, .lsn r.lsn)
      else if D.flushOverwritesBlockOne then
        -- `WalBlock::new`: id 0, not counted
        pushCur P s1 (Block.fresh 0) r
      else
        let id := h1.totalBlocks
        pushCur P { s1 with hdr := setTotal s1.hdr (id + 1) } (Block.fresh id) r

/-! ### force (`perform_flush`) -/

def setLastUsed (z : Zero) (n : Nat) : Zero := { z with hdr := { z.hdr with lastBlockUsed := n } }

/-- the code with the fix: every block at `block_number * block_size`, current block kept -/
def forceFixed (s : State) : State :=
  let bl1 := s.queue.foldl writeNum s.disk.blocks
  let bl2 := match s.cur with | some b => writeNum bl1 b | none => bl1
  let lbu := match s.cur with | some b => b.used | none => s.hdr.blk.used
  let z := setLastUsed s.hdr lbu
  { s with hdr := z, queue := [], disk := { zero := some z, blocks := bl2 } }

/-- consecutive writes starting at index `i` -/
def writeSeq (bs : List Block) (i : Nat) : List Block → List Block
  | [] => bs
  | b :: rest => writeSeq (writeAt bs i b) (i + 1) rest

/-- the shipped `perform_flush` -/
def forceShipped (s : State) : State :=
  let curW := match s.cur with | some b => if b.used > 0 then [b] else [] | none => []
  let written := s.queue ++ curW
  let bl := writeSeq s.disk.blocks 0 written
  let lbu := match s.cur with | some b => b.used | none => s.hdr.blk.used
  let z := setLastUsed (setTotal s.hdr (1 + written.length)) lbu
  { s with hdr := z, queue := [], cur := none, disk := { zero := some z, blocks := bl } }

def force (D : Defects) (s : State) : State :=
  if D.flushOverwritesBlockOne then forceShipped s else forceFixed s

/-! ### the reader -/

/-- records of a block as the reader walks it: `offset` advances by each record's total size until it
    reaches `used_bytes` -/
def walk (P : Params) (used : Nat) : Nat → List Rec → List Rec
  | _, [] => []
  | off, r :: rs => if off ≥ used then [] else r :: walk P used (off + recSize P r) rs

def recsOf (P : Params) (b : Block) : List Rec := walk P b.used 0 b.recs

/-- up to `c` blocks starting at index `pos`, stopping at index `n` (= `total_blocks - 1`: the code's
    `file_offset >= total_blocks * block_size` with `file_offset = (pos+1) * block_size`); `read_exact`
    beyond the end of the file fails -/
def loadBlocks (blocks : List Block) (n : Nat) : Nat → Nat → Except Err (List Block × Nat)
  | 0, pos => .ok ([], pos)
  | c + 1, pos =>
    if pos ≥ n then .ok ([], pos)
    else match blocks[pos]? with
      | none => .error .eof
      | some b =>
        match loadBlocks blocks n c (pos + 1) with
        | .ok (q, p) => .ok (b :: q, p)
        | .error e => .error e

/-- `next_ref` from the moment the reader works on a (possibly empty) queue `q`: its records, then
    `reload_blocks` with the full read-ahead `k`, until nothing is left.  `fuel` bounds the reloads. -/
def drain (P : Params) (blocks : List Block) (n k : Nat) : Nat → List Block → Nat → Except Err (List Rec)
  | 0, q, _ => .ok (q.flatMap (recsOf P))
  | fuel + 1, q, pos =>
    let out := q.flatMap (recsOf P)
    if pos ≥ n then .ok out
    else match loadBlocks blocks n k pos with
      | .error e => .error e
      | .ok (q', pos') =>
        if q'.isEmpty then .ok out
        else match drain P blocks n k fuel q' pos' with
          | .ok rest => .ok (out ++ rest)
          | .error e => .error e

/-- `WriteAheadLog::reader(k)` followed by `next_ref` until `None` -/
def read (P : Params) (D : Defects) (s : State) (k : Nat) : Except Err (List Rec) :=
  match diskZero P D s.disk with
  | .error e => .error e
  | .ok z =>
    let tMem := s.hdr.hdr.totalBlocks
    let t := if D.readerTrustsMemoryHeader then tMem else min tMem z.hdr.totalBlocks
    let n := t - 1
    match loadBlocks s.disk.blocks n (min k n) 0 with
    | .error e => .error e
    | .ok (q, pos) =>
      match drain P s.disk.blocks n k (n + 1) q pos with
      | .ok rest => .ok (recsOf P z.blk ++ rest)
      | .error e => .error e

/-! ### the state machine -/

def step (P : Params) (D : Defects) (s : State) (op : Op) : State × Out :=
  if !s.alive then (s, .dead) else
  match op with
  | .push r => push P D s r
  | .force => (force D s, .ok)
  | .truncate => (truncate P s, .ok)
  | .reopen => load P D (force D s)
  | .crash => load P D s
  | .read k =>
    match read P D s k with
    | .ok l => (s, .recs l)
    | .error e => (s, .err e)

def run (P : Params) (D : Defects) : State → List Op → State × List Out
  | s, [] => (s, [])
  | s, op :: ops =>
    let (s1, o) := step P D s op
    let (s2, os) := run P D s1 ops
    (s2, o :: os)

/-! ### the specification: what the log is supposed to do, with no blocks, no file, no header

  `appended` = the records accepted since the last truncation, `forced` = how many of them a force has
  covered, `last` = the last LSN handed out (an LSN is consumed even by a push that fails with `full`),
  `forcedLast` = `last` at the time of the last force (what a crash falls back to). -/

structure Spec where
  appended : List Rec
  forced : Nat
  last : Option Nat
  forcedLast : Option Nat
deriving Repr, DecidableEq

def Spec.init : Spec := { appended := [], forced := 0, last := none, forcedLast := none }

def Spec.next (sp : Spec) : Nat :=
  match sp.last with
  | some l => l + 1
  | none => 0

def Spec.force (sp : Spec) : Spec := { sp with forced := sp.appended.length, forcedLast := sp.last }

/-- what is left after losing the log object: the forced prefix -/
def Spec.crash (sp : Spec) : Spec := { sp with appended := sp.appended.take sp.forced, last := sp.forcedLast }

def specStep (P : Params) (sp : Spec) : Op → Spec × Out
  | .push r0 =>
    let r := { r0 with lsn := sp.next }
    if recSize P r > P.maxRecord then (sp, .err .tooLarge)
    else if recSize P r > blockAvail P (Block.fresh 0) then ({ sp with last := some r.lsn }, .err .full)
    else ({ sp with appended := sp.appended ++ [r], last := some r.lsn }, .lsn r.lsn)
  | .force => (sp.force, .ok)
  | .truncate => (Spec.init, .ok)
  | .reopen => (sp.force, .ok)
  | .crash => (sp.crash, .ok)
  | .read _ => (sp, .recs (sp.appended.take sp.forced))

def specRun (P : Params) : Spec → List Op → Spec × List Out
  | sp, [] => (sp, [])
  | sp, op :: ops =>
    let (sp1, o) := specStep P sp op
    let (sp2, os) := specRun P sp1 ops
    (sp2, o :: os)

/-! ### byte level: the record image -/

def encOpt : Option Nat → Bytes
  | none => le64 0 ++ le64 0
  | some v => le64 1 ++ le64 v

/-- header (80 bytes) ++ undo ++ redo ++ zero padding up to the padded size -/
def encodeRecord (P : Params) (r : Rec) : Bytes :=
  le64 r.lsn ++ le64 r.tid ++ encOpt r.prev ++ encOpt r.oid ++ encOpt r.rowid ++
  le32 (recSize P r) ++ le16 r.undo.length ++ le16 r.redo.length ++
  [UInt8.ofNat r.kind] ++ List.replicate 7 0 ++
  r.undo ++ r.redo ++ List.replicate (paddedSize P (r.undo.length + r.redo.length) - (r.undo.length + r.redo.length)) 0

def decOpt (bs : Bytes) : Option (Option Nat × Bytes) :=
  match take64 bs with
  | none => none
  | some (tag, r1) =>
    match take64 r1 with
    | none => none
    | some (v, r2) =>
      if tag = 0 then some (none, r2) else if tag = 1 then some (some v, r2) else none

/-- `RecordRef::from_raw` on the front of `bs`: the header fields, the payload of `total_size - 80` bytes
    split by the two u16 lengths; returns the record and what follows it -/
def decodeRecord (bs : Bytes) : Option (Rec × Bytes) :=
  match take64 bs with
  | none => none
  | some (lsn, b1) =>
  match take64 b1 with
  | none => none
  | some (tid, b2) =>
  match decOpt b2 with
  | none => none
  | some (prev, b3) =>
  match decOpt b3 with
  | none => none
  | some (oid, b4) =>
  match decOpt b4 with
  | none => none
  | some (rowid, b5) =>
  match take32 b5 with
  | none => none
  | some (total, b6) =>
  match take16 b6 with
  | none => none
  | some (ulen, b7) =>
  match take16 b7 with
  | none => none
  | some (rlen, b8) =>
  match b8 with
  | kind :: _ :: _ :: _ :: _ :: _ :: _ :: _ :: b9 =>
    if total < 80 ∨ b9.length < total - 80 ∨ total - 80 < ulen + rlen then none
    else
      let payload := b9.take (total - 80)
      some ({ lsn := lsn, tid := tid, prev := prev, oid := oid, rowid := rowid, kind := kind.toNat,
              undo := payload.take ulen, redo := (payload.drop ulen).take rlen },
            b9.drop (total - 80))
  | _ => none

/-- the data area of a block: the record images one after the other -/
def encodeRecs (P : Params) (rs : List Rec) : Bytes := rs.flatMap (encodeRecord P)

/-- the reader's walk over a data area at byte level (`next_ref` on one block): decode the record at the current
    offset, advance by the bytes it occupies, until the offset reaches `used_bytes`; `fuel` bounds the number of records -/
def decodeRecs : Nat → Nat → Nat → Bytes → Option (List Rec)
  | 0, used, off, _ => if off ≥ used then some [] else none
  | fuel + 1, used, off, bs =>
    if off ≥ used then some []
    else match decodeRecord bs with
      | none => none
      | some (r, rest) =>
        match decodeRecs fuel used (off + (bs.length - rest.length)) rest with
        | some l => some (r :: l)
        | none => none

end AxVerif.Wal
