/-
  The pure helpers of the rebalancer (tree/bplustree.rs) as functions on size vectors.

  * `splitCells`  — `Btree::split_cells`: cut where the running total reaches half of the total (rounded up).
  * `bestDistribution` — `Btree::compute_best_cell_distribution`: greedy fill of pages up to `usable`, then the
    right-to-left underflow fix-up, then the "left bias" adjustment of the first page.
    The code's `usize` arithmetic panics on underflow (the harness and the tests build with overflow checks) and its
    `while` has no bound: the model returns `none` for a panic (index out of range, subtraction below zero) and for fuel
    exhaustion. Note that the fix-up subtracts the size of cell `divider - 1` from the left page although the cell
    that moves is `divider`, and that `divider` is not re-based when the loop goes on to the next page: the returned
    totals are therefore bookkeeping values, not page loads (see `loads`).
  Core Lean only.
-/
namespace AxVerif.Balance

def sum : List Nat → Nat
  | [] => 0
  | x :: xs => x + sum xs

/-- index of the first cell at which the running total reaches `half` -/
def splitIndex (half : Nat) : Nat → List Nat → Option Nat
  | _, [] => none
  | acc, s :: rest => if acc + s ≥ half then some 0 else (splitIndex half (acc + s) rest).map (· + 1)

def splitCells (sizes : List Nat) : List Nat × List Nat :=
  let total := sum sizes
  let half := (total + 1) / 2
  let idx := (splitIndex half 0 sizes).getD ((sizes.length + 1) / 2)
  (sizes.take idx, sizes.drop idx)

/-- greedy phase: fill a page while the next cell still fits below `usable`, else open a new page.
    `t` is the total of the page being filled, `cur` its cells. The result lists the pages in order. -/
def pack (usable : Nat) : List Nat → Nat → List Nat → List (List Nat)
  | [], _, cur => [cur]
  | s :: rest, t, cur =>
    if t + s ≤ usable then pack usable rest (t + s) (cur ++ [s]) else cur :: pack usable rest s [s]

def flat : List (List Nat) → List Nat
  | [] => []
  | b :: bs => b ++ flat bs

/-- (totals, counts) after the greedy phase, in page order -/
def greedy (usable : Nat) (sizes : List Nat) : List Nat × List Nat :=
  let pages := pack usable sizes 0 []
  (pages.map sum, pages.map List.length)

def setAt (l : List Nat) (i v : Nat) : List Nat := l.set i v

/-- state of the fix-up: totals, counts (page order), divider index -/
structure Fix where
  tot : List Nat
  cnt : List Nat
  div : Nat
  deriving Repr, DecidableEq

/-- one iteration of the inner `while` for page `i` (caller checked `tot[i] < under`); `none` = the code panics -/
def fixStep (sizes : List Nat) (i : Nat) (f : Fix) : Option Fix :=
  match f.tot[i]?, f.cnt[i]?, f.tot[i - 1]?, f.cnt[i - 1]?, sizes[f.div]?, sizes[f.div - 1]? with
  | some ti, some ci, some tl, some cl, some sd, some sl =>
    if i = 0 ∨ f.div = 0 ∨ cl = 0 ∨ tl < sl then none
    else some { tot := setAt (setAt f.tot i (ti + sd)) (i - 1) (tl - sl), cnt := setAt (setAt f.cnt i (ci + 1)) (i - 1) (cl - 1), div := f.div - 1 }
  | _, _, _, _, _, _ => none

inductive FixR where
  | done (f : Fix)
  | panic
  | outOfFuel
  deriving Repr, DecidableEq

/-- the inner `while total[i] < under` -/
def fixPageR (sizes : List Nat) (under i : Nat) : Nat → Fix → FixR
  | 0, _ => .outOfFuel
  | fuel + 1, f =>
    match f.tot[i]? with
    | none => .panic
    | some ti =>
      if ti < under then
        match fixStep sizes i f with
        | none => .panic
        | some f' => fixPageR sizes under i fuel f'
      else .done f

def fixPage (sizes : List Nat) (under i fuel : Nat) (f : Fix) : Option Fix :=
  match fixPageR sizes under i fuel f with
  | .done f' => some f'
  | _ => none

/-- `for i in (1..=len-1).rev()`, written as a countdown from `i` -/
def fixAll (sizes : List Nat) (under : Nat) (fuel : Nat) : Nat → Fix → Option Fix
  | 0, f => some f
  | i + 1, f => (fixPage sizes under (i + 1) fuel f).bind (fixAll sizes under fuel i)

def bestDistribution (usable under : Nat) (sizes : List Nat) : Option (List Nat × List Nat) :=
  let (tot, cnt) := greedy usable sizes
  if cnt.length ≥ 2 then
    let last := cnt.getLastD 0
    if sizes.length < last + 1 then none
    else
      match fixAll sizes under (sizes.length + 2) (cnt.length - 1) { tot := tot, cnt := cnt, div := sizes.length - last - 1 } with
      | none => none
      | some f =>
        match f.tot[0]?, f.cnt[0]?, f.cnt[1]? with
        | some t0, some c0, some c1 =>
          if t0 < under then
            if c1 = 0 then none else some (f.tot, setAt (setAt f.cnt 0 (c0 + 1)) 1 (c1 - 1))
          else some (f.tot, f.cnt)
        | _, _, _ => none
  else some (tot, cnt)

/-- the real load of every page when the cells are dealt out in order according to `counts` -/
def loads : List Nat → List Nat → List Nat
  | _, [] => []
  | sizes, c :: cs => sum (sizes.take c) :: loads (sizes.drop c) cs

end AxVerif.Balance
