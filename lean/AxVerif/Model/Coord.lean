/-
  `TransactionCoordinator::begin` as a small transition system (C14).  Core Lean only.

  What the code does (multithreading/coordinator.rs): `begin` (1) takes the next transaction id from the header, (2)
  computes the snapshot — the ids that are `Active` / `Aborted` in the transaction table and `xmax` = last committed id —
  (3) registers the new transaction as `Active`.  `commit` sets the state `Committed` and raises `last_committed`.
  A snapshot counts a transaction as committed before it iff `id ≤ xmax`, not in `active`, not in `aborted`
  (`Snapshot::is_committed_before_snapshot`).

  As shipped the three steps of `begin` were separate critical sections (`Defects.beginNotAtomic`); the repaired code
  performs them under the write lock of the transaction table, which `commit` / `abort` take too.
-/
namespace AxVerif.Coord

structure Defects where
  /-- id allocation, snapshot and registration are three separate steps that other threads can interleave with (fixed) -/
  beginNotAtomic : Bool := false
  deriving Repr

def Defects.none : Defects := {}

inductive Status where
  | active | committed | aborted
  deriving DecidableEq, Repr

structure Snap where
  xid : Nat
  xmax : Nat
  active : List Nat
  aborted : List Nat
  deriving DecidableEq, Repr

/-- `Snapshot::is_committed_before_snapshot` -/
def Snap.cb (s : Snap) (t : Nat) : Bool := !(decide (s.xmax < t)) && !s.active.contains t && !s.aborted.contains t

structure State where
  nextId : Nat
  lastCommitted : Nat
  /-- registered transactions -/
  table : List (Nat × Status)
  /-- ids handed out whose `begin` has not taken its snapshot yet -/
  allocated : List Nat
  /-- `begin`s that have taken their snapshot and are not registered yet -/
  snapped : List Snap
  /-- snapshots of registered transactions -/
  snaps : List Snap
  deriving DecidableEq, Repr

/-- transaction 0 (the bootstrap / warm-up transaction) has committed -/
def State.init : State := ⟨1, 0, [(0, .committed)], [], [], []⟩

def idsWith (st : Status) (table : List (Nat × Status)) : List Nat := (table.filter (fun e => e.2 == st)).map (·.1)

def State.takeSnap (σ : State) (xid : Nat) : Snap :=
  ⟨xid, σ.lastCommitted, idsWith .active σ.table, idsWith .aborted σ.table⟩

def statusOf (table : List (Nat × Status)) (x : Nat) : Option Status := (table.find? (fun e => e.1 == x)).map (·.2)

def setStatus (x : Nat) (st : Status) : List (Nat × Status) → List (Nat × Status)
  | [] => []
  | e :: es => if e.1 == x then (x, st) :: es else e :: setStatus x st es

inductive Op where
  /-- the whole `begin` in one step -/
  | begin
  /-- step 1 of `begin`: take the id -/
  | alloc
  /-- step 2 of the `begin` that holds id `x`: compute the snapshot -/
  | snap (x : Nat)
  /-- step 3: register -/
  | register (x : Nat)
  | commit (x : Nat)
  | abort (x : Nat)
  deriving DecidableEq, Repr

/-- `none` = the operation is not possible in this state (under these defects) -/
def step (D : Defects) (σ : State) : Op → Option State
  | .begin =>
    let s := σ.takeSnap σ.nextId
    some { σ with nextId := σ.nextId + 1, table := σ.table ++ [(σ.nextId, .active)], snaps := s :: σ.snaps }
  | .alloc =>
    if D.beginNotAtomic then some { σ with nextId := σ.nextId + 1, allocated := σ.nextId :: σ.allocated } else none
  | .snap x =>
    if D.beginNotAtomic && σ.allocated.contains x then
      some { σ with allocated := σ.allocated.filter (· != x), snapped := σ.takeSnap x :: σ.snapped }
    else none
  | .register x =>
    match σ.snapped.find? (fun s => s.xid == x) with
    | some s =>
      if D.beginNotAtomic then
        some { σ with snapped := σ.snapped.filter (fun s => s.xid != x), table := σ.table ++ [(x, .active)], snaps := s :: σ.snaps }
      else none
    | none => none
  | .commit x =>
    if statusOf σ.table x = some .active then
      some { σ with table := setStatus x .committed σ.table, lastCommitted := max σ.lastCommitted x }
    else none
  | .abort x =>
    if statusOf σ.table x = some .active then some { σ with table := setStatus x .aborted σ.table } else none

inductive Reachable (D : Defects) : State → Prop
  | init : Reachable D State.init
  | step {σ σ' : State} {op : Op} : Reachable D σ → step D σ op = some σ' → Reachable D σ'

def runOps (D : Defects) : State → List Op → State
  | σ, [] => σ
  | σ, op :: ops =>
    match step D σ op with
    | none => σ
    | some σ' => runOps D σ' ops

/-- every snapshot taken so far (registered or not) counts only committed transactions as committed -/
def snapshotsSound (σ : State) : Bool :=
  (σ.snaps ++ σ.snapped).all (fun s => (List.range σ.nextId).all (fun x => !s.cb x || statusOf σ.table x == some .committed))

end AxVerif.Coord
