/-
  Model of the AxmosDB value layer (C19):
    types/varint.rs   — zig-zag LEB128 `VarInt`
    types/blob.rs     — length-prefixed `Blob`, `BlobComparator`
  Everything is a total function over `Nat`, `Int`, `List UInt8`; core Lean only.
  `Defects` switches reproduce shipped defects; `{}` (all off) is the specification the theorems of
  `Thm/C19.lean` are about.
-/
import AxVerif.Model.Bytes
namespace AxVerif.Value
open AxVerif

/-- Shipped defects of the value layer (all off = intended behaviour). -/
structure Defects where
  /-- `Blob::reinterpret_cast` adds the (possibly negative → huge) length to the prefix size without an overflow
      check: `offset + len` overflows `usize` (panic under overflow checks, wrap-around to a tiny size without). -/
  blobLenOverflow : Bool := false
  /-- `Bool::write_to` copies into `writer[cursor..]` (the whole tail) instead of one byte: it panics unless the
      bool is the last byte of the buffer. -/
  boolWriteWholeTail : Bool := false
  /-- float → 64-bit integer casts compare against `i64::MAX as f64` = 2^63 (resp. `u64::MAX as f64` = 2^64), so the
      value 2^63 (2^64) passes the range check and the saturating `as` turns it into `MAX` instead of an error. -/
  castSaturates : Bool := false
  /-- `==` and `partial_cmp` of numeric values convert both sides with `as f64` first (types/macros/datatype.rs):
      integers beyond 2^53 are rounded, so distinct integers compare equal. -/
  numericViaF64 : Bool := false
  /-- IEEE semantics for NaN: `NaN == NaN` is false and NaN is unordered against everything, although `DataType`
      claims `Eq`. -/
  nanUnordered : Bool := false
  /-- `Hash` feeds the raw bits of the `f64`: `0.0 == -0.0` but their hashes differ. -/
  hashRawBits : Bool := false
  deriving Repr, DecidableEq

/-- everything the shipped code (commit 546821f) does wrong in this layer -/
def Defects.asShipped : Defects :=
  { blobLenOverflow := true, boolWriteWholeTail := true, castSaturates := true,
    numericViaF64 := true, nanUnordered := true, hashRawBits := true }

/-- Error classes of `SerializationError` / `TypeSystemError` that the value layer can produce. -/
inductive Err
  | invalidPrefix   -- SerializationError::InvalidVarIntPrefix
  | eof             -- SerializationError::UnexpectedEof
  | notSupported    -- SerializationError::NotSupported
  | badCast         -- TypeSystemError::UnexpectedDataType
  | overflowPanic   -- arithmetic-overflow panic (only reachable with a defect flag on)
  | slicePanic      -- slice-length panic (only reachable with a defect flag on)
  | nullKey         -- `CellComparator`: "Cannot compare null keys" (an unordered pair of key values)
  deriving Repr, DecidableEq

instance {ε α : Type} [DecidableEq ε] [DecidableEq α] : DecidableEq (Except ε α)
  | .ok a, .ok b => if h : a = b then isTrue (by rw [h]) else isFalse (fun e => h (by injection e))
  | .error a, .error b => if h : a = b then isTrue (by rw [h]) else isFalse (fun e => h (by injection e))
  | .ok _, .error _ => isFalse (fun e => by injection e)
  | .error _, .ok _ => isFalse (fun e => by injection e)

def Err.name : Err → String
  | .invalidPrefix => "prefix"
  | .eof => "eof"
  | .notSupported => "unsupported"
  | .badCast => "cast"
  | .overflowPanic => "overflow-panic"
  | .slicePanic => "slice-panic"
  | .nullKey => "nullkey"

/-! ## VarInt: zig-zag + little-endian base-128 (types/varint.rs) -/
namespace VarInt

/-- `MAX_VARINT_LEN` -/
def maxLen : Nat := 10

/-- the values an `i64` can take -/
def InI64 (v : Int) : Prop := -9223372036854775808 ≤ v ∧ v < 9223372036854775808
instance (v : Int) : Decidable (InI64 v) := inferInstanceAs (Decidable (_ ∧ _))

/-- `encode_zigzag`: `((v << 1) ^ (v >> 63)) as u64`, i.e. 0, -1, 1, -2, … ↦ 0, 1, 2, 3, … -/
def zigzag (v : Int) : Nat :=
  if 0 ≤ v then (2 * v).toNat else (-(2 * v) - 1).toNat

/-- `decode_zigzag`: `((u >> 1) as i64) ^ -((u & 1) as i64)` -/
def unzigzag (u : Nat) : Int :=
  if u % 2 = 0 then ((u / 2 : Nat) : Int) else -((u / 2 : Nat) : Int) - 1

/-- The encoding loop of `VarInt::encode` (`fuel` = size of the output buffer). -/
def encodeU : Nat → Nat → Bytes
  | 0, _ => []
  | fuel + 1, n =>
    if n < 128 then [UInt8.ofNat n]
    else UInt8.ofNat (n % 128 + 128) :: encodeU fuel (n / 128)

/-- `VarInt::encode` -/
def encode (v : Int) : Bytes := encodeU maxLen (zigzag v)

/-- `VarInt::encoded_size` -/
def sizeU : Nat → Nat → Nat
  | 0, _ => 0
  | fuel + 1, n => if n < 128 then 1 else 1 + sizeU fuel (n / 128)

def encodedSize (v : Int) : Nat := sizeU maxLen (zigzag v)

/-- `VarInt::from_encoded_bytes`: scan at most `fuel` bytes for one without the continuation bit;
    returns the prefix (terminator included) and the rest. -/
def scan : Nat → Bytes → Option (Bytes × Bytes)
  | 0, _ => none
  | _ + 1, [] => none
  | fuel + 1, b :: rest =>
    if b.toNat < 128 then some ([b], rest)
    else match scan fuel rest with
      | some (p, r) => some (b :: p, r)
      | none => none

/-- little-endian base-128 value of the low seven bits of each byte -/
def valueU : Bytes → Nat
  | [] => 0
  | b :: rest => b.toNat % 128 + 128 * valueU rest

/-- `VarInt::value` of a scanned prefix: the shifts drop whatever does not fit 64 bits. -/
def valueOf (p : Bytes) : Int := unzigzag (valueU p % 18446744073709551616)

/-- `from_encoded_bytes` + `value()`: decoded value and remaining bytes; `none` = `InvalidVarIntPrefix`. -/
def decode (bs : Bytes) : Option (Int × Bytes) :=
  match scan maxLen bs with
  | none => none
  | some (p, rest) => some (valueOf p, rest)

/-- `VarInt::read_buf` over a reader holding `bs`: the raw prefix. -/
def readBuf : Nat → Bytes → Except Err Bytes
  | 0, _ => .error .invalidPrefix
  | _ + 1, [] => .error .eof
  | fuel + 1, b :: rest =>
    if b.toNat < 128 then .ok [b]
    else match readBuf fuel rest with
      | .ok p => .ok (b :: p)
      | .error e => .error e

end VarInt

/-! ## Blob: `[VarInt length][data]` (types/blob.rs) -/
namespace Blob

/-- `Blob::from_unencoded_slice` -/
def encode (data : Bytes) : Bytes := VarInt.encode (data.length : Int) ++ data

/-- `value() as usize` -/
def asUsize (v : Int) : Nat := (v % 18446744073709551616).toNat

/-- `Blob::reinterpret_cast`: the data part, the bytes consumed and the remaining bytes. -/
def decode (D : Defects) (buf : Bytes) : Except Err (Bytes × Nat × Bytes) :=
  match VarInt.decode buf with
  | none => .error .invalidPrefix
  | some (len, afterPrefix) =>
    let offset := buf.length - afterPrefix.length
    let total := offset + asUsize len
    if total ≥ 18446744073709551616 then
      if D.blobLenOverflow then .error .overflowPanic else .error .eof
    else if buf.length < total then .error .eof
    else .ok (afterPrefix.take (asUsize len), total, afterPrefix.drop (asUsize len))

/-- compare the first `n` positions byte by byte; `eq` when they all agree -/
def cmpPrefix : Nat → Bytes → Bytes → Ordering
  | 0, _, _ => .eq
  | n + 1, x :: xs, y :: ys =>
    if x.toNat < y.toNat then .lt else if x.toNat > y.toNat then .gt else cmpPrefix n xs ys
  | _ + 1, _, _ => .eq     -- not reached: n ≤ both lengths

/-- `u64::from_be_bytes` of a chunk -/
def beNat : Bytes → Nat
  | [] => 0
  | b :: rest => b.toNat * 256 ^ rest.length + beNat rest

/-- compare `n` successive 8-byte chunks as big-endian integers; on `eq` hand back the tails -/
def cmpChunks : Nat → Bytes → Bytes → Ordering × Bytes × Bytes
  | 0, a, b => (.eq, a, b)
  | n + 1, a, b =>
    let x := beNat (a.take 8)
    let y := beNat (b.take 8)
    if x < y then (.lt, a, b) else if x > y then (.gt, a, b) else cmpChunks n (a.drop 8) (b.drop 8)

/-- the comparison of the first `m = min(len a, len b)` bytes: 8-byte big-endian chunks when `m > 8`, then single bytes -/
def cmpCommon (m : Nat) (a b : Bytes) : Ordering :=
  if m > 8 then
    match cmpChunks (m / 8) a b with
    | (.eq, a', b') => cmpPrefix (m % 8) a' b'
    | (o, _, _) => o
  else cmpPrefix m a b

/-- `BlobComparator::partial_cmp_blobs` on the data parts of two well-formed blobs. -/
def cmp (a b : Bytes) : Ordering :=
  match cmpCommon (min a.length b.length) a b with
  | .eq => compare a.length b.length
  | o => o

/-- lexicographic order on byte strings — the specification of `cmp` -/
def lex : Bytes → Bytes → Ordering
  | [], [] => .eq
  | [], _ :: _ => .lt
  | _ :: _, [] => .gt
  | x :: xs, y :: ys =>
    if x.toNat < y.toNat then .lt else if x.toNat > y.toNat then .gt else lex xs ys

end Blob

/-! ## Values (types/mod.rs, numeric.rs, bool.rs; derive in axmos-derive/src/datatype.rs) -/

/-- `DataTypeKind` with its `repr(u8)` discriminants 0..8 -/
inductive Kind
  | null | bool | int | bigint | uint | biguint | float | double | blob
  deriving Repr, DecidableEq

def Kind.all : List Kind := [.null, .bool, .int, .bigint, .uint, .biguint, .float, .double, .blob]

def Kind.name : Kind → String
  | .null => "null" | .bool => "bool" | .int => "int" | .bigint => "bigint" | .uint => "uint"
  | .biguint => "biguint" | .float => "float" | .double => "double" | .blob => "blob"

def Kind.tag : Kind → Nat
  | .null => 0 | .bool => 1 | .int => 2 | .bigint => 3 | .uint => 4 | .biguint => 5 | .float => 6 | .double => 7
  | .blob => 8

/-- `TypeClass::SIZE` -/
def Kind.size : Kind → Option Nat
  | .bool => some 1
  | .int | .uint | .float => some 4
  | .bigint | .biguint | .double => some 8
  | .null | .blob => none

/-- `TypeClass::ALIGN` -/
def Kind.align : Kind → Nat
  | .int | .uint | .float => 4
  | .bigint | .biguint | .double => 8
  | .null | .bool | .blob => 1

def Kind.isNumeric : Kind → Bool
  | .int | .bigint | .uint | .biguint | .float | .double => true
  | _ => false

def Kind.isInteger : Kind → Bool
  | .int | .bigint | .uint | .biguint => true
  | _ => false

/-- `DataType`. Integers are mathematical integers (range in `Wf`), floats are IEEE bit patterns,
    a blob is its data bytes (the length prefix is added by `serialize`). -/
inductive Value
  | null
  | bool (b : Bool)
  | int (i : Int)
  | bigint (i : Int)
  | uint (n : Nat)
  | biguint (n : Nat)
  | float (bits : Nat)
  | double (bits : Nat)
  | blob (data : Bytes)
  deriving Repr, DecidableEq

def Value.kind : Value → Kind
  | .null => .null | .bool _ => .bool | .int _ => .int | .bigint _ => .bigint | .uint _ => .uint
  | .biguint _ => .biguint | .float _ => .float | .double _ => .double | .blob _ => .blob

/-- the values a Rust `DataType` can hold -/
def Value.Wf : Value → Prop
  | .int i => -2147483648 ≤ i ∧ i < 2147483648
  | .bigint i => VarInt.InI64 i
  | .uint n => n < 4294967296
  | .biguint n => n < 18446744073709551616
  | .float b => b < 4294967296
  | .double b => b < 18446744073709551616
  | .blob d => d.length < 9223372036854775808
  | _ => True

instance (v : Value) : Decidable v.Wf := by
  cases v <;> unfold Value.Wf <;> infer_instance

/-- the integer range of an integer kind -/
def Kind.intRange : Kind → Option (Int × Int)
  | .int => some (-2147483648, 2147483647)
  | .bigint => some (-9223372036854775808, 9223372036854775807)
  | .uint => some (0, 4294967295)
  | .biguint => some (0, 18446744073709551615)
  | _ => none

/-- the mathematical integer held by an integer value -/
def Value.intVal : Value → Option Int
  | .int i | .bigint i => some i
  | .uint n | .biguint n => some (n : Int)
  | _ => none

def Value.ofInt : Kind → Int → Value
  | .int, i => .int i
  | .bigint, i => .bigint i
  | .uint, i => .uint i.toNat
  | .biguint, i => .biguint i.toNat
  | _, _ => .null

/-! ### two's complement -/
def toU32 (i : Int) : Nat := (i % 4294967296).toNat
def toU64 (i : Int) : Nat := (i % 18446744073709551616).toNat
def ofU32 (n : Nat) : Int := if n < 2147483648 then (n : Int) else (n : Int) - 4294967296
def ofU64 (n : Nat) : Int := if n < 9223372036854775808 then (n : Int) else (n : Int) - 18446744073709551616

/-! ### serialize / write_to / deserialize (types/core.rs, blob.rs, bool.rs) -/

/-- `DataType::serialize` (the bytes `write_to` puts at the aligned cursor) -/
def serialize : Value → Except Err Bytes
  | .null => .error .notSupported
  | .bool b => .ok [if b then 1 else 0]
  | .int i => .ok (le32 (toU32 i))
  | .bigint i => .ok (le64 (toU64 i))
  | .uint n => .ok (le32 n)
  | .biguint n => .ok (le64 n)
  | .float b => .ok (le32 b)
  | .double b => .ok (le64 b)
  | .blob d => .ok (Blob.encode d)

/-- `FixedSizeType::aligned_offset` (alignments are powers of two) -/
def alignUp (cursor align : Nat) : Nat := (cursor + align - 1) / align * align

/-- `DataType::write_to(buf, cursor)`: the buffer afterwards and the new cursor. `none` = the value does not fit
    (the code panics on the slice index; callers size the buffer first). -/
def writeTo (D : Defects) (v : Value) (buf : Bytes) (cursor : Nat) : Except Err (Option (Bytes × Nat)) :=
  match serialize v with
  | .error e => .error e
  | .ok bs =>
    let at_ := alignUp cursor v.kind.align
    if buf.length < at_ + bs.length then .ok none
    else if D.boolWriteWholeTail ∧ v.kind = .bool ∧ buf.length ≠ cursor + 1 then .error .slicePanic
    else .ok (some (buf.take at_ ++ bs ++ buf.drop (at_ + bs.length), at_ + bs.length))

/-- `DataTypeKind::deserialize(buf, cursor)`: the value and the new cursor. A buffer too short for a fixed-size
    value is `eof` in the model (the code panics on the slice index; never reached for buffers that were written). -/
def deserialize (D : Defects) (k : Kind) (buf : Bytes) (cursor : Nat) : Except Err (Value × Nat) :=
  match k with
  | .null => .error .notSupported
  | .bool =>
    match buf.drop cursor with
    | [] => .error .eof
    | b :: _ => .ok (.bool (b.toNat != 0), cursor + 1)
  | .blob =>
    match Blob.decode D (buf.drop cursor) with
    | .ok (d, used, _) => .ok (.blob d, cursor + used)
    | .error e => .error e
  | .int | .uint | .float =>
    let at_ := alignUp cursor 4
    match take32 (buf.drop at_) with
    | none => .error .eof
    | some (n, _) =>
      .ok ((match k with | .int => .int (ofU32 n) | .uint => .uint n | _ => .float n), at_ + 4)
  | .bigint | .biguint | .double =>
    let at_ := alignUp cursor 8
    match take64 (buf.drop at_) with
    | none => .error .eof
    | some (n, _) =>
      .ok ((match k with | .bigint => .bigint (ofU64 n) | .biguint => .biguint n | _ => .double n), at_ + 8)

/-! ### IEEE 754 binary32 / binary64 on bit patterns -/

/-- `m · 2^sh` rounded to the nearest integer, ties to even -/
def roundShift (m : Nat) (sh : Int) : Nat :=
  if 0 ≤ sh then m * 2 ^ sh.toNat
  else
    let s := (-sh).toNat
    let t := m / 2 ^ s
    let r := m % 2 ^ s
    let half := 2 ^ (s - 1)
    if r > half ∨ (r = half ∧ t % 2 = 1) then t + 1 else t

structure FloatFmt where
  ebits : Nat
  mbits : Nat
  deriving Repr, DecidableEq

def f32 : FloatFmt := ⟨8, 23⟩
def f64 : FloatFmt := ⟨11, 52⟩

namespace FloatFmt
variable (f : FloatFmt)
def bias : Nat := 2 ^ (f.ebits - 1) - 1
/-- the all-ones exponent field (infinities and NaNs) -/
def emax : Nat := 2 ^ f.ebits - 1
def signBit : Nat := 2 ^ (f.ebits + f.mbits)
def isNeg (bits : Nat) : Bool := bits / f.signBit % 2 == 1
/-- bits without the sign -/
def mag (bits : Nat) : Nat := bits % f.signBit
def expField (bits : Nat) : Nat := bits / 2 ^ f.mbits % 2 ^ f.ebits
def frac (bits : Nat) : Nat := bits % 2 ^ f.mbits
def infMag : Nat := f.emax * 2 ^ f.mbits
def isNaN (bits : Nat) : Bool := f.mag bits > f.infMag
def isInf (bits : Nat) : Bool := f.mag bits == f.infMag
def isFinite (bits : Nat) : Bool := f.mag bits < f.infMag
/-- integer significand of a finite value -/
def sig (bits : Nat) : Nat := if f.expField bits = 0 then f.frac bits else 2 ^ f.mbits + f.frac bits
/-- exponent of the unit in the last place: |value| = sig · 2^qexp -/
def qexp (bits : Nat) : Int := (max (f.expField bits) 1 : Nat) - (f.bias + f.mbits : Nat)
/-- the quiet bit of a NaN -/
def quietBit : Nat := 2 ^ (f.mbits - 1)

/-- Round `m · 2^e` to the nearest representable magnitude, ties to even, overflow to infinity: the IEEE
    default rounding that `as f32` / `as f64` perform. Result: magnitude bits (exponent field and fraction). -/
def roundMag (m : Nat) (e : Int) : Nat :=
  if m = 0 then 0 else
  let E : Int := (m.log2 : Int) + e                       -- m·2^e ∈ [2^E, 2^(E+1))
  let emin : Int := 1 - (f.bias : Int)
  let g : Int := max E emin                               -- the binade the result is rounded in (emin for subnormals)
  -- significand in units of the last place 2^(g − mbits); exponent field k+1 with fraction M − 2^mbits (normal) or
  -- field 0 with fraction M (subnormal) are both k·2^mbits + M; a carry out of the significand lands in the
  -- exponent by itself
  let k : Nat := (g + (f.bias : Int) - 1).toNat
  min (k * 2 ^ f.mbits + roundShift m (e - (g - (f.mbits : Int)))) f.infMag

end FloatFmt

/-- `i64 as f64`, `u64 as f32`, …: exact integer → nearest float -/
def intToFloat (f : FloatFmt) (i : Int) : Nat :=
  (if i < 0 then f.signBit else 0) + f.roundMag i.natAbs 0

/-- `f32 as f64` (exact; a NaN keeps sign and payload and becomes quiet, as x86 `cvtss2sd` does) -/
def widen (b : Nat) : Nat :=
  let s := if f32.isNeg b then f64.signBit else 0
  if f32.isNaN b then s + f64.infMag + f64.quietBit + (f32.frac b % f32.quietBit) * 536870912
  else if f32.isInf b then s + f64.infMag
  else s + f64.roundMag (f32.sig b) (f32.qexp b)

/-- `f64 as f32` (round to nearest even; NaN keeps sign and the top payload bits and becomes quiet, `cvtsd2ss`) -/
def narrow (b : Nat) : Nat :=
  let s := if f64.isNeg b then f32.signBit else 0
  if f64.isNaN b then s + f32.infMag + f32.quietBit + (f64.frac b / 536870912) % f32.quietBit
  else if f64.isInf b then s + f32.infMag
  else s + f32.roundMag (f64.sig b) (f64.qexp b)

/-- the `f64` every numeric value is promoted to by `to_f64()` (`inner.0 as f64`) -/
def Value.toF64 : Value → Option Nat
  | .int i | .bigint i => some (intToFloat f64 i)
  | .uint n | .biguint n => some (intToFloat f64 (n : Int))
  | .float b => some (widen b)
  | .double b => some b
  | _ => none

/-- `f64::trunc` of a finite value, as an exact integer -/
def truncF64 (b : Nat) : Int :=
  let m := f64.sig b
  let q := f64.qexp b
  let t : Nat := if 0 ≤ q then m * 2 ^ q.toNat else m / 2 ^ (-q).toNat
  if f64.isNeg b then -(t : Int) else (t : Int)

/-- `f64_to_signed` / `f64_to_unsigned` (types/numeric.rs) for the target integer kind -/
def floatToInt (D : Defects) (k : Kind) (b : Nat) : Option Value :=
  match k.intRange with
  | none => none
  | some (lo, hi) =>
    if !f64.isFinite b then none
    else
      let t := truncF64 b
      let unsigned := k == .uint || k == .biguint
      -- `value < 0.0`: any negative value except -0.0
      if unsigned ∧ f64.isNeg b ∧ f64.mag b ≠ 0 then none
      else if lo ≤ t ∧ t ≤ hi then some (Value.ofInt k t)
      else if D.castSaturates ∧ (k == .bigint || k == .biguint) ∧ t = hi + 1 then some (Value.ofInt k hi)
      else none

/-- `DataType::try_cast` -/
def tryCast (D : Defects) (v : Value) (k : Kind) : Except Err Value :=
  if v.kind = k then .ok v
  else match v, k with
  | .null, _ => .ok .null
  -- integer → integer: checked conversions
  | .int _, .int | .int _, .bigint | .int _, .uint | .int _, .biguint
  | .bigint _, .int | .bigint _, .bigint | .bigint _, .uint | .bigint _, .biguint
  | .uint _, .int | .uint _, .bigint | .uint _, .uint | .uint _, .biguint
  | .biguint _, .int | .biguint _, .bigint | .biguint _, .uint | .biguint _, .biguint =>
    match v.intVal, k.intRange with
    | some i, some (lo, hi) => if lo ≤ i ∧ i ≤ hi then .ok (Value.ofInt k i) else .error .badCast
    | _, _ => .error .badCast
  -- integer → float: `as`, round to nearest even
  | .int i, .float | .bigint i, .float => .ok (.float (intToFloat f32 i))
  | .uint n, .float | .biguint n, .float => .ok (.float (intToFloat f32 (n : Int)))
  | .int i, .double | .bigint i, .double => .ok (.double (intToFloat f64 i))
  | .uint n, .double | .biguint n, .double => .ok (.double (intToFloat f64 (n : Int)))
  -- float → integer: truncate, error outside the range
  | .float b, .int | .float b, .bigint | .float b, .uint | .float b, .biguint =>
    match floatToInt D k (widen b) with
    | some w => .ok w
    | none => .error .badCast
  | .double b, .int | .double b, .bigint | .double b, .uint | .double b, .biguint =>
    match floatToInt D k b with
    | some w => .ok w
    | none => .error .badCast
  | .float b, .double => .ok (.double (widen b))
  | .double b, .float => .ok (.float (narrow b))
  -- bool ↔ numeric
  | .bool b, .int => .ok (.int (if b then 1 else 0))
  | .bool b, .bigint => .ok (.bigint (if b then 1 else 0))
  | .bool b, .uint => .ok (.uint (if b then 1 else 0))
  | .bool b, .biguint => .ok (.biguint (if b then 1 else 0))
  | .bool b, .float => .ok (.float (if b then 1065353216 else 0))
  | .bool b, .double => .ok (.double (if b then 4607182418800017408 else 0))
  | .int i, .bool | .bigint i, .bool => .ok (.bool (i != 0))
  | .uint n, .bool | .biguint n, .bool => .ok (.bool (n != 0))
  | .float b, .bool => .ok (.bool (f32.mag b != 0))
  | .double b, .bool => .ok (.bool (f64.mag b != 0))
  | _, _ => .error .badCast

/-! ## Equality, ordering, hashing (types/macros/datatype.rs) -/

/-- Exact value of a numeric datum on the extended real line, finite values in units of 2^-1074 (every finite
    `f64` and `f32`, and every integer, is an integer multiple of 2^-1074, so nothing is rounded). -/
inductive Ext
  | negInf
  | fin (z : Int)
  | posInf
  | nan
  deriving Repr, DecidableEq

def Ext.rank : Ext → Int
  | .negInf => 0 | .fin _ => 1 | .posInf => 2 | .nan => 3

/-- three-way comparison of integers -/
def icmp (a b : Int) : Ordering := if a < b then .lt else if a = b then .eq else .gt

/-- the total order of the specification: −∞ < finite values by size < +∞ < NaN, all NaNs equal -/
def Ext.cmp : Ext → Ext → Ordering
  | .fin a, .fin b => icmp a b
  | a, b => icmp a.rank b.rank

namespace FloatFmt
variable (f : FloatFmt)
/-- 2^scaleOff converts units of the format's smallest subnormal into units of 2^-1074 -/
def scaleOff : Nat := 1075 - (f.bias + f.mbits)
/-- |value| in units of 2^-1074 -/
def scaledMag (bits : Nat) : Nat := f.sig bits * 2 ^ (max (f.expField bits) 1 - 1 + f.scaleOff)
/-- exact value of a bit pattern -/
def ext (bits : Nat) : Ext :=
  if f.isNaN bits then .nan
  else if f.isInf bits then (if f.isNeg bits then .negInf else .posInf)
  else .fin (if f.isNeg bits then -(f.scaledMag bits : Int) else (f.scaledMag bits : Int))
end FloatFmt

/-- the integer 1 in units of 2^-1074 -/
def unitScale : Nat := 2 ^ 1074

/-- exact mathematical value of a numeric `DataType` -/
def Value.ext : Value → Option Ext
  | .int i | .bigint i => some (.fin (i * (unitScale : Int)))
  | .uint n | .biguint n => some (.fin ((n : Int) * (unitScale : Int)))
  | .float b => some (f32.ext b)
  | .double b => some (f64.ext b)
  | _ => none

/-- sign-magnitude reading of an `f64` bit pattern: the key IEEE comparison sorts non-NaN values by (±0 ↦ 0) -/
def f64Key (b : Nat) : Int := if f64.isNeg b then -(f64.mag b : Int) else (f64.mag b : Int)

/-- `f64::partial_cmp` on bit patterns: unordered if either side is NaN, otherwise by sign and magnitude
    (exponent field, then fraction) -/
def ieeeCmp (a b : Nat) : Option Ordering :=
  if f64.isNaN a || f64.isNaN b then none else some (icmp (f64Key a) (f64Key b))

/-- comparison of two numeric values -/
def numCmp (D : Defects) (a b : Value) : Option Ordering :=
  let ext' (v : Value) : Option Ext := if D.numericViaF64 then v.toF64.map f64.ext else v.ext
  match ext' a, ext' b with
  | some x, some y =>
    if D.nanUnordered ∧ (x = .nan ∨ y = .nan) then none else some (Ext.cmp x y)
  | _, _ => none

/-- 0 = NULL, 1 = bool, 2 = numeric, 3 = blob: values compare only within a class -/
def Value.cls : Value → Nat
  | .null => 0 | .bool _ => 1 | .blob _ => 3 | _ => 2

/-- `PartialOrd for DataType` -/
def partialCmp (D : Defects) : Value → Value → Option Ordering
  | .null, _ | _, .null => none
  | .bool a, .bool b => some (icmp (if a then 1 else 0) (if b then 1 else 0))
  | .blob a, .blob b => some (Blob.cmp a b)
  | a, b => if a.cls = 2 ∧ b.cls = 2 then numCmp D a b else none

/-- `PartialEq for DataType` -/
def eq (D : Defects) : Value → Value → Bool
  | .null, .null => true
  | .null, _ | _, .null => false
  | .bool a, .bool b => a == b
  | .blob a, .blob b => Blob.cmp a b == .eq
  | a, b => if a.cls = 2 ∧ b.cls = 2 then numCmp D a b == some .eq else false

/-- one representative per equality class of `f64`: +0.0 for both zeros, one quiet NaN for all NaNs -/
def canonF64 (b : Nat) : Nat :=
  if f64.isNaN b then 9221120237041090560 else if f64.mag b = 0 then 0 else b

/-- the byte stream `Hash for DataType` feeds to the hasher -/
def hashKey (D : Defects) : Value → Bytes
  | .null => [0]
  | .bool b => [1, if b then 1 else 0]
  | .blob d => 3 :: (le64 (Blob.encode d).length ++ Blob.encode d)
  | v => match v.toF64 with
    | some b => 2 :: le64 (if D.hashRawBits then b else canonF64 b)
    | none => []

/-! ## ORDER BY (runtime/ops/sort.rs `compare_keys`, one key) -/

/-- the comparator `Sort` hands to `sort_by` for an ascending key with NULLs first: unordered pairs count as equal -/
def sortCmp (D : Defects) (a b : Value) : Ordering :=
  match a, b with
  | .null, .null => .eq
  | .null, _ => .lt
  | _, .null => .gt
  | a, b => (partialCmp D a b).getD .eq

/-! ## Key comparison in the B+tree (tree/cell_ops.rs `CellComparator::compare_keys`) -/

/-- The bytes `TupleBuilder::write_initial` produces for a list of key values when the first one is written at
    `cursor`: each value at the next multiple of its alignment (zero padding in between), one after the other. -/
def layoutKeys (cursor : Nat) : List Value → Bytes
  | [] => []
  | v :: vs =>
    match serialize v with
    | .ok bs =>
      let at_ := alignUp cursor v.kind.align
      List.replicate (at_ - cursor) 0 ++ bs ++ layoutKeys (at_ + bs.length) vs
    | .error _ => []

/-- `compare_keys`: walk the key columns, deserializing the search key from `target` at `tcur` and the stored key from
    `cell` at `ccur`, and compare them as `DataTypeRef`s; the first non-equal column decides. -/
def compareKeys (D : Defects) : List Kind → Bytes → Nat → Bytes → Nat → Except Err Ordering
  | [], _, _, _, _ => .ok .eq
  | k :: ks, target, tcur, cell, ccur =>
    match deserialize D k target tcur with
    | .error e => .error e
    | .ok (tv, tnext) =>
      match deserialize D k cell ccur with
      | .error e => .error e
      | .ok (cv, cnext) =>
        match partialCmp D tv cv with
        | some .eq => compareKeys D ks target tnext cell cnext
        | some o => .ok o
        | none => .error .nullKey

/-- the order on key tuples that the index is meant to have: column by column by value -/
def lexValues (D : Defects) : List Value → List Value → Option Ordering
  | [], [] => some .eq
  | t :: ts, c :: cs =>
    match partialCmp D t c with
    | some .eq => lexValues D ts cs
    | o => o
  | _, _ => none

/-! ## What SQL does with one column of values (runtime/ops/sort.rs, distinct.rs, aggregate.rs, eval.rs) -/

/-- stable insertion sort by a three-way comparator -/
def insertBy {α : Type} (cmp : α → α → Ordering) (x : α) : List α → List α
  | [] => [x]
  | y :: ys => if cmp x y == .lt then x :: y :: ys else y :: insertBy cmp x ys

def sortByCmp {α : Type} (cmp : α → α → Ordering) (xs : List α) : List α :=
  xs.foldl (fun acc x => insertBy cmp x acc) []

/-- `ORDER BY v ASC`: the binder sets `nulls_first = false`, so NULLs come last -/
def orderAsc (D : Defects) (a b : Value) : Ordering :=
  match a, b with
  | .null, .null => .eq
  | .null, _ => .gt
  | _, .null => .lt
  | a, b => (partialCmp D a b).getD .eq

/-- `ORDER BY v DESC` reverses the whole verdict, NULL placement included -/
def orderDesc (D : Defects) (a b : Value) : Ordering := (orderAsc D a b).swap

/-- `SELECT DISTINCT` / `GROUP BY`: one representative per equality class, with its multiplicity
    (the hash containers group by `Eq` + `Hash`; rows whose hashes differ are never merged) -/
def groupCount (D : Defects) (vs : List Value) : List (Value × Nat) :=
  vs.foldl (fun acc v =>
    if acc.any (fun (w, _) => eq D w v && hashKey D w == hashKey D v) then
      acc.map (fun (w, n) => if eq D w v && hashKey D w == hashKey D v then (w, n + 1) else (w, n))
    else acc ++ [(v, 1)]) []

/-! ## Constants and tables of the code that the model relies on (checked against `Generated/Value.lean`) -/

structure Params where
  /-- `MAX_VARINT_LEN` -/
  maxVarintLen : Nat
  /-- per `DataTypeKind`: name, `repr(u8)` discriminant, `SIZE`, `ALIGN`, `is_numeric` -/
  kinds : List (String × Nat × Option Nat × Nat × Bool)
  /-- `Tuple::keys_offset(1)`: tuple header plus one null-bitmap byte -/
  keysOffset1 : Nat
  /-- the cast matrix: pairs (from, to) of discriminants for which `try_cast` of a sample value succeeds -/
  castOk : List (Nat × Nat)
  deriving Repr, DecidableEq

/-- the sample value of each kind that the cast matrix is evaluated on (1 / true / "a") -/
def Kind.sample : Kind → Value
  | .null => .null | .bool => .bool true | .int => .int 1 | .bigint => .bigint 1 | .uint => .uint 1
  | .biguint => .biguint 1 | .float => .float 1065353216 | .double => .double 4607182418800017408 | .blob => .blob [97]

/-- what the model assumes -/
def stdParams : Params :=
  { maxVarintLen := VarInt.maxLen
    kinds := Kind.all.map fun k => (k.name, k.tag, k.size, k.align, k.isNumeric)
    keysOffset1 := 25
    castOk := (Kind.all.flatMap fun a => Kind.all.map fun b => (a, b)).filterMap fun (a, b) =>
      match tryCast {} a.sample b with
      | .ok _ => some (a.tag, b.tag)
      | .error _ => none }

end AxVerif.Value
