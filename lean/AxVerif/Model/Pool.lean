/-
  Worker-pool model (C16): `multithreading/threadpool.rs` + `multithreading/runner.rs` as a state machine.

  A pool has a fixed number of workers and one FIFO queue.  `submit k` appends a job of kind `k` (the job
  `Database::execute` hands to `SharedTaskRunner::run_with_result`); its caller blocks until the job's
  answer exists.  An idle live worker `take`s the job at the head of the queue; a running job `finish`es and
  its caller is answered: `ok`, `err`, or — for a job that panicked — an error (`panicAsError`: the result
  channel is closed by the unwinding job, `rx.recv()` fails, the caller gets `TaskError::Io(BrokenPipe)`).

  Defect flag `panicKillsWorker` = the shipped worker loop (no `catch_unwind`, threadpool.rs:122-143): the
  worker that ran a panicking job is gone for good.  With the flag off the worker goes back to idle.

  The schedule (which enabled step happens next) is not part of the model: theorems quantify over all
  step sequences.  `exec`/`outcomes` below run one canonical schedule for the line-protocol driver.

  Core Lean only.
-/
namespace AxVerif.Pool

inductive Kind
  | ok | err | panic
  deriving DecidableEq, Repr

/-- what the caller of a job receives -/
inductive Resp
  | ok | err | panicAsError
  deriving DecidableEq, Repr

structure Defects where
  /-- shipped: a panicking job terminates the worker thread that ran it -/
  panicKillsWorker : Bool := false
  deriving DecidableEq, Repr

def Defects.none : Defects := {}

def respOf : Kind → Resp
  | .ok => .ok
  | .err => .err
  | .panic => .panicAsError

structure Job where
  id : Nat
  kind : Kind
  deriving DecidableEq, Repr

structure State where
  /-- live workers waiting for a job -/
  idle : Nat
  /-- workers that have terminated -/
  dead : Nat
  /-- jobs being run, each by one live worker -/
  busy : List Job
  /-- FIFO queue of submitted jobs no worker has taken yet -/
  queue : List Job
  /-- answers delivered to callers, oldest first -/
  resp : List (Nat × Resp)
  /-- id of the next job = number of jobs submitted so far -/
  next : Nat
  deriving Repr

def init (n : Nat) : State := { idle := n, dead := 0, busy := [], queue := [], resp := [], next := 0 }

/-- live workers = idle + running -/
def State.live (s : State) : Nat := s.idle + s.busy.length

inductive Step
  /-- a caller submits a job and blocks -/
  | submit (k : Kind)
  /-- an idle worker takes the head of the queue -/
  | take
  /-- the `i`-th running job ends -/
  | finish (i : Nat)
  deriving DecidableEq, Repr

def Step.internal : Step → Bool
  | .submit _ => false
  | _ => true

def submit (s : State) (k : Kind) : State :=
  { s with queue := s.queue ++ [⟨s.next, k⟩], next := s.next + 1 }

def take (s : State) : Option State :=
  match s.queue with
  | [] => none
  | j :: q => if s.idle = 0 then none else some { s with idle := s.idle - 1, queue := q, busy := s.busy ++ [j] }

def finish (D : Defects) (s : State) (i : Nat) : Option State :=
  match s.busy.drop i with
  | [] => none
  | j :: post =>
    let busy' := s.busy.take i ++ post
    let resp' := s.resp ++ [(j.id, respOf j.kind)]
    if D.panicKillsWorker && j.kind == .panic then
      some { s with busy := busy', resp := resp', dead := s.dead + 1 }
    else
      some { s with busy := busy', resp := resp', idle := s.idle + 1 }

/-- one step; `none` = the step is not enabled in `s` -/
def step (D : Defects) (s : State) : Step → Option State
  | .submit k => some (submit s k)
  | .take => take s
  | .finish i => finish D s i

/-- a whole schedule; `none` = some step of it was not enabled -/
def run (D : Defects) (s : State) : List Step → Option State
  | [] => some s
  | st :: rest =>
    match step D s st with
    | none => none
    | some s' => run D s' rest

/-- kinds of the submitted jobs, in submission order: job `i` is `(submitted tr)[i]` -/
def submitted : List Step → List Kind
  | [] => []
  | .submit k :: rest => k :: submitted rest
  | _ :: rest => submitted rest

/-- the answer the caller of job `id` has received, if any (first one, should there be several) -/
def response (s : State) (id : Nat) : Option Resp :=
  match s.resp.find? (fun p => p.1 == id) with
  | some p => some p.2
  | none => none

/-- nothing can happen without a new `submit` -/
def quiescent (s : State) : Bool :=
  s.busy.isEmpty && (s.queue.isEmpty || s.idle == 0)

/-- termination measure of the internal steps: a queued job needs two of them, a running job one -/
def measure (s : State) : Nat := 2 * s.queue.length + s.busy.length

/-! ### canonical schedule used by the driver -/

/-- run internal steps until quiescent: idle workers take jobs while they can, else the oldest running job ends -/
def drain (D : Defects) : Nat → State → State
  | 0, s => s
  | fuel + 1, s =>
    match take s with
    | some s' => drain D fuel s'
    | none =>
      match finish D s 0 with
      | some s' => drain D fuel s'
      | none => s

def settle (D : Defects) (s : State) : State := drain D (measure s + 1) s

inductive Op
  | call (k : Kind)
  | burst (ks : List Kind)
  deriving Repr

def execOp (D : Defects) (s : State) : Op → State
  | .call k => settle D (submit s k)
  | .burst ks => settle D (ks.foldl submit s)

def exec (D : Defects) (n : Nat) (ops : List Op) : State := ops.foldl (execOp D) (init n)

/-- per job, in submission order: its answer, or `none` = the caller is still blocked (and will stay so) -/
def outcomes (s : State) : List (Option Resp) := (List.range s.next).map (response s)

end AxVerif.Pool
