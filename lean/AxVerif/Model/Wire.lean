/-
  Model of crates/axmos-db/src/tcp/mod.rs : Request / Response encoding and decoding,
  length-prefixed strings, framing with the 16 MiB cap, `String::from_utf8_lossy`.

  Strings are modelled as their UTF-8 byte lists.  `f64` is its 64 raw bits, `usize` a `UInt64`.
  The decoder also returns the list of `Vec::with_capacity` requests it makes, which is how the
  "no unbounded allocation" part of C20 is expressed.
-/
import AxVerif.Model.Bytes
namespace AxVerif.Wire
open AxVerif

/-- Parameters obtained from the code on every run (see `Generated.lean`). -/
structure Params where
  protocolVersion : Nat
  maxMessageSize : Nat
deriving Repr, DecidableEq

/-- Defect switches.  `capUnbounded = true` is the behaviour of the pinned commit:
    `Vec::with_capacity(n)` with `n` taken straight from the wire. -/
structure Defects where
  capUnbounded : Bool := false
deriving Repr, DecidableEq

inductive Request where
  | create (path : Bytes)
  | open_ (path : Bytes)
  | sql (s : Bytes)
  | begin_
  | rollback
  | commit
  | explain (s : Bytes)
  | analyze (rateBits : UInt64) (maxRows : UInt64)
  | vacuum
  | close
  | ping
  | shutdown
deriving Repr, DecidableEq

inductive Response where
  | ok (m : Bytes)
  | error (m : Bytes)
  | rows (columns : List Bytes) (data : List (List Bytes))
  | sessionStarted
  | sessionEnd
  | rowsAffected (n : UInt64)
  | ddl (m : Bytes)
  | explain (m : Bytes)
  | vacuumComplete (tables bytes txns : UInt64)
  | pong
  | goodbye
  | shuttingDown
deriving Repr, DecidableEq

inductive WireErr where
  | invalidMessage
  | versionMismatch
  | unknownCommand
  | unknownStatus
  | tooLarge
  | io
deriving Repr, DecidableEq

/-! ### `String::from_utf8_lossy` (maximal-subpart replacement, as `core::str::Utf8Chunks`) -/

def isCont (c : UInt8) : Bool := c.toNat / 64 = 2          -- c & 0xC0 == 0x80

def replacement : Bytes := [0xEF, 0xBF, 0xBD]

/-- second byte admissible after a 3-byte lead -/
def ok3 (b c : UInt8) : Bool :=
  let b := b.toNat; let c := c.toNat
  (b = 0xE0 && 0xA0 ≤ c && c ≤ 0xBF) ||
  (0xE1 ≤ b && b ≤ 0xEC && 0x80 ≤ c && c ≤ 0xBF) ||
  (b = 0xED && 0x80 ≤ c && c ≤ 0x9F) ||
  (0xEE ≤ b && b ≤ 0xEF && 0x80 ≤ c && c ≤ 0xBF)

/-- second byte admissible after a 4-byte lead -/
def ok4 (b c : UInt8) : Bool :=
  let b := b.toNat; let c := c.toNat
  (b = 0xF0 && 0x90 ≤ c && c ≤ 0xBF) ||
  (0xF1 ≤ b && b ≤ 0xF3 && 0x80 ≤ c && c ≤ 0xBF) ||
  (b = 0xF4 && 0x80 ≤ c && c ≤ 0x8F)

def width (b : UInt8) : Nat :=
  let n := b.toNat
  if n < 0x80 then 1
  else if 0xC2 ≤ n ∧ n ≤ 0xDF then 2
  else if 0xE0 ≤ n ∧ n ≤ 0xEF then 3
  else if 0xF0 ≤ n ∧ n ≤ 0xF4 then 4
  else 0

/-- `lossyFuel n bs`: `n` bounds the number of remaining bytes (every step consumes ≥ 1). -/
def lossyFuel : Nat → Bytes → Bytes
  | 0, _ => []
  | _, [] => []
  | n + 1, b :: rest =>
    match width b with
    | 1 => b :: lossyFuel n rest
    | 2 =>
      match rest with
      | c :: r1 => if isCont c then b :: c :: lossyFuel n r1 else replacement ++ lossyFuel n rest
      | [] => replacement
    | 3 =>
      match rest with
      | c1 :: r1 =>
        if ok3 b c1 then
          match r1 with
          | c2 :: r2 => if isCont c2 then b :: c1 :: c2 :: lossyFuel n r2 else replacement ++ lossyFuel n r1
          | [] => replacement
        else replacement ++ lossyFuel n rest
      | [] => replacement
    | 4 =>
      match rest with
      | c1 :: r1 =>
        if ok4 b c1 then
          match r1 with
          | c2 :: r2 =>
            if isCont c2 then
              match r2 with
              | c3 :: r3 =>
                if isCont c3 then b :: c1 :: c2 :: c3 :: lossyFuel n r3 else replacement ++ lossyFuel n r2
              | [] => replacement
            else replacement ++ lossyFuel n r1
          | [] => replacement
        else replacement ++ lossyFuel n rest
      | [] => replacement
    | _ => replacement ++ lossyFuel n rest

def lossy (bs : Bytes) : Bytes := lossyFuel bs.length bs

/-- The strings a Rust `String` can hold, seen through the decoder: fixed points of `lossy`. -/
def ValidStr (s : Bytes) : Prop := lossy s = s
instance (s : Bytes) : Decidable (ValidStr s) := inferInstanceAs (Decidable (lossy s = s))

/-! ### strings -/

def writeString (s : Bytes) : Bytes := le32 s.length ++ s

/-- `read_string_with_len`: the decoded string and the rest of the input. -/
def readString (d : Bytes) : Except WireErr (Bytes × Bytes) :=
  match take32 d with
  | none => .error .invalidMessage
  | some (len, rest) =>
    if rest.length < len then .error .invalidMessage
    else .ok (lossy (rest.take len), rest.drop len)

/-- `read_string`: ignores trailing bytes. -/
def readString1 (d : Bytes) : Except WireErr Bytes :=
  match readString d with
  | .ok (s, _) => .ok s
  | .error e => .error e

def readStrings : Nat → Bytes → Except WireErr (List Bytes × Bytes)
  | 0, d => .ok ([], d)
  | n + 1, d =>
    match readString d with
    | .error e => .error e
    | .ok (s, rest) =>
      match readStrings n rest with
      | .error e => .error e
      | .ok (ss, rest') => .ok (s :: ss, rest')

def readRows (cols : Nat) : Nat → Bytes → Except WireErr (List (List Bytes) × Bytes)
  | 0, d => .ok ([], d)
  | n + 1, d =>
    match readStrings cols d with
    | .error e => .error e
    | .ok (r, rest) =>
      match readRows cols n rest with
      | .error e => .error e
      | .ok (rs, rest') => .ok (r :: rs, rest')

/-! ### requests -/

def Request.encode (P : Params) : Request → Bytes
  | .create p => UInt8.ofNat P.protocolVersion :: 0x01 :: writeString p
  | .open_ p => UInt8.ofNat P.protocolVersion :: 0x02 :: writeString p
  | .sql s => UInt8.ofNat P.protocolVersion :: 0x03 :: writeString s
  | .explain s => UInt8.ofNat P.protocolVersion :: 0x04 :: writeString s
  | .analyze r m => UInt8.ofNat P.protocolVersion :: 0x05 :: (le64 r.toNat ++ le64 m.toNat)
  | .close => [UInt8.ofNat P.protocolVersion, 0x06]
  | .ping => [UInt8.ofNat P.protocolVersion, 0x07]
  | .vacuum => [UInt8.ofNat P.protocolVersion, 0x09]
  | .begin_ => [UInt8.ofNat P.protocolVersion, 0x0A]
  | .commit => [UInt8.ofNat P.protocolVersion, 0x0B]
  | .rollback => [UInt8.ofNat P.protocolVersion, 0x0C]
  | .shutdown => [UInt8.ofNat P.protocolVersion, 0xFF]

def strReq (f : Bytes → Request) (payload : Bytes) : Except WireErr Request :=
  match readString1 payload with
  | .ok s => .ok (f s)
  | .error e => .error e

def Request.decode (P : Params) : Bytes → Except WireErr Request
  | [] => .error .invalidMessage
  | v :: rest =>
    if v.toNat ≠ P.protocolVersion then .error .versionMismatch
    else match rest with
    | [] => .error .invalidMessage
    | cmd :: payload =>
      match cmd.toNat with
      | 0x01 => strReq .create payload
      | 0x02 => strReq .open_ payload
      | 0x03 => strReq .sql payload
      | 0x04 => strReq .explain payload
      | 0x05 =>
        match take64 payload with
        | none => .error .invalidMessage
        | some (r, p1) =>
          match take64 p1 with
          | none => .error .invalidMessage
          | some (m, _) => .ok (.analyze (UInt64.ofNat r) (UInt64.ofNat m))
      | 0x06 => .ok .close
      | 0x07 => .ok .ping
      | 0x09 => .ok .vacuum
      | 0x0A => .ok .begin_
      | 0x0B => .ok .commit
      | 0x0C => .ok .rollback
      | 0xFF => .ok .shutdown
      | _ => .error .unknownCommand

/-! ### responses -/

def Response.encode (P : Params) : Response → Bytes
  | .ok m => UInt8.ofNat P.protocolVersion :: 0x00 :: writeString m
  | .error m => UInt8.ofNat P.protocolVersion :: 0x01 :: writeString m
  | .rows cols data =>
    UInt8.ofNat P.protocolVersion :: 0x02 ::
      (le32 cols.length ++ (cols.map writeString).flatten ++
       le32 data.length ++ (data.map (fun r => (r.map writeString).flatten)).flatten)
  | .rowsAffected n => UInt8.ofNat P.protocolVersion :: 0x03 :: le64 n.toNat
  | .ddl m => UInt8.ofNat P.protocolVersion :: 0x04 :: writeString m
  | .explain m => UInt8.ofNat P.protocolVersion :: 0x05 :: writeString m
  | .pong => [UInt8.ofNat P.protocolVersion, 0x06]
  | .goodbye => [UInt8.ofNat P.protocolVersion, 0x07]
  | .shuttingDown => [UInt8.ofNat P.protocolVersion, 0x08]
  | .vacuumComplete a b c =>
    UInt8.ofNat P.protocolVersion :: 0x09 :: (le64 a.toNat ++ le64 b.toNat ++ le64 c.toNat)
  | .sessionStarted => [UInt8.ofNat P.protocolVersion, 0x0A]
  | .sessionEnd => [UInt8.ofNat P.protocolVersion, 0x0B]

def strResp (f : Bytes → Response) (payload : Bytes) : Except WireErr Response :=
  match readString1 payload with
  | .ok s => .ok (f s)
  | .error e => .error e

/-- Capacity actually requested for a vector announced to hold `n` elements when `avail` payload bytes remain. -/
def capReq (D : Defects) (n avail : Nat) : Nat := if D.capUnbounded then n else min n avail

/-- The `Vec::with_capacity` requests made while decoding a `Rows` payload
    (the repaired code bounds each by `payload.len()`). -/
def rowsAllocs (D : Defects) (payload : Bytes) : List Nat :=
  match take32 payload with
  | none => []
  | some (colCount, p1) =>
    capReq D colCount payload.length ::
    match readStrings colCount p1 with
    | .error _ => []
    | .ok (_, p2) =>
      match take32 p2 with
      | none => []
      | some (rowCount, _) =>
        capReq D rowCount payload.length ::
          (if rowCount = 0 then [] else [capReq D colCount payload.length])   -- one per row, all equal

def decodeRows (payload : Bytes) : Except WireErr Response :=
  match take32 payload with
  | none => .error .invalidMessage
  | some (colCount, p1) =>
    match readStrings colCount p1 with
    | .error e => .error e
    | .ok (cols, p2) =>
      match take32 p2 with
      | none => .error .invalidMessage
      | some (rowCount, p3) =>
        match readRows colCount rowCount p3 with
        | .error e => .error e
        | .ok (data, _) => .ok (.rows cols data)

def Response.decode (P : Params) : Bytes → Except WireErr Response
  | [] => .error .invalidMessage
  | [_] => .error .invalidMessage
  | v :: st :: payload =>
    if v.toNat ≠ P.protocolVersion then .error .versionMismatch
    else
      match st.toNat with
      | 0x00 => strResp .ok payload
      | 0x01 => strResp .error payload
      | 0x02 => decodeRows payload
      | 0x03 =>
        match take64 payload with
        | none => .error .invalidMessage
        | some (n, _) => .ok (.rowsAffected (UInt64.ofNat n))
      | 0x04 => strResp .ddl payload
      | 0x05 => strResp .explain payload
      | 0x06 => .ok .pong
      | 0x07 => .ok .goodbye
      | 0x08 => .ok .shuttingDown
      | 0x09 =>
        match take64 payload with
        | none => .error .invalidMessage
        | some (a, p1) =>
          match take64 p1 with
          | none => .error .invalidMessage
          | some (b, p2) =>
            match take64 p2 with
            | none => .error .invalidMessage
            | some (c, _) => .ok (.vacuumComplete (UInt64.ofNat a) (UInt64.ofNat b) (UInt64.ofNat c))
      | 0x0A => .ok .sessionStarted
      | 0x0B => .ok .sessionEnd
      | _ => .error .unknownStatus

def Response.decodeAllocs (P : Params) (D : Defects) : Bytes → List Nat
  | v :: st :: payload =>
    if v.toNat = P.protocolVersion ∧ st.toNat = 0x02 then rowsAllocs D payload else []
  | _ => []

/-! ### framing -/

def writeMessage (P : Params) (d : Bytes) : Except WireErr Bytes :=
  if d.length > P.maxMessageSize then .error .tooLarge else .ok (le32 d.length ++ d)

/-- `read_message` on a stream whose remaining content is `s`: the message and what is left of the stream.
    A short read is an I/O error (`read_exact`). -/
def readMessage (P : Params) (s : Bytes) : Except WireErr (Bytes × Bytes) :=
  match take32 s with
  | none => .error .io
  | some (len, rest) =>
    if len > P.maxMessageSize then .error .tooLarge
    else if rest.length < len then .error .io
    else .ok (rest.take len, rest.drop len)

/-- Reading messages off a stream until it ends or a frame is rejected (`fuel` bounds the number of frames:
    every accepted frame consumes at least its 4-byte prefix). -/
def readAllFuel (P : Params) : Nat → Bytes → List Bytes × WireErr
  | 0, _ => ([], .io)
  | fuel + 1, s =>
    match readMessage P s with
    | .error e => ([], e)
    | .ok (m, rest) =>
      let (ms, e) := readAllFuel P fuel rest
      (m :: ms, e)

def readAll (P : Params) (s : Bytes) : List Bytes × WireErr := readAllFuel P (s.length + 1) s

end AxVerif.Wire
