/-
  Dynamic catalog on top of `Model/Db.lean` (C15).  Core Lean only.

  The catalog is *data*: one row per relation in the table `$meta` of the same versioned row store,
  `[name, handle]`; `handle` points into an append-only heap of schema descriptors.  CREATE TABLE inserts a meta row,
  DROP TABLE deletes it, every ALTER (ADD / DROP COLUMN, ADD CONSTRAINT, CREATE UNIQUE INDEX, SET / DROP NOT NULL)
  appends a new descriptor and updates the handle.  Because meta rows are ordinary rows they are stamped, read through
  snapshots, committed and rolled back exactly like data — DDL is transactional by construction of the specification,
  and `UNIQUE(name)` on `$meta` is enforced by the same statement-level check and commit-time re-check as any key (C07).
  The data rows of a table carry the table's *internal name* (unique per CREATE), so the rows of a dropped table are
  never seen by a later table of the same name.  ADD / DROP COLUMN rewrite the rows the altering transaction sees
  (delete + insert with the new shape): existing rows stay readable with the new shape, added columns read as the
  default (or NULL), dropped columns disappear.

  Two machines as in `Db`: `step` over the MVCC store (`Db.State`, with the `Defects` of `Db`), `Spec.step` over the
  abstract snapshot-isolation machine (`Db.Spec.State`).  Both reuse the primitives of `Db` (`beginTxn`, `write`,
  `commitTxn`, `abortTxn`, `planStmt`); only the catalog handed to `planStmt` / `constraintsHold` is computed from the
  executing transaction's view instead of being fixed.
-/
import AxVerif.Model.Db
namespace AxVerif.Ddl
open AxVerif.Db

/-! ## catalog as data -/

def metaName : String := "$meta"

/-- schema of the meta table: `name` (NOT NULL, UNIQUE), `handle` -/
def metaSchema : TableSchema :=
  { name := metaName, cols := [⟨"name", .text, true, true⟩, ⟨"handle", .int, true, false⟩] }

/-- internal name of the table created by the operation with clock `c` (never a user-visible name) -/
def mkName (c : Nat) : String := String.ofList (List.replicate (c + 1) '#')

/-- append-only heap of schema descriptors, keyed by the clock of the DDL operation that wrote them;
    a descriptor's `name` is the table's internal name -/
abbrev Heap := List (Nat × TableSchema)

def Heap.get (h : Heap) (k : Nat) : Option TableSchema := (h.find? (fun e => e.1 == k)).map (·.2)

def handleOf (r : ARow) : Option Nat :=
  match r.vals with
  | [_, .int n] => if n ≥ 0 then some n.toNat else none
  | _ => none

def nameOf (r : ARow) : Option String :=
  match r.vals with
  | .text n :: _ => some n
  | _ => none

/-- the meta row of relation `name` in a view -/
def metaRow (v : View) (name : String) : Option ARow :=
  v.find? (fun r => r.table == metaName && nameOf r == some name)

/-- name resolution: the relation's meta row and its current descriptor -/
def resolve (h : Heap) (v : View) (name : String) : Option (ARow × TableSchema) :=
  match metaRow v name with
  | none => none
  | some r => match handleOf r with
    | none => none
    | some k => (h.get k).map (fun ts => (r, ts))

/-- the catalog a transaction with view `v` works with: the meta table and every relation it can resolve,
    under their internal names -/
def catOf (h : Heap) (v : View) : Catalog :=
  metaSchema :: v.filterMap (fun r =>
    if r.table == metaName then (handleOf r).bind (fun k => h.get k) else none)

/-! ## statements -/

inductive DStmt where
  | dml (st : Stmt)
  /-- `cols` already carry NOT NULL for PRIMARY KEY columns; `uniques` = multi-column keys as column indices -/
  | createTable (name : String) (cols : List Col) (uniques : List (List Nat))
  /-- CREATE UNIQUE INDEX / ALTER TABLE ADD CONSTRAINT UNIQUE | PRIMARY KEY over the named columns -/
  | addKey (t : String) (pk : Bool) (cols : List String)
  | addColumn (t : String) (c : Col) (default : Val)
  | dropColumn (t : String) (c : String)
  | setNotNull (t : String) (c : String)
  | dropNotNull (t : String) (c : String)
  | dropTable (t : String)
  deriving Repr

inductive DOp where
  | begin (s : String)
  | commit (s : String)
  | rollback (s : String)
  | drop (s : String)
  | exec (s : String) (st : DStmt)
  | auto (st : DStmt)
  /-- close the database and open it again: every session is dropped (rolled back); `ss` = the session names of the
      history (dropping a name that has no open session does nothing) -/
  | reopen (ss : List String)
  | tick
  | nop
  deriving Repr

def Stmt.table : Stmt → String
  | .sel t _ => t
  | .ins t _ => t
  | .upd t _ _ _ _ => t
  | .del t _ => t

def Stmt.withTable (t : String) : Stmt → Stmt
  | .sel _ p => .sel t p
  | .ins _ rows => .ins t rows
  | .upd _ c a x p => .upd t c a x p
  | .del _ p => .del t p

/-- result of planning a statement: row-level effects, answer, and a descriptor to add to the heap -/
structure DPlan where
  effs : List Effect
  out : SOut
  desc : Option TableSchema := none
  deriving Repr

def failD (e : Err) : DPlan := ⟨[], .err e, none⟩

def colPos (ts : TableSchema) (c : String) : Option Nat := (colIndex ts c).map (·.1)

def allSomeNat : List (Option Nat) → Option (List Nat)
  | [] => some []
  | none :: _ => none
  | some x :: xs => (allSomeNat xs).map (x :: ·)

def setNotNullAt (cols : List Col) (idxs : List Nat) (b : Bool) : List Col :=
  cols.zipIdx.map (fun (c, i) => if idxs.contains i then { c with notNull := b } else c)

/-- rewrite of the visible rows of a table with a new shape: delete + insert, new row ids `(clock, j)` -/
def rewriteRows (clock : Nat) (tname : String) (f : List Val → List Val) : List ARow → Nat → List Effect
  | [], _ => []
  | r :: rs, j =>
    if r.table == tname then .del r.rid :: .ins (clock, j) tname (f r.vals) :: rewriteRows clock tname f rs (j + 1)
    else rewriteRows clock tname f rs j

/-- key sets after removing column `i`: sets containing it are dropped, larger indices shift down -/
def dropFromKeys (i : Nat) (ks : List (List Nat)) : List (List Nat) :=
  (ks.filter (fun k => !k.contains i)).map (fun k => k.map (fun x => if x > i then x - 1 else x))

/-- rows of a table, as a view of their own (for checking a new constraint against existing rows) -/
def rowsOf (v : View) (tname : String) : View := v.filter (fun r => r.table == tname)

/-- plans a DDL statement against the transaction's view -/
def planDdl (h : Heap) (clock : Nat) (v : View) : DStmt → DPlan
  | .dml _ => failD .other
  | .createTable name cols uniques =>
    match metaRow v name with
    | some _ => failD .other
    | none =>
      ⟨[.ins (clock, 0) metaName [.text name, .int clock]], .okN 0, some { name := mkName clock, cols, uniques }⟩
  | .dropTable t =>
    match resolve h v t with
    | none => failD .notfound
    | some (m, _) => ⟨[.del m.rid], .okN 0, none⟩
  | .addKey t pk cols =>
    match resolve h v t with
    | none => failD .notfound
    | some (m, ts) =>
      match allSomeNat (cols.map (colPos ts)) with
      | none => failD .notfound
      | some idxs =>
        let ts' : TableSchema :=
          { ts with cols := if pk then setNotNullAt ts.cols idxs true else ts.cols, uniques := ts.uniques ++ [idxs] }
        if pk && !(rowsOf v ts.name).all (fun r => notNullOk ts'.cols r.vals) then failD .constraint
        else if !constraintsHold [ts'] (rowsOf v ts.name) then failD .other
        else ⟨[.upd m.rid 1 (.int clock)], .okN 0, some ts'⟩
  | .addColumn t c d =>
    match resolve h v t with
    | none => failD .notfound
    | some (m, ts) =>
      match colPos ts c.name with
      | some _ => failD .other
      | none =>
        ⟨.upd m.rid 1 (.int clock) :: rewriteRows clock ts.name (fun vals => vals ++ [d]) v 0, .okN 0,
          some { ts with cols := ts.cols ++ [c] }⟩
  | .dropColumn t c =>
    match resolve h v t with
    | none => failD .notfound
    | some (m, ts) =>
      match colPos ts c with
      | none => failD .notfound
      | some i =>
        ⟨.upd m.rid 1 (.int clock) :: rewriteRows clock ts.name (fun vals => vals.eraseIdx i) v 0, .okN 0,
          some { ts with cols := ts.cols.eraseIdx i, uniques := dropFromKeys i ts.uniques }⟩
  | .setNotNull t c =>
    match resolve h v t with
    | none => failD .notfound
    | some (m, ts) =>
      match colPos ts c with
      | none => failD .notfound
      | some i =>
        if (rowsOf v ts.name).any (fun r => r.vals.getD i .null == .null) then failD .constraint
        else ⟨[.upd m.rid 1 (.int clock)], .okN 0, some { ts with cols := setNotNullAt ts.cols [i] true }⟩
  | .dropNotNull t c =>
    match resolve h v t with
    | none => failD .notfound
    | some (m, ts) =>
      match colPos ts c with
      | none => failD .notfound
      | some i => ⟨[.upd m.rid 1 (.int clock)], .okN 0, some { ts with cols := setNotNullAt ts.cols [i] false }⟩

def addDesc (h : Heap) (clock : Nat) (d : Option TableSchema) : Heap :=
  match d with
  | none => h
  | some ts => h ++ [(clock, ts)]

/-- a DML statement with its table name resolved to the internal name (`none`: the name does not resolve) -/
def resolveDml (h : Heap) (v : View) (st : Stmt) : Option Stmt :=
  (resolve h v (Stmt.table st)).map (fun (_, ts) => Stmt.withTable ts.name st)

/-! ## MVCC machine -/

structure State where
  db : Db.State
  heap : Heap := []
  deriving Repr

def State.init : State := { db := Db.State.init [] }

/-- a DML statement of transaction `tid`: the table name is resolved in the transaction's view of the catalog -/
def State.dml (D : Defects) (σ : State) (tid : Nat) (s : Stmt) : State × SOut :=
  let v := view D (σ.db.snapOf tid) σ.db.rows
  match resolveDml σ.heap v s with
  | none => (σ, .err .notfound)
  | some s' =>
    (({ σ with db := { (({ σ.db with cat := catOf σ.heap v }).stmt D tid 0 s').1 with cat := σ.db.cat } }),
      (({ σ.db with cat := catOf σ.heap v }).stmt D tid 0 s').2.out)

/-- `ThreadContext::name_holder`: the name index's entry for `name` is the one of the last transaction that created
    the name.  It holds the name against `tid` when its writer is another transaction that `tid`'s snapshot does not
    see as committed, that has not rolled back, and that has not dropped the relation again itself -/
def nameHeld (σ : State) (tid : Nat) (name : String) : Bool :=
  match (σ.db.rows.filter (fun r => r.table == metaName &&
      (r.versions.getLast?.bind (fun v => v.vals.head?)) == some (Val.text name))).getLast? with
  | Option.none => false
  | some r =>
    match r.versions.getLast? with
    | Option.none => false
    | some v =>
      v.creator != tid && !(σ.db.snapOf tid).cb v.creator && !r.deleters.contains v.creator &&
        (match σ.db.txns[v.creator]? with
         | some t => t.status != .aborted
         | Option.none => false)

/-- a DDL statement of transaction `tid` -/
def State.ddl (D : Defects) (σ : State) (tid : Nat) (st : DStmt) : State × SOut :=
  let p := planDdl σ.heap σ.db.clock (view D (σ.db.snapOf tid) σ.db.rows) st
  if p.out.isErr then (σ, p.out)
  else if D.createRefusedWhileNameHeld &&
      (match st with
       | .createTable name _ _ => nameHeld σ tid name
       | _ => false) then (σ, .err .conflict)
  else ({ db := σ.db.write D tid p.effs, heap := addDesc σ.heap σ.db.clock p.desc }, p.out)

/-- one statement of transaction `tid` -/
def State.stmt (D : Defects) (σ : State) (tid : Nat) (st : DStmt) : State × SOut :=
  match st with
  | .dml s => σ.dml D tid s
  | st => σ.ddl D tid st

/-- commit with the constraint re-check against the catalog of the would-be committed state -/
def State.commitC (D : Defects) (σ : State) (tid : Nat) : State × Option Err :=
  let σ1 := (σ.db.commitTxn tid).1
  let c := catOf σ.heap (view D (σ1.freshSnap D) σ1.rows)
  let (db', r) := ({ σ.db with cat := c }).commitC D tid
  ({ σ with db := { db' with cat := σ.db.cat } }, r)

/-- an operation that only concerns the coordinator and the sessions is the `Db` machine's -/
def liftDb (D : Defects) (σ : State) (op : Db.Op) : State × Out :=
  ({ σ with db := (Db.stepCore D σ.db op).1 }, (Db.stepCore D σ.db op).2)

def stepCore (D : Defects) (σ : State) : DOp → State × Out
  | .begin s => liftDb D σ (.begin s)
  | .commit s =>
    match lookup s σ.db.sessions with
    | Option.none => (σ, .noSession)
    | some tid =>
      let (σ1, r) := σ.commitC D tid
      ({ σ1 with db := σ1.db.endSession s }, outOfCommit r .ok)
  | .rollback s => liftDb D σ (.rollback s)
  | .drop s => liftDb D σ (.drop s)
  | .exec s st =>
    match lookup s σ.db.sessions with
    | Option.none => (σ, .noSession)
    | some tid =>
      let (σ1, o) := σ.stmt D tid st
      (σ1, .stmt o)
  | .auto st =>
    let (db1, tid) := σ.db.beginTxn D
    let (σ2, o) := ({ σ with db := db1 }).stmt D tid st
    if o.isErr then ({ σ2 with db := σ2.db.abortTxn tid }, .stmt o)
    else
      let (σ3, r) := σ2.commitC D tid
      (σ3, outOfCommit r (.stmt o))
  | .reopen ss => (ss.foldl (fun σ s => (liftDb D σ (.drop s)).1) σ, .ok)
  | .tick => liftDb D σ .tick
  | .nop => (σ, .none)

def step (D : Defects) (σ : State) (op : DOp) : State × Out :=
  let (σ', o) := stepCore D σ op
  ({ σ' with db := { σ'.db with clock := σ'.db.clock + 1 } }, o)

def finalM (D : Defects) : State → List DOp → State
  | σ, [] => σ
  | σ, op :: ops => finalM D (step D σ op).1 ops

def outsM (D : Defects) : State → List DOp → List Out
  | _, [] => []
  | σ, op :: ops => (step D σ op).2 :: outsM D (step D σ op).1 ops

def run (D : Defects) (ops : List DOp) : State × List Out := (finalM D State.init ops, outsM D State.init ops)

/-! ## abstract machine -/

namespace Spec

structure State where
  db : Db.Spec.State
  heap : Heap := []
  deriving Repr

def State.init : State := { db := Db.Spec.State.init [] }

def dml (α : State) (a : Db.Spec.ATxn) (s : Stmt) : Db.Spec.ATxn × Heap × SOut :=
  match resolveDml α.heap a.view s with
  | none => (a, α.heap, .err .notfound)
  | some s' =>
    ((Db.Spec.stmt (catOf α.heap a.view) α.db.clock a 0 s').1, α.heap,
      (Db.Spec.stmt (catOf α.heap a.view) α.db.clock a 0 s').2.out)

def ddl (α : State) (a : Db.Spec.ATxn) (st : DStmt) : Db.Spec.ATxn × Heap × SOut :=
  let p := planDdl α.heap α.db.clock a.view st
  if p.out.isErr then (a, α.heap, p.out)
  else ({ a with effs := a.effs ++ p.effs }, addDesc α.heap α.db.clock p.desc, p.out)

def stmt (α : State) (a : Db.Spec.ATxn) (st : DStmt) : Db.Spec.ATxn × Heap × SOut :=
  match st with
  | .dml s => dml α a s
  | st => ddl α a st

def State.commitC (α : State) (a : Db.Spec.ATxn) : State × Option Err :=
  let c := catOf α.heap (α.db.commitTxn a).1.committed
  let (db', r) := ({ α.db with cat := c }).commitC a
  ({ α with db := { db' with cat := α.db.cat } }, r)

def liftDb (α : State) (op : Db.Op) : State × Out :=
  ({ α with db := (Db.Spec.stepCore α.db op).1 }, (Db.Spec.stepCore α.db op).2)

def stepCore (α : State) : DOp → State × Out
  | .begin s => liftDb α (.begin s)
  | .commit s =>
    match lookup s α.db.sessions with
    | Option.none => (α, .noSession)
    | some a =>
      let (α1, r) := α.commitC a
      ({ α1 with db := { α1.db with sessions := erase s α1.db.sessions } }, outOfCommit r .ok)
  | .rollback s => liftDb α (.rollback s)
  | .drop s => liftDb α (.drop s)
  | .exec s st =>
    match lookup s α.db.sessions with
    | Option.none => (α, .noSession)
    | some a =>
      let (a', h', o) := stmt α a st
      ({ db := { α.db with sessions := (s, a') :: erase s α.db.sessions }, heap := h' }, .stmt o)
  | .auto st =>
    let (a', h', o) := stmt α α.db.beginTxn st
    if o.isErr then (α, .stmt o)
    else
      let (α1, r) := ({ α with heap := h' }).commitC a'
      (α1, outOfCommit r (.stmt o))
  | .reopen ss => (ss.foldl (fun α s => (liftDb α (.drop s)).1) α, .ok)
  | .tick => liftDb α .tick
  | .nop => (α, .none)

def step (α : State) (op : DOp) : State × Out :=
  let (α', o) := stepCore α op
  ({ α' with db := { α'.db with clock := α'.db.clock + 1 } }, o)

def final : State → List DOp → State
  | α, [] => α
  | α, op :: ops => final (step α op).1 ops

def outs : State → List DOp → List Out
  | _, [] => []
  | α, op :: ops => (step α op).2 :: outs (step α op).1 ops

def run (ops : List DOp) : State × List Out := (final State.init ops, outs State.init ops)

end Spec

end AxVerif.Ddl
