/-
  C06 — logical plan algebra over the reference evaluator of C05, and the optimizer's rewrite rules as functions on
  plans (sql/planner/rules.rs).  `Defects.none` is the repaired behaviour (the specification the theorems of
  Thm/C06.lean are about); every flag reproduces one shipped defect.

  Plans are evaluated against a `Store`: tables whose rows carry row ids, with their unique indexes (Model/Index).
  `evalPlan` is total: a predicate that cannot be evaluated on a row does not select it, a row whose projection fails
  is dropped.  `evalPlanE` is the error-propagating evaluation the engine (and `Sql.evalSelect`) performs; where it
  succeeds both agree (`Thm.C06.strict_agrees`).

  Core Lean only; structural recursion throughout, so everything reduces in the kernel.
-/
import AxVerif.Model.Sql
import AxVerif.Model.Index
namespace AxVerif.Plan
open AxVerif.Sql AxVerif.Index

/-- One flag per defect of the shipped planner. All off = the repaired rules. -/
structure Defects where
  /-- JoinCommutativity: the condition keeps its column indices (only the operands of each comparison are swapped, also
      those of LIKE) and nothing restores the column order (repaired by 2c21c6e) -/
  joinCommuteKeepsIndices : Bool := false
  /-- shift_columns / all_columns_ge / any_column_in_range only look through binary operators, rewrite_with_mapping
      only through binary, unary and IS NULL (repaired by be64507) -/
  helpersSkipForms : Bool := false
  /-- memo deduplication ignores predicates: two filters over the same input are one group (repaired by bb3cfff) -/
  memoIgnoresPredicates : Bool := false
  /-- JoinAssociativity moves the inner condition only as a whole: its B-only conjuncts are dropped when another conjunct
      mentions A (repaired by 9094b3e) -/
  assocDropsBOnly : Bool := false
  /-- FilterToIndexScan uses an index although an unbounded indexed column may be NULL (rows with NULL keys have no
      entry; repaired by 47df9d4) -/
  indexScanIgnoresNullable : Bool := false
  /-- PhysicalProperties::satisfies compares the required and the delivered ordering position by position as far as
      *both* go (`zip`): an input that delivers only a proper prefix of the required ordering passes and gets no Sort
      enforcer (seeded change; the shipped code asks for at least as many delivered keys as required ones) -/
  orderingPrefixEitherWay : Bool := false
  /-- HashJoin looks the key of a left row up in a HashMap whose keys compare NULL = NULL (as GROUP BY and DISTINCT
      need): a left row with a NULL join key is paired with every right row whose key is NULL (repaired; the operator was
      never chosen by the shipped cost model) -/
  hashJoinNullEqualsNull : Bool := false
  deriving Repr, Inhabited

abbrev Defects.none : Defects := {}

/-! ## Stored tables -/

structure STable where
  tys : List Ty
  /-- declared NOT NULL, per column (missing = nullable) -/
  notNull : List Bool := []
  rows : Rows
  indexes : List Index := []
  deriving Repr, Inhabited

abbrev Store := List STable

def STable.toDef (t : STable) : TableDef := { tys := t.tys, rows := t.rows.map (·.2) }

/-- the database the reference evaluator sees: no row ids, no indexes -/
def Store.db (st : Store) : Db := st.map STable.toDef

/-! ### well-formed stores: every stored row has the width of its table and values of the declared types -/

/-- the value is one a column of this type can hold (storing it does not change it) -/
def conformsV (ty : Ty) (v : Value) : Bool :=
  match castTo ty v with
  | .ok w => w == v
  | .error _ => false

def conformsRow (tys : List Ty) (r : Row) : Bool :=
  r.length == tys.length && (List.range r.length).all (fun i => conformsV (tys.getD i .bigint) (r.getD i .null))

/-- NOT NULL columns hold no NULL -/
def respectsNotNull (notNull : List Bool) (r : Row) : Bool :=
  (List.range notNull.length).all (fun i => !(notNull.getD i false) || r.getD i .null != .null)

def wfTable (tb : STable) : Bool :=
  tb.rows.all (fun x => conformsRow tb.tys x.2 && respectsNotNull tb.notNull x.2)

def wfStore (st : Store) : Bool := st.all wfTable

/-- every index of every table agrees with the table, and row ids identify rows -/
def StoreConsistent (st : Store) : Prop :=
  ∀ tb ∈ st, RidsDistinct tb.rows ∧ ∀ ix ∈ tb.indexes, IndexConsistent ix tb.rows

/-! ## Column traversals (map_columns / any_column of rules.rs) -/

mutual
/-- every column index `i` replaced by `f i` -/
def mapCols (f : Nat → Nat) : Expr → Expr
  | .lit v => .lit v
  | .col i => .col (f i)
  | .not e => .not (mapCols f e)
  | .neg e => .neg (mapCols f e)
  | .pos e => .pos (mapCols f e)
  | .and a b => .and (mapCols f a) (mapCols f b)
  | .or a b => .or (mapCols f a) (mapCols f b)
  | .cmp op a b => .cmp op (mapCols f a) (mapCols f b)
  | .arith op a b => .arith op (mapCols f a) (mapCols f b)
  | .like n a b => .like n (mapCols f a) (mapCols f b)
  | .isNull n e => .isNull n (mapCols f e)
  | .between n e lo hi => .between n (mapCols f e) (mapCols f lo) (mapCols f hi)
  | .inList n e xs => .inList n (mapCols f e) (mapColsList f xs)
  | .caseWhen parts => .caseWhen (mapColsList f parts)
  | .caseOf x parts => .caseOf (mapCols f x) (mapColsList f parts)
  | .strFn g e => .strFn g (mapCols f e)
  | .concat a b => .concat (mapCols f a) (mapCols f b)
  | .nullif a b => .nullif (mapCols f a) (mapCols f b)
  | .coalesce xs => .coalesce (mapColsList f xs)
def mapColsList (f : Nat → Nat) : List Expr → List Expr
  | [] => []
  | e :: es => mapCols f e :: mapColsList f es
end

mutual
/-- the column indices an expression reads -/
def cols : Expr → List Nat
  | .lit _ => []
  | .col i => [i]
  | .not e => cols e
  | .neg e => cols e
  | .pos e => cols e
  | .and a b => cols a ++ cols b
  | .or a b => cols a ++ cols b
  | .cmp _ a b => cols a ++ cols b
  | .arith _ a b => cols a ++ cols b
  | .like _ a b => cols a ++ cols b
  | .isNull _ e => cols e
  | .between _ e lo hi => cols e ++ (cols lo ++ cols hi)
  | .inList _ e xs => cols e ++ colsList xs
  | .caseWhen parts => colsList parts
  | .caseOf x parts => cols x ++ colsList parts
  | .strFn _ e => cols e
  | .concat a b => cols a ++ cols b
  | .nullif a b => cols a ++ cols b
  | .coalesce xs => colsList xs
def colsList : List Expr → List Nat
  | [] => []
  | e :: es => cols e ++ colsList es
end

/-- `any_column` -/
def anyCol (p : Nat → Bool) (e : Expr) : Bool := (cols e).any p

/-- the traversal of the shipped `shift_columns`: column references and binary operators only; everything else is
    returned unchanged -/
def mapColsBinary (f : Nat → Nat) : Expr → Expr
  | .col i => .col (f i)
  | .and a b => .and (mapColsBinary f a) (mapColsBinary f b)
  | .or a b => .or (mapColsBinary f a) (mapColsBinary f b)
  | .cmp op a b => .cmp op (mapColsBinary f a) (mapColsBinary f b)
  | .arith op a b => .arith op (mapColsBinary f a) (mapColsBinary f b)
  | .like n a b => .like n (mapColsBinary f a) (mapColsBinary f b)
  | e => e

/-- the columns the shipped `all_columns_ge` / `any_column_in_range` saw -/
def colsBinary : Expr → List Nat
  | .col i => [i]
  | .and a b => colsBinary a ++ colsBinary b
  | .or a b => colsBinary a ++ colsBinary b
  | .cmp _ a b => colsBinary a ++ colsBinary b
  | .arith _ a b => colsBinary a ++ colsBinary b
  | .like _ a b => colsBinary a ++ colsBinary b
  | _ => []

/-- the traversal of the shipped `rewrite_with_mapping`: binary and unary operators and IS NULL -/
def mapColsNoLists (f : Nat → Nat) : Expr → Expr
  | .col i => .col (f i)
  | .not e => .not (mapColsNoLists f e)
  | .neg e => .neg (mapColsNoLists f e)
  | .pos e => .pos (mapColsNoLists f e)
  | .and a b => .and (mapColsNoLists f a) (mapColsNoLists f b)
  | .or a b => .or (mapColsNoLists f a) (mapColsNoLists f b)
  | .cmp op a b => .cmp op (mapColsNoLists f a) (mapColsNoLists f b)
  | .arith op a b => .arith op (mapColsNoLists f a) (mapColsNoLists f b)
  | .like n a b => .like n (mapColsNoLists f a) (mapColsNoLists f b)
  | .isNull n e => .isNull n (mapColsNoLists f e)
  | e => e

/-- `shift_columns e (-k)` (only ever applied to expressions all of whose columns are ≥ k) -/
def shiftDown (D : Defects) (k : Nat) (e : Expr) : Expr :=
  if D.helpersSkipForms then mapColsBinary (· - k) e else mapCols (· - k) e

/-- `all_columns_ge` -/
def allColsGe (D : Defects) (k : Nat) (e : Expr) : Bool :=
  if D.helpersSkipForms then (colsBinary e).all (fun i => k ≤ i) else (cols e).all (fun i => k ≤ i)

/-- `any_column_in_range 0 k` -/
def anyColBelow (D : Defects) (k : Nat) (e : Expr) : Bool :=
  if D.helpersSkipForms then (colsBinary e).any (fun i => i < k) else (cols e).any (fun i => i < k)

/-- conjuncts of an AND tree, left to right (the recursion of classify_predicates / collect_* / collect_bounds) -/
def conjuncts : Expr → List Expr
  | .and a b => conjuncts a ++ conjuncts b
  | e => [e]

/-- `combine_predicates`: `((p₁ AND p₂) AND p₃) …`, `none` for no predicate -/
def combine : List Expr → Option Expr
  | [] => none
  | p :: ps => some (ps.foldl (fun acc q => .and acc q) p)

/-! ## Plans -/

inductive Plan where
  | scan (t : Nat)
  /-- index `k` of table `t`, bounds on key positions, residual predicate over the table's columns -/
  | indexScan (t k : Nat) (lo hi : List Bound) (resid : Option Expr)
  | filter (p : Expr) (c : Plan)
  | project (items : List Expr) (c : Plan)
  | join (k : JoinKind) (on : Option Expr) (l r : Plan)
  deriving Repr, Inhabited

/-- output column types (the schema every operator carries) -/
def Plan.tys (st : Store) : Plan → List Ty
  | .scan t => (st.getD t default).tys
  | .indexScan t _ _ _ _ => (st.getD t default).tys
  | .filter _ c => c.tys st
  | .project items c => items.map (inferTy (c.tys st))
  | .join _ _ l r => l.tys st ++ r.tys st

def Plan.width (st : Store) (p : Plan) : Nat := (p.tys st).length

/-- the predicate is TRUE on the row (unknown, FALSE and "cannot be evaluated" all reject the row) -/
def holds (tys : List Ty) (p : Expr) (row : Row) : Bool :=
  match evalPred {} tys p row with
  | .ok true => true
  | _ => false

def holdsOpt (tys : List Ty) (p : Option Expr) (row : Row) : Bool :=
  match p with
  | none => true
  | some e => holds tys e row

/-- the rows of an index scan: entries inside the bounds in key order, fetched by row id, residual applied -/
def indexScanRows (tb : STable) (k : Nat) (lo hi : List Bound) (resid : Option Expr) : List Row :=
  match tb.indexes[k]? with
  | none => []
  | some ix => (Index.scan ix tb.rows lo hi).filter (holdsOpt tb.tys resid)

/-- Evaluation of a plan (total semantics). -/
def evalPlan (st : Store) : Plan → List Row
  | .scan t => ((st.getD t default).rows).map (·.2)
  | .indexScan t k lo hi resid => indexScanRows (st.getD t default) k lo hi resid
  | .filter p c => (evalPlan st c).filter (holds (c.tys st) p)
  | .project items c =>
    (evalPlan st c).filterMap (fun r => match projectRow {} (c.tys st) items r with
      | .ok r' => some r'
      | .error _ => none)
  | .join k on l r =>
    let tys := l.tys st ++ r.tys st
    joinPure k (fun a b => holdsOpt tys on (a ++ b)) (l.width st) (r.width st) (evalPlan st l) (evalPlan st r)

/-- Error-propagating evaluation, as `Sql.evalFrom` / `applyWhere` / `produce` do it (index scans never fail: their
    bounds are comparisons with literals; the residual is a predicate like any other). -/
def evalPlanE (st : Store) : Plan → Except Err (List Row)
  | .scan t => match st[t]? with
    | some tb => .ok (tb.rows.map (·.2))
    | none => .error .bind
  | .indexScan t k lo hi resid => match st[t]? with
    | none => .error .bind
    | some tb => match tb.indexes[k]? with
      | none => .error .bind
      | some ix => match resid with
        | none => .ok (Index.scan ix tb.rows lo hi)
        | some e => filterRows (evalPred {} tb.tys e) (Index.scan ix tb.rows lo hi)
  | .filter p c => match evalPlanE st c with
    | .error x => .error x
    | .ok rows => filterRows (evalPred {} (c.tys st) p) rows
  | .project items c => match evalPlanE st c with
    | .error x => .error x
    | .ok rows => mapE (projectRow {} (c.tys st) items) rows
  | .join k on l r => match evalPlanE st l with
    | .error x => .error x
    | .ok lrows => match evalPlanE st r with
      | .error x => .error x
      | .ok rrows =>
        let tys := l.tys st ++ r.tys st
        match mapE (fun a => mapE (fun b => match on with
            | none => .ok true
            | some c => evalPred {} tys c (a ++ b)) rrows) lrows with
        | .error x => .error x
        | .ok _ => .ok (joinPure k (fun a b => holdsOpt tys on (a ++ b)) (l.width st) (r.width st) lrows rrows)

/-! ### well-scoped plans: every expression reads columns its input has (what the binder guarantees) -/

def inScope (w : Nat) (e : Expr) : Bool := (cols e).all (fun i => i < w)

def inScopeOpt (w : Nat) : Option Expr → Bool
  | none => true
  | some e => inScope w e

def Plan.wellScoped (st : Store) : Plan → Bool
  | .scan _ => true
  | .indexScan t _ _ _ resid => inScopeOpt (st.getD t default).tys.length resid
  | .filter p c => c.wellScoped st && inScope (c.width st) p
  | .project items c => c.wellScoped st && items.all (inScope (c.width st))
  | .join _ on l r => l.wellScoped st && r.wellScoped st && inScopeOpt (l.width st + r.width st) on

/-! ## The bound plan of a query (sql/planner/plan.rs `build_select`, the part below aggregation and ordering) -/

def fromPlan : From → Plan
  | .table t => .scan t
  | .join k l r on => .join k on (fromPlan l) (fromPlan r)
  | .derived f w items =>
    .project items (match w with
      | none => fromPlan f
      | some e => .filter e (fromPlan f))

/-- FROM → WHERE → projection -/
def boundPlan (q : Select) : Plan :=
  let f := fromPlan q.from_
  let w := match q.where_ with
    | none => f
    | some e => .filter e f
  match q.items with
  | none => w
  | some items => .project items w

/-! ## Transformation rules -/

/-- FilterMergeRule: `Filter p (Filter q c)` → `Filter (p AND q) c` -/
def filterMerge : Plan → Option Plan
  | .filter p (.filter q c) => some (.filter (.and p q) c)
  | _ => none

/-- `classify_predicates`: (left-only, right-only, join) conjuncts with respect to the width of the left input -/
def classify (lw : Nat) (p : Expr) : List Expr × List Expr × List Expr :=
  (conjuncts p).foldr (fun e (acc : List Expr × List Expr × List Expr) =>
    let ul := anyCol (· < lw) e
    let ur := anyCol (fun i => lw ≤ i) e
    if ul && !ur then (e :: acc.1, acc.2.1, acc.2.2)
    else if ur && !ul then (acc.1, e :: acc.2.1, acc.2.2)
    else (acc.1, acc.2.1, e :: acc.2.2)) ([], [], [])

def filterOver (p : Option Expr) (c : Plan) : Plan :=
  match p with
  | none => c
  | some e => .filter e c

/-- FilterPushdownJoinRule: for INNER / CROSS joins the conjuncts of the filter that read one input only move below the
    join (right ones re-indexed for the right input), the others join the condition. -/
def filterPushdownJoin (D : Defects) (st : Store) : Plan → Option Plan
  | .filter p (.join k on l r) =>
    if k = .inner || k = .cross then
      let lw := l.width st
      let (lp, rp, jp) := classify lw p
      if lp.isEmpty && rp.isEmpty then none
      else
        let cond := combine (on.toList ++ jp)
        some (.join k cond (filterOver (combine lp) l) (filterOver (combine (rp.map (shiftDown D lw))) r))
    else none
  | _ => none

/-- the column every item of a projection refers to, if all items are plain column references -/
def colRefs : List Expr → Option (List Nat)
  | [] => some []
  | .col i :: es => (colRefs es).map (i :: ·)
  | _ :: _ => none

/-- `rewrite_with_mapping` -/
def rewriteWith (D : Defects) (mapping : List Nat) (e : Expr) : Expr :=
  if D.helpersSkipForms then mapColsNoLists (fun i => mapping.getD i i) e else mapCols (fun i => mapping.getD i i) e

/-- FilterPushdownProjectRule: a filter over a projection of plain column references moves below it -/
def filterPushdownProject (D : Defects) : Plan → Option Plan
  | .filter p (.project items c) =>
    match colRefs items with
    | some mapping => some (.project items (.filter (rewriteWith D mapping p) c))
    | none => none
  | _ => none

/-- `swap_join_condition` of the shipped rule: operands of every comparison exchanged (AND / OR are walked); every other
    binary operator — LIKE among them — has its operands exchanged as well -/
def swapOperands : Expr → Expr
  | .and a b => .and (swapOperands a) (swapOperands b)
  | .or a b => .or (swapOperands a) (swapOperands b)
  | .cmp op a b =>
    let op' := match op with
      | .lt => CmpOp.gt | .gt => .lt | .le => .ge | .ge => .le | o => o
    .cmp op' b a
  | .like n a b => .like n b a
  | .arith op a b => .arith op b a
  | e => e

/-- the projection that restores the column order `l ++ r` on top of a join of `r` with `l` -/
def restoreOrder (lw rw : Nat) : List Expr :=
  (List.range lw).map (fun i => Expr.col (rw + i)) ++ (List.range rw).map Expr.col

/-- JoinCommutativityRule (INNER / CROSS): the inputs change places, the condition is re-indexed and a projection puts
    the columns back in the order of the original join.  Shipped: the swapped join stands for the original as it is. -/
def joinCommute (D : Defects) (st : Store) : Plan → Option Plan
  | .join k on l r =>
    if k = .inner || k = .cross then
      let lw := l.width st
      let rw := r.width st
      if D.joinCommuteKeepsIndices then some (.join k (on.map swapOperands) r l)
      else
        let on' := on.map (mapCols (fun i => if i < lw then i + rw else i - lw))
        some (.project (restoreOrder lw rw) (.join k on' r l))
    else none
  | _ => none

/-- `collect_predicates_for_range`: the conjuncts all of whose columns are ≥ k, re-indexed by −k -/
def collectForRange (D : Defects) (k : Nat) (e : Expr) : List Expr :=
  ((conjuncts e).filter (allColsGe D k)).map (shiftDown D k)

/-- `collect_predicates_involving_range 0 k`: the conjuncts that read a column below k -/
def collectInvolving (D : Defects) (k : Nat) (e : Expr) : List Expr :=
  (conjuncts e).filter (anyColBelow D k)

def optConj (f : Expr → List Expr) : Option Expr → List Expr
  | none => []
  | some e => f e

/-- JoinAssociativityRule: `(A ⋈ B) ⋈ C` → `A ⋈ (B ⋈ C)` for inner joins.  The conjuncts of both conditions that do not
    read A go to `B ⋈ C`, the others stay on top. -/
def joinAssoc (D : Defects) (st : Store) : Plan → Option Plan
  | .join .inner outer (.join .inner inner a b) c =>
    let aw := a.width st
    let innerBC : List Expr :=
      if D.assocDropsBOnly then
        -- the inner condition moves only as a whole
        match inner with
        | some e => if (cols e).all (fun i => aw ≤ i) then [shiftDown D aw e] else []
        | none => []
      else optConj (collectForRange D aw) inner
    let bc := combine (optConj (collectForRange D aw) outer ++ innerBC)
    let ac := combine (optConj (collectInvolving D aw) inner ++ optConj (collectInvolving D aw) outer)
    some (.join .inner ac a (.join .inner bc b c))
  | _ => none

/-! ## Range bounds and the index scan rule (FilterToIndexScanRule) -/

/-- position of a column in the key of an index -/
def keyPos : List Nat → Nat → Option Nat
  | [], _ => none
  | x :: xs, c => if x = c then some 0 else (keyPos xs c).map (· + 1)

/-- bounds from `column op literal`: (start bounds, end bounds) -/
def boundsColLit (pos : Nat) (v : Value) : CmpOp → Option (List Bound × List Bound)
  | .eq => some ([⟨pos, v, true⟩], [⟨pos, v, true⟩])
  | .gt => some ([⟨pos, v, false⟩], [])
  | .ge => some ([⟨pos, v, true⟩], [])
  | .lt => some ([], [⟨pos, v, false⟩])
  | .le => some ([], [⟨pos, v, true⟩])
  | .ne => none

/-- bounds from `literal op column` -/
def boundsLitCol (pos : Nat) (v : Value) : CmpOp → Option (List Bound × List Bound)
  | .eq => some ([⟨pos, v, true⟩], [⟨pos, v, true⟩])
  | .lt => some ([⟨pos, v, false⟩], [])
  | .le => some ([⟨pos, v, true⟩], [])
  | .gt => some ([], [⟨pos, v, false⟩])
  | .ge => some ([], [⟨pos, v, true⟩])
  | .ne => none

/-- what one conjunct contributes: start bounds, end bounds, residual conjuncts (`collect_bounds`, one leaf): a
    comparison of an indexed column with a literal, either way round, becomes bounds; everything else is residual -/
def boundOfConjunct (ixcols : List Nat) : Expr → List Bound × List Bound × List Expr
  | .cmp op (.col c) (.lit v) =>
    match (keyPos ixcols c).bind (fun pos => boundsColLit pos v op) with
    | some (lo, hi) => (lo, hi, [])
    | none => ([], [], [.cmp op (.col c) (.lit v)])
  | .cmp op (.lit v) (.col c) =>
    match (keyPos ixcols c).bind (fun pos => boundsLitCol pos v op) with
    | some (lo, hi) => (lo, hi, [])
    | none => ([], [], [.cmp op (.lit v) (.col c)])
  | e => ([], [], [e])

/-- `extract_index_bounds`: (range start, range end, residual predicate) of a predicate for an index over `ixcols` -/
def extractBounds (ixcols : List Nat) (p : Expr) : List Bound × List Bound × Option Expr :=
  let parts := (conjuncts p).map (boundOfConjunct ixcols)
  (parts.flatMap (·.1), parts.flatMap (·.2.1), combine (parts.flatMap (·.2.2)))

/-- every key position whose column may be NULL carries a bound -/
def nullableBounded (tb : STable) (ixcols : List Nat) (lo hi : List Bound) : Bool :=
  (List.range ixcols.length).all (fun pos =>
    tb.notNull.getD (ixcols.getD pos 0) false || (lo ++ hi).any (fun b => b.pos == pos))

/-- FilterToIndexScanRule for index `k` of the scanned table -/
def filterToIndexScan (D : Defects) (st : Store) (k : Nat) : Plan → Option Plan
  | .filter p (.scan t) =>
    let tb := st.getD t default
    match tb.indexes[k]? with
    | none => none
    | some ix =>
      let b := extractBounds ix.cols p
      if b.1.isEmpty && b.2.1.isEmpty then none
      else if !D.indexScanIgnoresNullable && !nullableBounded tb ix.cols b.1 b.2.1 then none
      else some (.indexScan t k b.1 b.2.1 b.2.2)
  | _ => none

/-! ## The memo's view of two expressions (deduplication) -/

mutual
/-- structural equality of expressions -/
def beqExpr : Expr → Expr → Bool
  | .lit v, .lit w => v == w
  | .col i, .col j => i == j
  | .not a, .not b => beqExpr a b
  | .neg a, .neg b => beqExpr a b
  | .pos a, .pos b => beqExpr a b
  | .and a b, .and c d => beqExpr a c && beqExpr b d
  | .or a b, .or c d => beqExpr a c && beqExpr b d
  | .cmp o a b, .cmp o' c d => o == o' && beqExpr a c && beqExpr b d
  | .arith o a b, .arith o' c d => o == o' && beqExpr a c && beqExpr b d
  | .like n a b, .like n' c d => n == n' && beqExpr a c && beqExpr b d
  | .isNull n a, .isNull n' b => n == n' && beqExpr a b
  | .between n a b c, .between n' a' b' c' => n == n' && beqExpr a a' && beqExpr b b' && beqExpr c c'
  | .inList n a xs, .inList n' b ys => n == n' && beqExpr a b && beqExprs xs ys
  | _, _ => false
def beqExprs : List Expr → List Expr → Bool
  | [], [] => true
  | a :: as, b :: bs => beqExpr a b && beqExprs as bs
  | _, _ => false
end

def beqOptExpr : Option Expr → Option Expr → Bool
  | none, none => true
  | some a, some b => beqExpr a b
  | _, _ => false

def beqBound (a b : Bound) : Bool := a.pos == b.pos && a.value == b.value && a.inclusive == b.inclusive

def beqBounds : List Bound → List Bound → Bool
  | [], [] => true
  | a :: as, b :: bs => beqBound a b && beqBounds as bs
  | _, _ => false

/-- Are two plans the same memo expression?  Repaired: structurally equal.  Shipped: the operator kind and the children
    decide, predicates / conditions / projected expressions are not looked at. -/
def sameExpr (D : Defects) : Plan → Plan → Bool
  | .scan t, .scan u => t == u
  | .filter p c, .filter q d => sameExpr D c d && (D.memoIgnoresPredicates || beqExpr p q)
  | .project is c, .project js d =>
    sameExpr D c d && is.length == js.length && (D.memoIgnoresPredicates || beqExprs is js)
  | .join k o l r, .join k' o' l' r' =>
    k == k' && sameExpr D l l' && sameExpr D r r' && (D.memoIgnoresPredicates || beqOptExpr o o')
  | .indexScan t k lo hi re, .indexScan t' k' lo' hi' re' =>
    t == t' && k == k' && beqBounds lo lo' && beqBounds hi hi' && beqOptExpr re re'
  | _, _ => false

/-- Inserting the inputs of a join into the memo one after the other: an input that is "the same expression" as one
    already present is replaced by it. -/
def memoJoinInputs (D : Defects) : Plan → Plan
  | .join k on l r => if sameExpr D l r then .join k on l l else .join k on l r
  | p => p

/-! ## Reachability by rules -/

/-- one rule applied at the root -/
def rootSteps (D : Defects) (st : Store) (p : Plan) : List Plan :=
  let ixs := match p with
    | .filter _ (.scan t) => List.range ((st.getD t default).indexes.length)
    | _ => []
  [filterMerge p, filterPushdownJoin D st p, filterPushdownProject D p, joinCommute D st p, joinAssoc D st p].filterMap id
    ++ ixs.filterMap (fun k => filterToIndexScan D st k p)

/-- one rule applied anywhere in the plan -/
def steps (D : Defects) (st : Store) : Plan → List Plan
  | .scan t => rootSteps D st (.scan t)
  | .indexScan t k lo hi r => rootSteps D st (.indexScan t k lo hi r)
  | .filter p c => rootSteps D st (.filter p c) ++ (steps D st c).map (.filter p)
  | .project is c => rootSteps D st (.project is c) ++ (steps D st c).map (.project is)
  | .join k on l r =>
    rootSteps D st (.join k on l r) ++ (steps D st l).map (fun l' => .join k on l' r)
      ++ (steps D st r).map (fun r' => .join k on l r')

/-- a deterministic exploration used by the driver: up to `fuel` rounds, every reachable plan (bounded breadth) -/
def explore (D : Defects) (st : Store) : Nat → List Plan → List Plan
  | 0, ps => ps
  | fuel + 1, ps =>
    let next := (ps.flatMap (steps D st)).take 40
    ps ++ explore D st fuel next

/-! ## Statistics and the choice among equivalent plans

The cost model reads statistics (sql/planner/model.rs, schema/stats.rs); `evalPlan` does not take them. -/

/-- what ANALYZE stores per table: row count and number of distinct values of the first index column -/
structure Stats where
  rowCount : List Nat := []
  ndv : List Nat := []
  deriving Repr, Inhabited

/-- a cost in the spirit of DefaultCostModel: scans cost their rows (an index scan rows / ndv), filters and
    projections their input, joins the product of their inputs -/
def cost (s : Stats) : Plan → Nat
  | .scan t => s.rowCount.getD t 1000
  | .indexScan t _ _ _ _ => s.rowCount.getD t 1000 / (s.ndv.getD t 100 + 1) + 3
  | .filter _ c => cost s c + cost s c / 10 + 1
  | .project _ c => cost s c + cost s c / 10 + 1
  | .join _ _ l r => cost s l + cost s r + cost s l * cost s r / 10 + 1

/-- the cheapest candidate under the given statistics (the first one among equals, as the optimizer keeps the incumbent) -/
def choose (s : Stats) : List Plan → Option Plan
  | [] => none
  | c :: cs => match choose s cs with
    | none => some c
    | some b => if cost s b < cost s c then some b else some c

/-! ## Orderings and the sort enforcer

`PhysicalProperties::satisfies` (sql/planner/prop.rs) decides, while `CascadesOptimizer::extract_plan`
(sql/planner/mod.rs) assembles the chosen plan, whether the input of an operator that requires an ordering (a merge
join requires its inputs ordered by its key columns) already delivers it; if not, a Sort on the required keys is put in
between.  Only Sort and MergeJoin declare an ordering (a merge join: its left key columns). -/

/-- one key of a required ordering: a column of the input and a direction -/
structure OrdKey where
  col : Nat
  asc : Bool
  deriving DecidableEq, Repr, Inhabited

/-- one key of a delivered ordering: a plain column, or `none` for any other expression (it matches no required key) -/
abbrev DKey := Option OrdKey

/-- every required key is there, at its position -/
def leads : List OrdKey → List DKey → Bool
  | [], _ => true
  | _ :: _, [] => false
  | r :: rs, d :: ds => d == some r && leads rs ds

/-- the `zip` reading: positions are compared as far as both lists go -/
def leadsZip : List OrdKey → List DKey → Bool
  | [], _ => true
  | _ :: _, [] => true
  | r :: rs, d :: ds => d == some r && leadsZip rs ds

/-- PhysicalProperties::satisfies -/
def satisfies (D : Defects) (delivered : List DKey) (required : List OrdKey) : Bool :=
  if required.isEmpty then true
  else if D.orderingPrefixEitherWay then !delivered.isEmpty && leadsZip required delivered
  else leads required delivered

/-- the key vector of a row under an ordering (a column the row does not have counts as NULL) -/
def keysOf (ks : List OrdKey) (r : Row) : List Value := ks.map (fun k => r.getD k.col .null)

/-- `a` may stand before `b` in an input ordered by `ks` (`nf`: NULLs first, as OrderingSpec::new sets for ascending keys) -/
def leOn (nf : Bool) (ks : List OrdKey) (a b : Row) : Bool :=
  cmpKeys nf (ks.map (·.asc)) (keysOf ks a) (keysOf ks b) != .gt

def SortedOn (nf : Bool) (ks : List OrdKey) (rows : List Row) : Prop :=
  rows.Pairwise (fun a b => leOn nf ks a b = true)

/-- the same as a computation -/
def sortedOnB (nf : Bool) (ks : List OrdKey) : List Row → Bool
  | [] => true
  | a :: rest => rest.all (fun b => leOn nf ks a b) && sortedOnB nf ks rest

/-- the Sort operator -/
def sortOn (nf : Bool) (ks : List OrdKey) (rows : List Row) : List Row := sortBy (leOn nf ks) rows

/-- what extract_plan hands to an operator that requires `required` of an input delivering `delivered` -/
def enforce (D : Defects) (nf : Bool) (delivered : List DKey) (required : List OrdKey) (rows : List Row) : List Row :=
  if satisfies D delivered required then rows else sortOn nf required rows

/-- the ordering the enforced input delivers -/
def enforcedOrdering (D : Defects) (delivered : List DKey) (required : List OrdKey) : List DKey :=
  if satisfies D delivered required then delivered else required.map some

/-- Inner merge join on the key columns `kl` / `kr` (ascending, NULLs first; a NULL key pairs with nothing): both
    inputs are read once, front to back — smaller key on the left: next left row; on the right: next right row;
    equal keys: the left row is paired with the run of right rows that carry this key, then the next left row.
    (`fuel` ≥ length of both inputs together.) -/
def mergeInner (kl kr : List Nat) : Nat → List Row → List Row → List Row
  | 0, _, _ => []
  | _, [], _ => []
  | _, _, [] => []
  | fuel + 1, a :: l, b :: r =>
    let ka := kl.map (fun c => a.getD c .null)
    let kb := kr.map (fun c => b.getD c .null)
    if ka.any (· == .null) then mergeInner kl kr fuel l (b :: r)
    else if kb.any (· == .null) then mergeInner kl kr fuel (a :: l) r
    else match cmpKeys true (kl.map (fun _ => true)) ka kb with
      | .lt => mergeInner kl kr fuel l (b :: r)
      | .gt => mergeInner kl kr fuel (a :: l) r
      | .eq =>
        ((b :: r).takeWhile (fun b' => kr.map (fun c => b'.getD c .null) == kb)).map (fun b' => a ++ b')
          ++ mergeInner kl kr fuel l (b :: r)

/-- the nested-loop reading of the same join -/
def nlInner (kl kr : List Nat) (l r : List Row) : List Row :=
  l.flatMap (fun a => (r.filter (fun b =>
    let ka := kl.map (fun c => a.getD c .null)
    !ka.any (· == .null) && ka == kr.map (fun c => b.getD c .null))).map (fun b => a ++ b))

/-! ## Physical join operators

JoinRule (sql/planner/rules.rs) offers a nested-loop join for every join and, when the condition is a conjunction of
`column = column` taking one column from either input, a hash join and a merge join on those key columns.  Which of
them runs is the cost model's choice; all must return the rows of the join. -/

/-- (left column, right column) pairs of an equi condition over inputs of widths `lw` and whatever; `none` if the
    condition is no such conjunction (JoinOp::is_equi_join / extract_equi_keys) -/
def equiKeys (lw : Nat) : Expr → Option (List (Nat × Nat))
  | .cmp .eq (.col a) (.col b) =>
    if (decide (a < lw)) != (decide (b < lw)) then some [(min a b, max a b - lw)] else none
  | .and x y =>
    match equiKeys lw x, equiKeys lw y with
    | some k1, some k2 => some (k1 ++ k2)
    | _, _ => none
  | _ => none

def joinKey (ks : List Nat) (r : Row) : List Value := ks.map (fun c => r.getD c .null)

/-- the probe of the hash join: the right rows stored under the left row's key -/
def hashMatch (D : Defects) (kl kr : List Nat) (a b : Row) : Bool :=
  joinKey kl a == joinKey kr b && (D.hashJoinNullEqualsNull || !(joinKey kl a).any (· == .null))

/-- the match relation `column = column AND …` defines: every key pair compares equal, no NULL among them -/
def equiMatch (kl kr : List Nat) (a b : Row) : Bool :=
  ((joinKey kl a).zip (joinKey kr b)).all (fun p => cmp3 .eq p.1 p.2 == some true)

def hashJoin (D : Defects) (k : JoinKind) (kl kr : List Nat) (lw rw : Nat) (l r : List Row) : List Row :=
  joinPure k (hashMatch D kl kr) lw rw l r

end AxVerif.Plan
