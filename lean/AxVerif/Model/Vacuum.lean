/-
  VACUUM on the logical MVCC machine of `Model/Db.lean` (property C13).  Core Lean only.

  `State.vacuum` mirrors `Database::vacuum` (lib.rs), `Catalog::vacuum_btree` (schema/catalog.rs), `Tuple::vaccum_with`
  (storage/tuple.rs), `TransactionCoordinator::{abort_all, vacuum_transactions, cleanup_old_transactions}`:

    1. every active transaction is aborted (`abort_all`); the specification also ends the sessions that own them;
    2. horizon `h` = last committed id (taken before the vacuum's own transaction begins);
    3. the vacuum's own transaction `vt` begins: its snapshot `s` has no active ids and lists every aborted id of the table;
    4. per row (`Row.vacuum`):
         versions whose creator is aborted in `s` are dropped; a row with nothing left is dropped
            (code: `snapshot.is_transaction_aborted(tuple.xmin())` → remove the tuple);
         a row deleted by a transaction that committed (`s.cb deleter`) is dropped, delete marks of aborted deleters are erased
            (shipped code: `tuple.is_deleted()` → remove, whoever the deleter was: flag `vacuumRemovesUncommittedDelete`);
         of the remaining chain the head is kept, the older versions as long as their creator id is ≥ `h`, and the newest version
            below `h` unless the head or a kept version is already below `h` (`vaccum_with`);
    5. finished transactions with id < `h` are forgotten by the coordinator.  In this model the transaction table is a list indexed
       by id, and a forgotten id is read by every later snapshot exactly like a committed one (`is_committed_before_snapshot`:
       not above `xmax`, not active, not aborted).  Forgetting a committed transaction is therefore the identity; forgetting an
       aborted one is modelled by relabelling it `committed` (flag `cleanupForgetsAborted`; `Thm/C13.forget_aborted_unobservable`
       shows that after the specification's step 4 the relabelling cannot be observed, so the specification leaves the table alone);
    6. `vt` commits (it has no writes); the aborted bitmap of page zero is cleared up to `h` (no logical content here:
       the bitmap is the persistent copy of the table's aborted entries, see `State.quiesce` for reopen).

  `State.quiesce` is the same without step 4/5: abort all active transactions, end their sessions, one empty transaction.  It is
  what a clean close + `Database::open` does to the logical state (sessions are dropped = rolled back, recovery runs one
  transaction), and it is the reference the view-preservation theorem compares VACUUM with.
-/
import AxVerif.Model.Db
namespace AxVerif.Db

/-- defects of the shipped VACUUM; all false = the specification -/
structure VDefects where
  /-- `vacuum_btree` removes every tuple whose header has `xmax` set, whether or not the deleter committed -/
  vacuumRemovesUncommittedDelete : Bool := false
  /-- `vacuum_btree` / `vaccum_with` decide by the header's `xmin` alone and cut the delta chain at the first delta below the
      horizon: with versions stamped by their updaters (i.e. once `updateKeepsInserterXmin` is repaired) a row whose newest
      version was rolled back loses its committed versions too.  Latent: masked in the shipped tree because every version of
      a row carries the inserter's id -/
  vacuumDropsHorizonVersion : Bool := false
  /-- `cleanup_old_transactions` forgets *aborted* transactions below the horizon; every later snapshot takes their stamps
      for committed work.  Harmless when no stamp of theirs survives the vacuum, see `vacuumLeavesSessionsOpen` -/
  cleanupForgetsAborted : Bool := false
  /-- a `Session` that was open across VACUUM keeps executing statements with its old snapshot and its aborted id -/
  vacuumLeavesSessionsOpen : Bool := false
  deriving Repr

def VDefects.none : VDefects := {}

/-- `TransactionCoordinator::abort_all` -/
def abortAll (txns : List Txn) : List Txn :=
  txns.map (fun t => if t.status = .active then { t with status := .aborted } else t)

/-- `cleanup_old_transactions` applied to aborted entries: below the horizon they are forgotten = read as committed -/
def forgetAux (h : Nat) : List Txn → Nat → List Txn
  | [], _ => []
  | t :: ts, i =>
    (if i < h ∧ t.status = .aborted then { t with status := .committed } else t) :: forgetAux h ts (i + 1)

/-- `Tuple::vaccum_with` below the head: a version whose creator id is ≥ the horizon stays; of the versions below the horizon
    the newest one stays too unless a newer kept version (the head included) is already below the horizon (`kept`); the walk
    stops at the first version that goes -/
def trimTail (h : Nat) : Bool → List Version → List Version
  | _, [] => []
  | kept, w :: ws =>
    if decide (h ≤ w.creator) || !kept then w :: trimTail h (kept || decide (w.creator < h)) ws else []

/-- `Tuple::vaccum_with`: the head version stays, then `trimTail` -/
def trimChain (h : Nat) : List Version → List Version
  | [] => []
  | v :: tl => v :: trimTail h (decide (v.creator < h)) tl

/-- the versions VACUUM considers alive: those whose creator is not aborted in the vacuum snapshot (the shipped pass looks at the
    header's creator only) -/
def liveVersions (V : VDefects) (s : Snapshot) (r : Row) : List Version :=
  if V.vacuumDropsHorizonVersion then
    (match r.versions with
     | [] => []
     | v :: tl => if s.aborted.contains v.creator then [] else v :: tl)
  else r.versions.filter (fun v => !s.aborted.contains v.creator)

/-- is the row deleted for VACUUM?  Specification: some deleter committed.  Shipped: some delete mark is set -/
def deletedForVacuum (V : VDefects) (s : Snapshot) (r : Row) : Bool :=
  if V.vacuumRemovesUncommittedDelete then !r.deleters.isEmpty else r.deleters.any s.cb

/-- one row under VACUUM; `s` = snapshot of the vacuum transaction, `h` = horizon; `none` = the tuple is removed -/
def Row.vacuum (V : VDefects) (s : Snapshot) (h : Nat) (r : Row) : Option Row :=
  if (liveVersions V s r).isEmpty then none
  else if deletedForVacuum V s r then none
  else some { r with versions := trimChain h (liveVersions V s r),
                     deleters := r.deleters.filter (fun d => !s.aborted.contains d) }

def vacuumRows (V : VDefects) (s : Snapshot) (h : Nat) (rows : List Row) : List Row := rows.filterMap (Row.vacuum V s h)

/-- the same pass over an entry of a physical unique index (a tuple without history; the index is only consulted when one of
    the index defects of `Db.Defects` is on) -/
def IxEntry.vacuum (V : VDefects) (s : Snapshot) (e : IxEntry) : Option IxEntry :=
  if s.aborted.contains e.xmin then none
  else match e.xmax with
    | Option.none => some e
    | some x =>
      if V.vacuumRemovesUncommittedDelete || s.cb x then none
      else some { e with xmax := Option.none }

def vacuumIndex (V : VDefects) (s : Snapshot) (ix : Index) : Index := ix.filterMap (IxEntry.vacuum V s)

/-- storage measure: stored versions + delete marks -/
def Row.size (r : Row) : Nat := r.versions.length + r.deleters.length

def sizeRows : List Row → Nat
  | [] => 0
  | r :: rs => r.size + sizeRows rs

def State.size (σ : State) : Nat := sizeRows σ.rows

/-- the frame shared by VACUUM and by "abort everything" (reopen): `clean` is what happens to the rows, `forget` to the
    transaction table, `cleanIx` to the unique indexes, `keepSessions` whether the sessions survive -/
def State.vacuumWith (D : Defects) (keepSessions : Bool) (clean : Snapshot → Nat → List Row → List Row)
    (forget : Nat → List Txn → List Txn) (cleanIx : Snapshot → Index → Index) (σ : State) : State :=
  let σ1 : State := { σ with txns := abortAll σ.txns, sessions := if keepSessions then σ.sessions else [] }
  let h := σ1.lastCommitted
  let σ2 := (σ1.beginTxn D).1
  let vt := (σ1.beginTxn D).2
  let σ3 : State := { σ2 with rows := clean (σ2.snapOf vt) h σ2.rows, txns := forget h σ2.txns,
                              index := cleanIx (σ2.snapOf vt) σ2.index }
  let σ5 := (σ3.commitTxn vt).1
  { σ5 with clock := σ5.clock + 1 }

/-- `Database::vacuum` -/
def State.vacuum (D : Defects) (V : VDefects) (σ : State) : State :=
  σ.vacuumWith D V.vacuumLeavesSessionsOpen (vacuumRows V)
    (fun h txns => if V.cleanupForgetsAborted then forgetAux h txns 0 else txns) (vacuumIndex V)

/-- every open transaction is rolled back, its session ended, and one empty transaction runs: a clean close followed by
    `Database::open` (sessions dropped, recovery transaction) — and VACUUM without its physical part -/
def State.quiesce (D : Defects) (σ : State) : State :=
  σ.vacuumWith D false (fun _ _ rows => rows) (fun _ txns => txns) (fun _ ix => ix)

/-! ## histories with VACUUM and reopen -/

inductive VOp where
  | op (o : Op)
  | vacuum
  | reopen
  deriving Repr

structure VState where
  db : State
  /-- sessions that were open when a VACUUM ran and have not been ended since (always empty in the specification, which ends
      them; with `vacuumLeavesSessionsOpen` they go on answering) -/
  killed : List String := []
  deriving Repr

inductive VOut where
  | out (o : Out)
  /-- answer given to an operation of a session whose transaction VACUUM had aborted -/
  | dead (o : Out)
  deriving Repr, DecidableEq

def VState.init (cat : Catalog) : VState := { db := State.init cat }

def tickClock (σ : State) : State := { σ with clock := σ.clock + 1 }

def vstep (D : Defects) (V : VDefects) (τ : VState) : VOp → VState × VOut
  | .vacuum =>
    ({ db := τ.db.vacuum D V,
       killed := if V.vacuumLeavesSessionsOpen then τ.db.sessions.map (·.1) ++ τ.killed else τ.killed }, .out .ok)
  | .reopen => ({ db := τ.db.quiesce D, killed := [] }, .out .ok)
  | .op o =>
    let plain : VState × VOut := ({ τ with db := (step D τ.db o).1 }, .out (step D τ.db o).2)
    match o with
    | .begin s => ({ db := (step D τ.db o).1, killed := τ.killed.filter (· != s) }, .out (step D τ.db o).2)
    | .commit s | .rollback s | .drop s =>
      if τ.killed.contains s then
        -- the transaction is aborted (or forgotten) already: the call fails / has nothing to do; the session object goes away
        ({ db := tickClock (τ.db.endSession s), killed := τ.killed.filter (· != s) }, .dead .noSession)
      else plain
    | .exec s _ =>
      if τ.killed.contains s then ({ τ with db := (step D τ.db o).1 }, .dead (step D τ.db o).2) else plain
    | _ => plain

def vrunFrom (D : Defects) (V : VDefects) : VState → List VOp → List VOut
  | _, [] => []
  | τ, o :: os => (vstep D V τ o).2 :: vrunFrom D V (vstep D V τ o).1 os

def vfinal (D : Defects) (V : VDefects) : VState → List VOp → VState
  | τ, [] => τ
  | τ, o :: os => vfinal D V (vstep D V τ o).1 os

def vrun (D : Defects) (V : VDefects) (cat : Catalog) (ops : List VOp) : List VOut := vrunFrom D V (VState.init cat) ops

/-! ## the abstract machine with VACUUM -/

namespace Spec

/-- VACUUM / reopen on the abstract machine: every open transaction is forgotten, one empty transaction commits -/
def State.quiesce (α : State) : State :=
  { α with sessions := [], log := α.log ++ [(α.log.length, [])], clock := α.clock + 1 }

def vstep (α : State) : VOp → State × Out
  | .op o => step α o
  | .vacuum => (α.quiesce, .ok)
  | .reopen => (α.quiesce, .ok)

def vouts : State → List VOp → List Out
  | _, [] => []
  | α, o :: os => (vstep α o).2 :: vouts (vstep α o).1 os

def vfinal : State → List VOp → State
  | α, [] => α
  | α, o :: os => vfinal (vstep α o).1 os

end Spec

end AxVerif.Db
