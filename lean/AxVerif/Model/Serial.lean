/-
  Checker for histories observed on a multi-threaded run (C14).  Core Lean only; builds on `Model/Db.lean`.

  What is observed.  Every client thread issues its calls one after the other; each call is bracketed by two tickets of
  one global counter (`t0` drawn immediately before the call is issued, `t1` immediately after it has returned).  So the
  order of the calls of one thread is known, and across threads only: a call that had returned before another one was
  issued (`c.t1 < c'.t0`) took effect first.  Everything else about the global order is unknown.

  Events.  A call is cut into the *events* of the MVCC model (`Db.Op`): `begin`, `exec`, `commit`, `rollback` of a session
  are one event each; an autocommit call is three (`begin`, `exec`, `commit`/`rollback` of a transaction of its own),
  because its snapshot is taken and its commit happens at two different instants inside the call.  Each event carries
  the answer it has to produce (`expect`, `none` = not observed).

  `checkSerialSI` = is there a linearisation of the events that respects every thread's own order and the ticket order,
  on which the abstract snapshot-isolation machine `Db.Spec` (hence, by `C04.read_is_snapshot`, the MVCC machine) gives
  the observed answers?  The linearisation is *searched* (`search`, a bounded depth-first search guided by the tickets)
  and then *verified* (`verify`) — soundness only depends on `verify`.

  `checkSerial` = is the run moreover equivalent to a serial execution: the same per-thread event sequences, scheduled
  transaction by transaction, give the same answers?
-/
import AxVerif.Model.Db
namespace AxVerif.Db.MT
open AxVerif.Db

/-- one event of the model, cut out of an observed call -/
structure Ev where
  /-- tickets of the call the event belongs to -/
  t0 : Nat
  t1 : Nat
  /-- name of the transaction (unique per transaction of the run) -/
  txn : String
  op : Op
  /-- the answer this event must give, in the canonical rendering of the line protocol; `none` = not observed -/
  expect : Option String
  /-- a commit / rollback event (ends its transaction) -/
  closes : Bool := false
  /-- the observation says that this event modified at least one row -/
  wrote : Bool := false
  /-- the observation says that this event is a commit that succeeded -/
  committed : Bool := false
  deriving Repr

/-- per thread: the events still to be scheduled, in program order -/
abbrev Pending := List (List Ev)

/-- canonical rendering of an answer (rows sorted), supplied by the driver -/
abbrev Render := Out → String

def expectOk (render : Render) : Option String → Out → Bool
  | none, _ => true
  | some e, o => e == render o

/-- takes the next event of thread `i` -/
def popThread : Pending → Nat → Option (Ev × Pending)
  | [], _ => none
  | [] :: _, 0 => none
  | (e :: es) :: rest, 0 => some (e, es :: rest)
  | evs :: rest, i + 1 =>
    match popThread rest i with
    | none => none
    | some (e, rest') => some (e, evs :: rest')

/-- the linearisation a schedule (list of thread indices) stands for; `none` if the schedule asks an exhausted thread
    for an event or leaves events unscheduled -/
def replay : Pending → List Nat → Option (List Ev)
  | p, [] => if p.all List.isEmpty then some [] else none
  | p, i :: sched =>
    match popThread p i with
    | none => none
    | some (e, p') =>
      match replay p' sched with
      | none => none
      | some l => some (e :: l)

/-- ticket order: no event is placed before an event of a call that had returned before its own call was issued -/
def rtOk : List Ev → Bool
  | [] => true
  | e :: rest => rest.all (fun e' => !(decide (e'.t1 < e.t0))) && rtOk rest

/-- runs the abstract machine over the events and compares every observed answer -/
def answersOk (render : Render) : Spec.State → List Ev → Bool
  | _, [] => true
  | α, e :: rest =>
    let r := Spec.step α e.op
    expectOk render e.expect r.2 && answersOk render r.1 rest

/-- outputs of the abstract machine on the linearisation: the observation `checkSI` is given (unobserved answers are
    the machine's own) -/
def obsOf (cat : Catalog) (lin : List Ev) : Observed :=
  ⟨lin.map (·.op), (Spec.run cat (lin.map (·.op))).2⟩

/-- is `sched` a linearisation (thread order + ticket order) that the machine answers as observed? -/
def verify (render : Render) (cat : Catalog) (p : Pending) (sched : List Nat) : Bool :=
  match replay p sched with
  | none => false
  | some lin => rtOk lin && answersOk render (Spec.State.init cat) lin && checkSI cat (obsOf cat lin)

/-! ### search -/

/-- heads that may be scheduled next: no other thread's pending call had returned before this one was issued -/
def eligible (p : Pending) (e : Ev) : Bool :=
  p.all (fun evs => match evs with
    | [] => true
    | e' :: _ => !(decide (e'.t1 < e.t0)))

def heads : Pending → Nat → List (Nat × Ev)
  | [], _ => []
  | [] :: rest, i => heads rest (i + 1)
  | (e :: _) :: rest, i => (i, e) :: heads rest (i + 1)

/-- estimated instant of an event inside its call: snapshots are taken early, commits happen late -/
def Ev.est (e : Ev) : Nat := if e.closes then e.t1 else e.t0

def insertByEst (x : Nat × Ev) : List (Nat × Ev) → List (Nat × Ev)
  | [] => [x]
  | y :: ys => if x.2.est ≤ y.2.est then x :: y :: ys else y :: insertByEst x ys

/-- transactions of which no event modified a row, according to the observation -/
def effectFree (p : Pending) : List String :=
  let all := p.flatten
  (all.filter (fun e => !all.any (fun x => x.txn == e.txn && x.wrote))).map (·.txn) |>.eraseDups

/-- events that commute with every event of another transaction: statements, rollbacks, and the commit of a transaction
    that wrote nothing -/
def Ev.free (noEff : List String) (e : Ev) : Bool :=
  match e.op with
  | .exec _ _ => true
  | .rollback _ => true
  | .commit _ => noEff.contains e.txn
  | _ => false

def candidates (noEff : List String) (p : Pending) : List (Nat × Ev) :=
  let hs := (heads p 0).filter (fun h => eligible p h.2)
  match hs.find? (fun h => h.2.free noEff) with
  | some h => [h]
  | none => hs.foldr insertByEst []

def dropHead : Pending → Nat → Pending
  | [], _ => []
  | evs :: rest, 0 => evs.drop 1 :: rest
  | evs :: rest, i + 1 => evs :: dropHead rest i

/-- look-ahead when a transaction begins: its own statements depend on nothing but the snapshot taken now and its own
    earlier statements, so what they will answer can be compared with the observation at once (the events themselves are
    placed later, where the ticket order allows) -/
def lookahead (render : Render) : Spec.State → List Ev → Bool
  | _, [] => true
  | α, e :: rest =>
    if e.closes then true
    else match e.op with
      | .exec _ _ =>
        let r := Spec.step α e.op
        expectOk render e.expect r.2 && lookahead render r.1 rest
      | _ => true

def isBegin (e : Ev) : Bool :=
  match e.op with
  | .begin _ => true
  | _ => false

def admissible (render : Render) (α : Spec.State) (p : Pending) (c : Nat × Ev) : Bool :=
  let s := Spec.step α c.2.op
  expectOk render c.2.expect s.2 && (!isBegin c.2 || lookahead render s.1 ((p.getD c.1 []).drop 1))

/-- order in which the candidates are tried.  A begin whose look-ahead succeeds is placed at once, without alternative
    (placing a begin as early as it fits hurts nobody: the others do not see it, and its own reads have been checked);
    otherwise the remaining events (commits of writers), those first after which some begin that does not fit yet would
    fit (a commit somebody is waiting for), ties in the order of the estimated instants. -/
def rank (render : Render) (α : Spec.State) (p : Pending) (cands : List (Nat × Ev)) : List (Nat × Ev) :=
  let begins := cands.filter (fun c => isBegin c.2)
  match begins.find? (admissible render α p) with
  | some b => [b]
  | none =>
    let others := cands.filter (fun c => !isBegin c.2)
    let helps (c : Nat × Ev) : Bool :=
      let s := Spec.step α c.2.op
      expectOk render c.2.expect s.2 && begins.any (fun w => w.1 != c.1 && admissible render s.1 p w)
    others.filter helps ++ others.filter (fun c => !helps c)

/-- depth-first search for a schedule; `d` bounds the depth (number of events), the second component of the result is
    what is left of the node budget -/
def search (render : Render) (noEff : List String) : Nat → Nat → Spec.State → Pending → List Nat → Option (List Nat) × Nat
  | 0, b, _, p, acc => (if p.all List.isEmpty then some acc.reverse else none, b)
  | d + 1, b, α, p, acc =>
    if p.all List.isEmpty then (some acc.reverse, b)
    else
      (rank render α p (candidates noEff p)).foldl (fun (r : Option (List Nat) × Nat) (c : Nat × Ev) =>
        match r with
        | (some l, b) => (some l, b)
        | (none, 0) => (none, 0)
        | (none, b + 1) =>
          if admissible render α p c then
            search render noEff d b (Spec.step α c.2.op).1 (dropHead p c.1) (c.1 :: acc)
          else (none, b)) (none, b)

/-- diagnostics only: schedules greedily (first admissible candidate, no backtracking) and reports how far it got and
    which events were pending when it got stuck -/
def greedyProbe (render : Render) (noEff : List String) : Nat → Spec.State → Pending → Nat → Nat × List (Nat × Ev)
  | 0, _, p, n => (n, heads p 0)
  | d + 1, α, p, n =>
    if p.all List.isEmpty then (n, [])
    else
      match (rank render α p (candidates noEff p)).find? (admissible render α p) with
      | none => (n, heads p 0)
      | some c => greedyProbe render noEff d (Spec.step α c.2.op).1 (dropHead p c.1) (n + 1)

def totalEvents (p : Pending) : Nat := (p.map List.length).foldl (· + ·) 0

def findSchedule (render : Render) (cat : Catalog) (budget : Nat) (p : Pending) : Option (List Nat) :=
  (search render (effectFree p) (totalEvents p) budget (Spec.State.init cat) p []).1

/-- did the search give up for lack of budget (rather than exhaust the possible orders)? -/
def searchExhaustedBudget (render : Render) (cat : Catalog) (budget : Nat) (p : Pending) : Bool :=
  (search render (effectFree p) (totalEvents p) budget (Spec.State.init cat) p []).2 == 0

/-- **The checker.**  `budget` bounds the search only; acceptance is decided by `verify`. -/
def checkSerialSI (render : Render) (cat : Catalog) (budget : Nat) (p : Pending) : Bool :=
  match findSchedule render cat budget p with
  | none => false
  | some sched => verify render cat p sched

/-! ### serial order -/

/-- transaction blocks of a linearisation, each with the position that orders it: the commit point if the transaction
    committed something, else its begin point -/
structure Block where
  name : String
  key : Nat
  /-- schedule entries (thread indices) of the transaction's events -/
  sched : List Nat
  deriving Repr

def addToBlock (name : String) (i : Nat) (pos : Nat) (isKey : Bool) : List Block → List Block
  | [] => [⟨name, pos, [i]⟩]
  | b :: bs =>
    if b.name == name then { b with sched := b.sched ++ [i], key := if isKey then pos else b.key } :: bs
    else b :: addToBlock name i pos isKey bs

/-- a commit that succeeded orders its transaction, provided the transaction wrote -/
def isKeyEvent (wrote : List String) (e : Ev) : Bool := e.committed && wrote.contains e.txn

def wroteSomething (e : Ev) : Bool := e.wrote

def blocksOf : List (Nat × Ev) → Nat → List String → List Block → List Block
  | [], _, _, acc => acc
  | (i, e) :: rest, pos, wrote, acc =>
    let wrote := if wroteSomething e then e.txn :: wrote else wrote
    blocksOf rest (pos + 1) wrote (addToBlock e.txn i pos (isKeyEvent wrote e) acc)

def insertBlock (b : Block) : List Block → List Block
  | [] => [b]
  | c :: cs => if b.key ≤ c.key then b :: c :: cs else c :: insertBlock b cs

/-- the schedule that runs the transactions of `sched` one after the other, ordered by their key positions -/
def serialSchedule (p : Pending) (sched : List Nat) : List Nat :=
  match replay p sched with
  | none => []
  | some lin =>
    let bs := blocksOf (sched.zip lin) 0 [] []
    ((bs.foldr insertBlock []).map (·.sched)).flatten

/-- maximal runs of events with the same transaction name -/
def runsOf : List Ev → List (String × List Ev)
  | [] => []
  | e :: rest =>
    match runsOf rest with
    | (n, evs) :: more => if n == e.txn then (n, e :: evs) :: more else (e.txn, [e]) :: (n, evs) :: more
    | [] => [(e.txn, [e])]

def nodupStr : List String → Bool
  | [] => true
  | x :: xs => !xs.contains x && nodupStr xs

/-- every transaction's events are contiguous -/
def serialB (lin : List Ev) : Bool := nodupStr ((runsOf lin).map (·.1))

/-- is `sched` a schedule (thread order kept) that runs the transactions one at a time and that the machine answers as
    observed? -/
def verifySerial (render : Render) (cat : Catalog) (p : Pending) (sched : List Nat) : Bool :=
  match replay p sched with
  | none => false
  | some lin => serialB lin && answersOk render (Spec.State.init cat) lin && checkSI cat (obsOf cat lin)

/-- **Serial certification**: the serial schedule derived from the linearisation found by the search is verified. -/
def checkSerial (render : Render) (cat : Catalog) (budget : Nat) (p : Pending) : Bool :=
  match findSchedule render cat budget p with
  | none => false
  | some sched => verifySerial render cat p (serialSchedule p sched)

end AxVerif.Db.MT
