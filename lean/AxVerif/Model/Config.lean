/-
  Model of the configuration path: `DBConfig::new` / `DBConfigBuilder` (common/mod.rs), the narrowing of the
  settings into the page-zero header (`PageZeroHeader::from_config`, `Pager::alloc_page_zero`: `as u32/u16/u8`),
  and what a running engine actually uses (`Pager::page_size/min_keys_per_page/num_siblings_per_side` read the
  header; the cache capacity comes from the configuration at creation and from `Pager::open` afterwards).
  Core Lean only.
-/
import AxVerif.Model.Cache
namespace AxVerif.Config
open AxVerif.Cache (Defects)

def minPageSize : Nat := 4096
def maxPageSize : Nat := 65536
def defaultCacheSize : Nat := AxVerif.Cache.defaultCacheSize
def defaultPageSize : Nat := 4096
def defaultMinKeys : Nat := 3
def defaultSiblings : Nat := 2

/-- `usize::next_power_of_two` (for arguments up to 2^63) -/
def nextPow2 (n : Nat) : Nat := if n ≤ 1 then 1 else 2 ^ (Nat.log2 (n - 1) + 1)

/-- `.next_power_of_two().clamp(MIN_PAGE_SIZE, MAX_PAGE_SIZE)` -/
def clampPage (n : Nat) : Nat := min (max (nextPow2 n) minPageSize) maxPageSize

structure Config where
  pageSize : Nat
  cacheSize : Nat
  poolSize : Nat
  minKeys : Nat
  siblings : Nat
deriving Repr, DecidableEq

/-- fewest keys per page the B+tree works with (`MIN_KEYS_PER_PAGE`, asserted by `Btree::new`) -/
def treeMinKeys : Nat := 3

/-- `DBConfig::new`: the page size is normalised, min keys raised to the tree's minimum. -/
def Config.new (page cache pool minKeys siblings : Nat) : Config :=
  { pageSize := clampPage page, cacheSize := cache, poolSize := pool, minKeys := max minKeys treeMinKeys, siblings := siblings }

/-- `DBConfig::new` as shipped: min keys passed through unchanged (defect `minKeysBelowTreeMinimum`, fixed). -/
def Config.newShipped (page cache pool minKeys siblings : Nat) : Config :=
  { pageSize := clampPage page, cacheSize := cache, poolSize := pool, minKeys := minKeys, siblings := siblings }

/-- `DBConfig::builder().page_size(..).cache_size(..).pool_size(..).min_keys_per_page(..).num_siblings_per_side(..).build()` -/
def Config.builder (page cache pool minKeys siblings : Nat) : Config :=
  { pageSize := clampPage page, cacheSize := cache, poolSize := max pool 1, minKeys := max minKeys treeMinKeys, siblings := siblings }

/-- the builder as shipped: clamped to 2, below the tree's minimum (defect `minKeysBelowTreeMinimum`, fixed) -/
def Config.builderShipped (page cache pool minKeys siblings : Nat) : Config :=
  { pageSize := clampPage page, cacheSize := cache, poolSize := max pool 1, minKeys := max minKeys 2, siblings := siblings }

/-- the configuration fields of `PageZeroHeader` -/
structure Header where
  pageSize : Nat     -- u32
  cacheSize : Nat    -- u16
  minKeys : Nat      -- u8
  siblings : Nat     -- u8
deriving Repr, DecidableEq

/-- `Pager::alloc_page_zero` -/
def toHeader (D : Defects) (c : Config) : Header :=
  { pageSize := c.pageSize % 2 ^ 32, cacheSize := AxVerif.Cache.headerCacheSize D c.cacheSize, minKeys := c.minKeys % 2 ^ 8,
    siblings := c.siblings % 2 ^ 8 }

/-- What the engine runs with. -/
structure Effective where
  pageSize : Nat
  cacheCapacity : Nat
  minKeys : Nat
  siblings : Nat
deriving Repr, DecidableEq

/-- in the session that created the database (`Pager::from_config`) -/
def effectiveAtCreate (D : Defects) (c : Config) : Effective :=
  let h := toHeader D c
  { pageSize := h.pageSize, cacheCapacity := c.cacheSize, minKeys := h.minKeys, siblings := h.siblings }

/-- after `Pager::open` -/
def effectiveAtOpen (D : Defects) (h : Header) : Effective :=
  { pageSize := h.pageSize, cacheCapacity := if D.openIgnoresCacheSize then defaultCacheSize else h.cacheSize,
    minKeys := h.minKeys, siblings := h.siblings }

/-- what the user asked for, as the engine should run it -/
def requested (c : Config) : Effective :=
  { pageSize := c.pageSize, cacheCapacity := c.cacheSize, minKeys := c.minKeys, siblings := c.siblings }

def showConfig (c : Config) : String := s!"{c.pageSize},{c.cacheSize},{c.poolSize},{c.minKeys},{c.siblings}"
def showHeader (h : Header) : String := s!"{h.pageSize},{h.cacheSize},{h.minKeys},{h.siblings}"

end AxVerif.Config
