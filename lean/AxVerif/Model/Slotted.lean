/-
  Slotted-page accounting (storage/core/buffer.rs, `BtreeOps`): the data area of a B-tree page holds the slot array at
  its start (2 bytes per slot) and the cells at its end; `free_space_ptr` is the lowest cell offset ever written since
  the last defragmentation, `free_space` counts every byte that is not a live cell or its slot.

  `wfB` is the decision procedure applied to every page of every dump (offsets and sizes as found in the real page);
  the operations below are the code's `remove`, `replace` (case 1: the new cell is not larger) and `insert` (without the
  defragmentation branch), used for the invariance theorems and for the witness of the shipped `replace` defect.
  Offsets are relative to the data area, as in the code. Core Lean only.
-/
namespace AxVerif.Slotted

structure Defects where
  /-- shipped in `replace`: the bytes gained by shrinking a cell in place were added to `free_space_ptr`
      (KF-C10-replace-moves-free-pointer, fixed by 4725b87) -/
  replaceMovesFsp : Bool := false
  deriving Repr, DecidableEq

def Defects.none : Defects := {}

/-- one B-tree page: capacity of the data area, (offset, total size) of the cell of every slot, header counters -/
structure SPage where
  cap : Nat
  slots : List (Nat × Nat)
  fsp : Nat
  free : Nat
  deriving Repr, DecidableEq

def slotSize : Nat := 2
def storage (size : Nat) : Nat := size + slotSize

def sumStorage : List (Nat × Nat) → Nat
  | [] => 0
  | c :: cs => storage c.2 + sumStorage cs

def cellOk (p : SPage) (c : Nat × Nat) : Bool :=
  decide (p.fsp ≤ c.1) && decide (c.1 + c.2 ≤ p.cap) && decide (c.1 % 8 = 0) && decide (c.2 % 8 = 0) && decide (0 < c.2)

def apart (a b : Nat × Nat) : Bool := decide (a.1 + a.2 ≤ b.1) || decide (b.1 + b.2 ≤ a.1)

/-- every earlier cell is apart from every later one -/
def disjointB : List (Nat × Nat) → Bool
  | [] => true
  | c :: cs => cs.all (apart c) && disjointB cs

/-- The accounting invariant as a decision procedure. -/
def wfB (p : SPage) : Bool :=
  p.slots.all (cellOk p) && disjointB p.slots && decide (p.free + sumStorage p.slots = p.cap) &&
    decide (slotSize * p.slots.length ≤ p.fsp) && decide (p.fsp ≤ p.cap)

/-- `remove(index)`: the slot goes away, its storage is counted as free, the free space pointer stays -/
def removeSlot (p : SPage) (idx : Nat) : Option SPage :=
  match p.slots[idx]? with
  | none => none
  | some c => some { p with slots := p.slots.eraseIdx idx, free := p.free + storage c.2 }

/-- `replace(index, new)` when the new cell is not larger than the old one: overwrite in place -/
def replaceShrink (D : Defects) (p : SPage) (idx newSize : Nat) : Option SPage :=
  match p.slots[idx]? with
  | none => none
  | some c =>
    if newSize ≤ c.2 ∧ 0 < newSize ∧ newSize % 8 = 0 then
      let gained := c.2 - newSize
      some { p with slots := p.slots.set idx (c.1, newSize), free := p.free + gained,
                    fsp := if D.replaceMovesFsp then p.fsp + gained else p.fsp }
    else none

/-- `insert(index, cell)` when the gap between slot array and cells is large enough (no defragmentation):
    `hdr` is the page header size the code (wrongly, but harmlessly) adds to the start of the content area -/
def insertAt (hdr : Nat) (p : SPage) (idx size : Nat) : Option SPage :=
  let n := p.slots.length
  if idx ≤ n ∧ storage size ≤ p.fsp - (hdr + slotSize * n) ∧ storage size ≤ p.free ∧ size ≤ p.fsp ∧
      size % 8 = 0 ∧ (p.fsp - size) % 8 = 0 ∧ 0 < size then
    some { p with slots := (p.slots.take idx) ++ (p.fsp - size, size) :: p.slots.drop idx,
                  fsp := p.fsp - size, free := p.free - storage size }
  else none

end AxVerif.Slotted
