/- `axmodel <engine> [defect flags…]` : one case per stdin line, one answer per stdout line. -/
import AxVerif.Driver.BTree
import AxVerif.Driver.Cache
import AxVerif.Driver.Crash
import AxVerif.Driver.Fuzz
import AxVerif.Driver.Hist
import AxVerif.Driver.Pager
import AxVerif.Driver.Parse
import AxVerif.Driver.Plan
import AxVerif.Driver.Pool
import AxVerif.Driver.Sql
import AxVerif.Driver.Threads
import AxVerif.Driver.Tuple
import AxVerif.Driver.Value
import AxVerif.Driver.Vacuum
import AxVerif.Driver.Reopen
import AxVerif.Driver.Ddl
import AxVerif.Driver.Wal
import AxVerif.Driver.Wire
open AxVerif

partial def loop (h : IO.FS.Stream) (out : IO.FS.Stream) (f : String → String) : IO Unit := do
  let line ← h.getLine
  if line.isEmpty then return ()
  out.putStrLn (f line)
  loop h out f

def main (args : List String) : IO UInt32 := do
  let stdin ← IO.getStdin
  let stdout ← IO.getStdout
  match args with
  | "btree" :: flags => loop stdin stdout (Drivers.btree flags); return 0
  | "cache" :: flags => loop stdin stdout (Drivers.cache flags); return 0
  | "crash" :: flags => loop stdin stdout (Drivers.crash flags); return 0
  | "fuzz" :: flags => loop stdin stdout (Drivers.fuzz flags); return 0
  | "hist" :: flags => loop stdin stdout (Drivers.hist flags); return 0
  | "pager" :: flags => loop stdin stdout (Drivers.pager flags); return 0
  | "parse" :: flags => loop stdin stdout (Drivers.parse flags); return 0
  | "plan" :: flags => loop stdin stdout (Drivers.plan flags); return 0
  | "pool" :: flags => loop stdin stdout (Drivers.pool flags); return 0
  | "sql" :: flags => loop stdin stdout (Drivers.sql flags); return 0
  | "threads" :: flags => loop stdin stdout (Drivers.threads flags); return 0
  | "tuple" :: flags => loop stdin stdout (Drivers.tuple flags); return 0
  | "value" :: flags => loop stdin stdout (Drivers.value flags); return 0
  | "vacuum" :: flags => loop stdin stdout (Drivers.vacuum flags); return 0
  | "reopen" :: flags => loop stdin stdout (Drivers.reopen flags); return 0
  | "ddl" :: flags => loop stdin stdout (Drivers.ddl flags); return 0
  | "wal" :: flags => loop stdin stdout (Drivers.wal flags); return 0
  | "wire" :: flags => loop stdin stdout (Drivers.wire flags); return 0
  | _ => IO.eprintln "usage: axmodel <engine> [defect flags]"; return 2
