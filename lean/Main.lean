/- `axmodel <engine> [defect flags…]` : one request per stdin line, one response per stdout line. -/
import AxVerif.Driver.Wire
open AxVerif

partial def loop (h : IO.FS.Stream) (out : IO.FS.Stream) (f : String → String) : IO Unit := do
  let line ← h.getLine
  if line.isEmpty then return ()
  out.putStrLn (f line)
  loop h out f

def main (args : List String) : IO UInt32 := do
  let stdin ← IO.getStdin
  let stdout ← IO.getStdout
  match args with
  | "wire" :: flags => loop stdin stdout (Wire.step (Wire.parseDefects flags)); return 0
  | _ => IO.eprintln "usage: axmodel <engine> [defect flags]"; return 2
