import AxVerif.Model.Bytes
import AxVerif.Model.Wire
import AxVerif.Generated
import AxVerif.Driver.Wire
import AxVerif.Thm.C20
