-- Library root: models, drivers and every property-theorem module, so that `lake build` checks all proofs.
import AxVerif.Model.Bytes
import AxVerif.Model.Wire
import AxVerif.Generated.Wire
import AxVerif.Driver.Wire
import AxVerif.Thm.C20
import AxVerif.Thm.C01
import AxVerif.Thm.C02
import AxVerif.Thm.C08
import AxVerif.Model.Db
import AxVerif.Driver.Hist
import AxVerif.Thm.C04
import AxVerif.Thm.C03
import AxVerif.Model.Reopen
import AxVerif.Driver.Reopen
import AxVerif.Thm.C09
