-- Library root: models, drivers and every property-theorem module, so that `lake build` checks all proofs.
import AxVerif.Model.Bytes
import AxVerif.Model.Wire
import AxVerif.Generated.Wire
import AxVerif.Driver.Wire
import AxVerif.Thm.C20
import AxVerif.Thm.C16
