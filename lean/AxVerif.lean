-- Library root: models, drivers and every property-theorem module, so that `lake build` checks all proofs.
import AxVerif.Model.Bytes
import AxVerif.Model.Wire
import AxVerif.Generated.Wire
import AxVerif.Driver.Wire
import AxVerif.Thm.C20
import AxVerif.Model.BTree
import AxVerif.Model.Balance
import AxVerif.Generated.BTree
import AxVerif.Driver.BTree
import AxVerif.Thm.C10
