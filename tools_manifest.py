#!/usr/bin/env python3
"""Regenerates MANIFEST.json from checkcfg.py + manifest_text.py (so the two never drift)."""
import json, os, sys
ROOT = os.path.dirname(os.path.abspath(__file__))
sys.path.insert(0, ROOT)
from checkcfg import PROPS
from manifest_text import TEXT, NOT_APPLICABLE
import subprocess as _sp
# every commit of /repo whose subject contains `verif hooks` (feature-gated, add-only), oldest first
HOOK_COMMITS = [l.split()[0] for l in _sp.run(['git', '-C', '/repo', 'log', '--reverse', '--format=%h %s'], capture_output=True, text=True).stdout.splitlines() if 'verif hooks' in l.lower()] or __import__('manifest_text').HOOK_COMMITS

checks = []
for pid in sorted(PROPS):
    t = TEXT[pid]
    checks.append({
        "property_id": pid,
        "quick_cmd": f"./check {pid} --tier quick",
        "thorough_cmd": f"./check {pid} --tier thorough",
        "evidence_file": f"/verif/evidence/{pid}.json",
        "replay_cmd_template": f"./check {pid} --replay {{path}}",
        "engine": "+".join(PROPS[pid]["engines"]),
        "level_claimed": {"category": "proof", "text": t["text"], "design_ref": t["design_ref"]},
        "level_note": t["note"],
        "technique": t["technique"],
    })
m = {
    "version": 1,
    "setup_cmd": "cd /verif/lean && lake build && cd /verif/harness && CARGO_NET_OFFLINE=true cargo build --release --offline",
    "hooks": {
        "guard": "cargo feature `verif` of crate axmosdb",
        "enable": "the harness crate /verif/harness depends on /repo/crates/axmos-db with features = [\"verif\"]",
        "baseline_off_cmd": "cd /repo && cargo test --workspace --no-fail-fast --offline",
        "source_commits": HOOK_COMMITS,
        "add_only": True,
    },
    "engines": [
        {"name": "axh", "path": "/verif/harness", "serves_properties": sorted(PROPS),
         "kind_free_text": "Rust harness linked against /repo's working tree: case generators, in-process executors of the real code, child supervision (abort/hang), constant extraction"},
        {"name": "axmodel", "path": "/verif/lean", "serves_properties": sorted(PROPS),
         "kind_free_text": "Lean 4 project: executable models (AxVerif/Model), property theorems (AxVerif/Thm), compiled line-protocol driver"},
    ],
    "checks": checks,
    "not_applicable": [{"property_id": k, "reason": v} for k, v in sorted(NOT_APPLICABLE.items()) if k not in PROPS],
    "notes": "All claimed properties are decided by Lean 4 theorems about executable models, tied to /repo by a differential correspondence check and by constants extracted from the code on every run. See DESIGN.md.",
}
json.dump(m, open(os.path.join(ROOT, "MANIFEST.json"), "w"), indent=1)
print("MANIFEST.json:", len(checks), "checks,", len(m["not_applicable"]), "not_applicable")
