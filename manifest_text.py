"""Shared texts for MANIFEST.json; per-property texts live in cfg/Cnn.py (TEXT)."""
from checkcfg import TEXT  # noqa: F401

# commits in /repo that add the guarded hooks (feature `verif`)
HOOK_COMMITS = ["89caa3c", "ecf4dc9", "6a683e6", "6efeff3", "f050715", "39ce870", "732b065", "1e0f5a1", "71da46f", "7ec9dd3", "4082d4e", "b4c261d", "011679a", "59b9e80", "5a2f56c", "cfbaf0a", "5a2d62e", "f27b178", "dcf0782", "35850d2", "4bbdc94", "768e7f5", "8cde7b4"]

_PENDING = "not claimed yet: model, theorems and correspondence engine for this property are still being built (DESIGN.md §8 build order); will be claimed at category proof"
NOT_APPLICABLE = {f"C{i:02d}": _PENDING for i in range(1, 21)}
