"""Human-written texts for MANIFEST.json (level claimed, trusted base) per property."""
HOOK_COMMITS = ["89caa3c"]

_PENDING = "not claimed yet: model, theorems and correspondence engine for this property are still being built (see DESIGN.md §8 build order); will be claimed at category proof"
NOT_APPLICABLE = {f"C{i:02d}": _PENDING for i in range(1, 21)}

TEXT = {
    "C20": {
        "text": "Full: Lean theorems decode∘encode = id for every Request and Response (any number of rows/columns, empty and non-ASCII strings), "
                "framing round-trip and cap, rejection of short/wrong-version/unknown-status input, and a bound (≤ bytes received) on every "
                "capacity request of the decoder — for all inputs, no size bound. The model is tied to tcp/mod.rs by ~20 000 generated cases per run "
                "(byte-exact encodings, decoder outcomes on arbitrary and mutated bytes under an address-space limit) and by constants extracted from the code.",
        "design_ref": "DESIGN.md §5 C20",
        "note": "Trusted: Lean kernel + propext/Quot.sound; the hand-written model of tcp/mod.rs (validated differentially, not verified); "
                "from_utf8_lossy modelled by `lossy`; query_result_to_response (server binary) only assumed to produce rectangular rows; "
                "zero-column Rows messages announcing > 10^4 rows are excluded from generation (valid but enormous).",
        "technique": "Lean 4 round-trip and bound theorems + differential correspondence with the real encoder/decoder",
    },
}
