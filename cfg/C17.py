"""C17 — the write-ahead log returns exactly what was appended."""

ENGINES = {
    "wal": {
        "jobs": 8,
        "op_sep": " ; ",
        # The Lean model with no defect flags is, by theorem `run_refines_spec`, the specification itself
        # (appended / forced lists): any gating difference (LSN handed out, accept/reject of a push, records read
        # back, open failing) between the real log and it is a failure of C17.
        "spec_is_oracle": True,
    },
}

PROP = {
    "engines": ["wal"],
    "lean_modules": ["AxVerif.Model.Wal", "AxVerif.Lemmas.Wal", "AxVerif.Generated.Wal", "AxVerif.Model.Bytes",
                     "AxVerif.Lemmas.Bytes"],
    "rule": "cases = (a) every op sequence of length <= 4 (thorough: 5) over {push empty, push exactly filling the target "
            "block, push 30 000 bytes, force, reopen, truncate, crash}, once with one final read and once with a read "
            "after every op; (b) random sequences of 5..60 ops (thorough: ..300) in three styles (free mix / production "
            "pattern begin-changes-commit-force-end / pre-filled), payload sizes: empty, 1..64 (every residue mod 8), "
            "1000..8000, boundary-targeted (record ends -16..+88 bytes from the end of the target block, every "
            "residue), 20 000..max, and the limit sizes around max_record_size and around what a fresh block takes; "
            "read-ahead 1..6 (rarely 0); each ends with read / force / read / reopen / read / image, where `image` is the file itself read by the "
            "harness block by block (block number, used bytes, first/last LSN, total_blocks, digest of the used data area) against "
            "the model's blocks and `encodeRecs`; (c) record images "
            "(`rec`): every pair of payload lengths 0..8, random lengths < 70, u16 limits; all from VERIF_SEED, executed "
            "on the real WriteAheadLog on a file (O_DIRECT, real fsync). Non-trivial = a sequence that crosses at least one "
            "block boundary and forces at least twice, at least once after the crossing; every `rec` case. Distinct = distinct case line.",
    "assumptions": [
        "push = Pager::push_to_log's LSN assignment (last_lsn()+1, or 0) followed by WriteAheadLog::push; the header "
        "fields prev_lsn/object_id/row_id and the payload bytes of a `push T K U R` op are fixed functions of (T, K), "
        "payloads are compared by length and FNV-1a digest",
        "crash = the file content as the OS sees it at that instant survives (copy of the file), the log object does not; "
        "crashes inside one operation (between two writes of a force) belong to C01/C08, not to this engine",
        "the reader performs no validation: `rec` cases decode only images produced by the encoder",
        "block size is the one the code computes on the scratch file system (40960 here); the model and the theorems are parametric in it",
    ],
    "partial": "",
    "trusted": ["the scratch directory is on a file system that accepts O_DIRECT"],
}

TEXT = {
    "text": "Full: Lean theorem `run_refines_spec`: for every sequence of push / force / truncate / reopen / crash / read(k>0), every "
            "output of the step-by-step model of io/wal.rs (placement into block zero and numbered blocks with exact sizes, "
            "rotation, perform_flush offsets, header bookkeeping, open, WalReader preload/reload) equals the output of the "
            "abstract specification (list of accepted records + forced prefix); corollaries: a read returns exactly the forced "
            "prefix, everything after a force or reopen, LSNs strictly increasing, nothing invented, over-large push rejected with "
            "state unchanged, accepted records fit the u16/u32 header fields; byte-level round-trip of the record image and of a block's data area. "
            "Model tied to the code by ~6 500 sequences per quick run on the real log (records read back, LSNs, errors, and the bytes of the file) "
            "and by constants evaluated from the code. Five defects of the shipped log found and fixed.",
    "design_ref": "DESIGN.md §5 C17",
    "note": "Trusted: Lean kernel + propext/Quot.sound/Classical.choice; the hand-written model of io/wal.rs (validated differentially: "
            "0 differences on the fixed code, and 0 differences between the shipped code and the model with all five defect flags on); "
            "a block is modelled as header fields + record list (byte image proved for records and data areas, block/file headers only compared); "
            "crashes between the writes of one force are not modelled here, so the order of the writes inside a force is not observed (C01/C08).",
    "technique": "Lean 4 refinement proof (invariant by induction over operations) + record codec round-trip + differential correspondence with the real WriteAheadLog",
}
