"""C13 — VACUUM frees space without changing what anyone can see.  Engine `vacuum`.

Case syntax (one line; parsers: harness/src/engines/vacuum.rs `parse_case` / `parse_cycles`, lean/AxVerif/Driver/Vacuum.lean):

  (1) vac <setup…> | <op> ; <op> ; …
      setup  as engine `hist` (cfg/C04.py): tab=<name>(<col>:<type>[!][*],…)  row=<table>:<v>,…  fresh
             tmp                            a side table `tmpzz (k BIGINT)` with rows 1, 2 (outside the model's static catalog)
      op     every op of engine `hist`: s<i> begin|commit|rollback|drop, s<i> <stmt>, db <stmt>, db batch <stmt> & …
             vac                            Database::vacuum                                    → `vac`
             vacchk                         SELECT * of every table; VACUUM; the same SELECTs   → `vac(same)` | `PROPFAIL-vac-changed(<before>-><after>)`
             reopen                         all sessions dropped, handle dropped, Database::open → `reopen`
             db droptmp | s<i> droptmp      DROP TABLE tmpzz                                    → `ddl` | error class
      VACUUM aborts every open transaction: from then on each operation of a session that was open must fail, printed
      `nosession` whatever the error; an answer is printed `PROPFAIL-killed-session-answered(<token>)`, a successful commit
      `PROPFAIL-killed-session-committed`.
      output one token per op, ` | `, `<table>=[rows]` for every table (and tmpzz) read by fresh autocommit statements;
             after ` ## ` diagnostics: error texts, `pages=<total_allocated_pages> file=<bytes>` after every VACUUM
  (2) cycles rows=<n> cycles=<c> reopen=<k> how=auto|sess|batch|rbk
      table t(k,v) with n rows; c times: UPDATE every row (autocommit | in a session that commits | batch of two halves |
      autocommit + a rolled-back INSERT), VACUUM, file size and page count recorded; reopen after every k-th cycle (0 = never)
      → `bounded rows=<n> wrong=<rows whose v is not c> probe=ok`, where `bounded` = no size after cycle 10.. exceeds the size
        after cycle 3 by more than 2 pages (model: stored versions + delete marks, no slack), else `PROPFAIL growth …`
  model flags: field names of Db.Defects and Db.VDefects
"""

ENGINES = {
    "vacuum": {
        "jobs": 8,
        # the Lean model with all flags off is the oracle for every read, every outcome class and every `vac(same)`
        "spec_is_oracle": True,
        "op_sep": " ; ",
    },
}

PROP = {
    "engines": ["vacuum"],
    "lean_modules": ["AxVerif.Model.Db", "AxVerif.Model.Vacuum", "AxVerif.Lemmas.Db", "AxVerif.Lemmas.DbSim", "AxVerif.Lemmas.DbHist",
                     "AxVerif.Lemmas.Vacuum", "AxVerif.Lemmas.VacuumGrowth", "AxVerif.Driver.Hist", "AxVerif.Driver.Vacuum"],
    "rule": "one case = schema + committed initial rows + a multi-session history (as engine hist: sessions stepped from one thread) "
            "with VACUUM (bare or checked by all-table SELECTs before/after) and reopen at arbitrary places, any number of times, "
            "followed by reads from fresh autocommit statements, a session opened after the last VACUUM (reads twice, writes, "
            "commits or rolls back) and probe INSERT/UPDATE/DELETE. Families: 900 random histories (1-3 sessions + autocommit "
            "statements + 1-3 VACUUM/reopen, randomly interleaved), 800 targeted ones (rolled-back DELETE / INSERT / UPDATE, "
            "committed DELETE and reinsertion, chains of committed UPDATEs, transactions below the horizon open at VACUUM time, "
            "readers open across it, empty tables and double VACUUM, two tables, DROP TABLE, many finished transactions + reopen, insert + update changing NULL-ness inside the last transaction before VACUUM, "
            "failing statements), 24 growth cases (12-20 update/VACUUM cycles on 1-300 rows, with reopen) + one of 260 cycles; thorough = 10x, "
            "cycles up to 60. Non-trivial (`nt`) = the history contains a rolled-back write (ROLLBACK, session drop, "
            "transaction cut off by VACUUM/reopen) or a superseded version (committed UPDATE or DELETE) before some VACUUM; "
            "every growth case is non-trivial; distinct = distinct case line. Tags `clean` / `kf:<feature>` give the split.",
    "assumptions": [
        "the logical model has no pages: `size` = stored versions + delete marks; the file size / page count of the real database is compared only through the `bounded` verdict of the growth family and printed as diagnostics (free-page count is not reachable through the public API)",
        "a transaction id that the coordinator has forgotten is read by every later snapshot exactly like a committed one; in the model (transaction table = list indexed by id) forgetting a committed transaction is the identity and forgetting an aborted one is the relabelling of flag cleanupForgetsAborted, proved unobservable after the specification's VACUUM (forget_aborted_unobservable)",
        "reopen = clean close (sessions dropped first) + Database::open: logically 'abort everything + one empty transaction' (State.quiesce); the aborted bitmap (8192 ids) is not exceeded by any generated history",
        "the catalog is static in the model: CREATE happens in the setup, DROP TABLE only for the side table tmpzz whose existence the driver tracks by hand",
        "kept out of generation (findings of C03/C04/C07): two open transactions writing one row, statements failing after their first row inside a session, reinsertion of a deleted unique key, UPDATE on a table with a unique index",
    ],
    "partial": "vacuum_idempotent_partial: observations are idempotent, a second VACUUM drops no row, never stores more, and leaves exactly "
               "one version per row and no mark, after which the size is a fixed point; the design's `size (vacuum (vacuum db)) = size (vacuum db)` "
               "is kept as vacuum_idempotent_statement and is FALSE of the code-mirroring model (vacuum_size_not_idempotent_witness: vaccum_with "
               "keeps the deltas whose xmin equals the horizon and the newest version older than it). bounded_growth is proved for cycles of ONE "
               "autocommit statement (any statement, failing ones included) followed by VACUUM, any number of cycles, starting after any history + "
               "one VACUUM: rows <= size <= 2 * rows; for arbitrary work between two VACUUMs a bound by a function of the row count alone "
               "(bounded_growth_statement) does not hold for a single VACUUM and is not claimed; the general bound size_after_vacuum_le (one version "
               "per row + the versions written by the last committed transaction) and no_chain_survives (at most one version older than the horizon "
               "per row) are proved instead. forget_aborted_unobservable is proved for the transaction beginning right after the VACUUM, not as a "
               "simulation for all later histories (the relabelled table breaks the invariant the simulation uses). vacuum_removes_only_unneeded is "
               "stated for the snapshot of every transaction that begins after the VACUUM and after any further history; snapshots of sessions open "
               "across the VACUUM do not exist in the specification (vacuum_ends_open_sessions).",
    "trusted": ["one history is executed from a single thread: the interleaving is exactly the op order of the case line",
                "Driver/Vacuum.lean's bookkeeping for the side table tmpzz and for the `killed` session names (unverified glue, 40 lines)"],
}

TEXT = {
    "text": "Lean theorems over ALL histories with VACUUM and reopen at arbitrary points: the MVCC model with VACUUM's physical effect "
            "(abort all active transactions, drop versions of aborted creators, rows deleted by committed deleters, marks of rolled-back "
            "deleters, deltas below the horizon, forget old transactions) produces exactly the outputs of the abstract snapshot-isolation "
            "machine in which VACUUM only ends the open transactions — hence the same outputs as the history with every VACUUM replaced by "
            "'abort everything'; every dropped version or row is selected by no snapshot that can exist afterwards; VACUUM is idempotent on "
            "observations; repeated update/VACUUM cycles keep at most two versions per row. Tied to the code by ~1 700 (quick) / ~17 000 "
            "(thorough) generated histories through the public API, incl. all-table SELECTs before/after every checked VACUUM and file "
            "size over update/VACUUM cycles.",
    "design_ref": "DESIGN.md §5 C13",
    "note": "Three defects of the shipped VACUUM were repaired (fix: 5a0daed, 02c68a3): every tuple with a delete mark was removed, "
            "whoever the deleter (DELETE, ROLLBACK, VACUUM lost the row); sessions open across VACUUM kept executing with a stale "
            "snapshot under an aborted id, and because the coordinator forgets aborted transactions below the horizon their later "
            "writes became visible to everybody without a commit. Remaining findings: updateKeepsInserterXmin (C03/C04, exact "
            "attribution) and non-transactional DROP TABLE making VACUUM fail after a rolled-back DROP (C15, region attribution); "
            "latent: vacuumDropsHorizonVersion (masked by updateKeepsInserterXmin); the u8 version counter that ended update/VACUUM cycles at 255 was repaired on main (02a6d5d). Partial: size idempotence only from the second "
            "VACUUM on; bounded_growth (size <= 2 * rows) for one statement per cycle.",
    "technique": "Lean 4 refinement proof (VACUUM preserves the simulation relation of C04) + differential correspondence with the real Database::vacuum",
}
