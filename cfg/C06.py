"""C06 — the chosen plan never changes the answer."""

ENGINES = {
    "plan": {
        "jobs": 8,
        # every query is run in several semantically identical forms that force different plans; all forms must agree
        # (otherwise the engine prints PROPFAIL) and the common answer must be the Lean reference evaluator's:
        # any gating difference is a failure of the property
        "spec_is_oracle": True,
        "op_sep": " ; ",
    },
}

PROP = {
    "engines": ["plan"],
    "lean_modules": ["AxVerif.Model.Plan", "AxVerif.Model.Index", "AxVerif.Lemmas.Plan", "AxVerif.Lemmas.Index",
                     "AxVerif.Lemmas.PlanRules", "AxVerif.Lemmas.PlanSql", "AxVerif.Lemmas.PlanOrd", "AxVerif.Model.Sql", "AxVerif.Lemmas.Sql"],
    "rule": "one case = a database (1-3 tables, 0-320 rows, unique indexes over one or two columns, INT/BIGINT/TEXT keys), a "
            "history (INSERT, UPDATE of plain / unique / indexed columns, DELETE by key, by range over an indexed column and by "
            "other predicates, re-insertion of deleted keys, committed and rolled-back sessions, VACUUM, ANALYZE with sample "
            "rates 0.001-1 and 1-10000 sampled rows) and 2-8 queries (single table with conjunctions over indexed columns, "
            "2- and 3-way joins of every type with equi / theta / one-sided ON conjuncts and one-sided WHERE conjuncts, "
            "aggregates, DISTINCT, ORDER BY, LIMIT). The harness builds the database twice (indexes before the data / indexes "
            "created at the `mkix` op) and runs every query (a) as written, (b) with every indexed integer column wrapped as "
            "(col + 0), (c) with the join operands permuted (LEFT<->RIGHT, ON conjuncts reordered and redistributed), (f) with every "
            "table replaced by a derived table over its permuted columns, part of a single-table WHERE moved inside (filter over "
            "projection over filter: push-down through projections, filter merge), (g) with the last column = column conjunct of "
            "the outermost ON clause written (x + 0) = y (no equi-join key: no hash or merge join there, no ordering asked of the "
            "joins below), (e) on the late-index database, (d) again after "
            "ANALYZE; DML runs on both databases. All forms must give the same canonical "
            "result and that result must equal the Lean reference evaluator's (`same <result>`). Database::explain of every form "
            "is recorded; tags m.pairs* / m.differ* count the compared pairs and the pairs whose plan shapes differ, m.uses.* "
            "the forms answered through an index scan / each join operator (measured on the real planner at generation time, in "
            "supervised children). Cases tagged reg.* (at most 22 %, each with exactly one such tag) enter the region of one listed "
            "finding; the others avoid all of them by construction. "
            "Rule-level cases (`rule <schemas> <indexes> | <plan>`, 1 500 / 15 000 per run): a random logical plan over synthetic "
            "schemas (nullable / NOT NULL columns, up to two indexes per table) is inserted into a fresh memo through the "
            "`verif::plan` facade, every transformation rule of rules.rs is applied to its root and the alternatives (as plain trees) "
            "must be exactly what the Lean rule functions of Model/Plan.lean produce (tags rule.fires.* = rules that fired). "
            "A third of the clean cases carry the family 'keys re-used inside one transaction': within one session (committed or "
            "rolled back) or one Database::execute_batch (`batch … endbatch`) rows are deleted and rows with the same indexed keys "
            "inserted again (same or other values), or inserted then deleted, or delete-insert-delete[-insert], or the key of a "
            "rolled-back INSERT is inserted again; every touched key is then looked up by equality and by range — index plan against "
            "table scan through the pair forms — before and after VACUUM (and ANALYZE where allowed). "
            "A tenth of the pair cases are the family 'join chains over a shared key' (tag fam.chain): three small tables without "
            "indexes, T JOIN U ON T.a = U.x JOIN V ON <keys> where the upper join's keys start with the lower join's left key(s) "
            "and go on with a further column (60 %: stacked merge joins, the lower one delivers [a], the upper one requires "
            "[a, b]), are exactly those keys, hold them last, or do not hold them; few distinct values in the first key column, "
            "the further key columns in no particular order, NULL keys in a quarter of the cases; INNER / LEFT mostly, RIGHT / FULL "
            "sometimes; the query runs before and after ANALYZE (on small tables the plan changes from merge joins to nested loops) "
            "and again after further INSERTs, each time in the forms a, c, f, g against the reference answer. "
            "For every form of every query the plan the optimizer returned is read through the facade (operator, declared "
            "ordering, ordering required of each input): an operator whose input does not declare the ordering it requires "
            "(required keys = first keys declared) is a failure `input-not-ordered` whatever the data (m.ordering-required counts the "
            "checked inputs). "
            "Ordering cases (`ord <delivered> <required>`, 400 / 4 000 per run): PhysicalProperties::satisfies, called through the "
            "facade on random pairs of orderings near the boundary (equal, one a prefix of the other either way, one key differing in "
            "column, direction or kind), must answer what Plan.satisfies answers (= the required ordering leads the delivered one, "
            "Thm.C06.ordering_satisfies_iff_prefix). "
            "A twelfth of the pair cases are the family 'equi-joins where the operators' costs cross' (tag fam.window): two tables "
            "without indexes of 11-14 narrow rows each, 5 x 21-37, 8 x 13-30, or 12-30 rows with a TEXT column of 290-400 bytes "
            "(where, with statistics, nested loop, hash join and merge join cost about the same), NULL keys (a quarter of the "
            "values) and duplicates on both sides, one or two column = column conjuncts, RIGHT / FULL in 80 % of the cases; the query "
            "runs before ANALYZE (default statistics), after it and after a further INSERT, in the forms a, c, f, g against the "
            "reference answer. Tags m.op.<Operator> count, over all forms of all queries, the chosen plans that hold the physical "
            "operator (read from Database::explain at generation time); m.op-never-chosen.<Operator> is set when no chosen plan "
            "of the whole run holds it — the cost model decides which operators the pair runs ever see, the jop cases below do not "
            "depend on it. "
            "Join operator cases (`jop <two tables> | <their join>`, 1 200 / 12 000 per run): two inputs of 0-8 rows (INT, BIGINT, "
            "INT against BIGINT, TEXT key columns from 2-4 distinct values: duplicates; NULL keys on both sides in most cases), "
            "every join kind, conditions that are one or two column = column conjuncts (70 %), the same plus a further conjunct, "
            "theta, or absent: the join is handed to the implementation rules through the facade and EVERY physical operator they "
            "offer (nested loop always; hash join and merge join over the Sort executors it requires for equi conditions) is run "
            "directly on the two inputs — whatever the cost model would choose — and each must return the reference evaluator's "
            "rows (tags jop.*). "
            "Every case is non-trivial; distinct = distinct case line.",
    "assumptions": [
        "indexed columns hold distinct non-NULL values (every index of the engine is a unique index; duplicates and NULLs in "
        "them are rejected by constraint checks, whose correctness is C07) — the generator keeps every column of an index unique",
        "expressions of generated queries cannot raise errors (small integers, + and - only): which rows a predicate is "
        "evaluated on depends on the plan, so an error outcome is not plan independent (SQL leaves evaluation order open)",
        "sessions are sequential (one open at a time, no statement outside it while it is open); rolled-back sessions contain "
        "INSERT and DELETE only (a rolled-back UPDATE stays visible: C03's pinned finding)",
        "ANALYZE is used only while the catalog stays one B-tree leaf (two relations, or three small ones) and composite "
        "indexes are over columns of one type: beyond that lie two listed findings outside C06's mechanism",
        "the wrapped form (col + 0) exists for INT/BIGINT columns only; TEXT index columns are never wrapped",
        "LIMIT/OFFSET only under a total ORDER BY; partial ORDER BY answers are compared as sorted multisets (as in C05)",
        "rule-level cases never join a plan with itself at the root: whether the memo takes two equal inputs for one group — and "
        "then regards the commuted join as already known — depends on HashMap iteration order (Schema's Debug output is part of the memo hash)",
    ],
    "partial": "The rule theorems are proved for the plan algebra of Model/Plan.lean (scan, index scan, filter, project, join of every "
               "type) under the total semantics `evalPlan` (a predicate that fails on a row does not select it); `strict_agrees` "
               "links it to the error-propagating evaluation of C05's reference evaluator (when that succeeds both agree). Aggregates, "
               "DISTINCT, ORDER BY and LIMIT sit above the rewritten part of a plan and are not touched by any rule: covered by the tie "
               "only. That the engine's rules are these functions is tested structurally (rule-level cases through the verif::plan facade), "
               "that its executors implement the algebra and its cost-based choice stays inside the reachable plans is tested through "
               "the pair runs; neither is proved. Orderings: the satisfies rule, 'ordered by more keys implies ordered by fewer' and the "
               "soundness of the sort enforcer are proved for the ordering model; that a merge join over inputs ordered by its keys "
               "returns the join's rows is not proved (model `mergeInner` serves the witness only) — tested through the chain family.",
    "trusted": ["SQL printer of the three query forms (wrapping, operand permutation) and result canonicaliser of the Rust harness",
                "the plan-shape digest read from Database::explain (diagnostics only, never gating)",
                "the orderings a plan node declares and requires are read from the optimizer's PhysicalPlan by the facade; that an "
                "operator really delivers the ordering it declares (Sort, MergeJoin executors) is tested through the answers only"],
}

TEXT = {
    "text": "Lean plan algebra over C05's reference evaluator with the optimizer's five transformation rules (filter merge, filter "
            "push-down through join and through projection, join commutativity with its column permutation, join associativity) and "
            "the filter-to-index-scan rule with range-bound extraction, each proved to preserve the multiset of result rows for all "
            "tables and predicates, closed under arbitrary rule sequences (optimize_sound); a model of unique secondary indexes with "
            "maintenance on insert/update/delete and population, proved to keep index and table consistent, and index scan + residual "
            "proved equal to filtering the table scan. Tied to the real engine on every run: thousands of queries over generated "
            "histories, each run in up to five plan-forcing forms on two databases (index before / after the data), all forms equal "
            "to each other and to the Lean reference answer, with EXPLAIN confirming that the forms really take different plans.",
    "design_ref": "DESIGN.md §5 C06",
    "note": "Trusted: Lean kernel + propext/Quot.sound/Classical.choice; C05's reference evaluator as the specification; the harness' "
            "query rewriter and canonicaliser. Four listed findings: UPDATE of an indexed column leaves the index stale (pinned by a test), "
            "re-insertion of a deleted unique key inside a rolled-back session, and two defects outside C06's mechanism (B+tree dividers "
            "sharing overflow chains: catalog corruption after ~40 inserted rows with more than three relations; composite INT/BIGINT keys).",
    "technique": "Lean 4 rewrite-rule soundness and index-consistency theorems + differential pair testing of the real planner",
}
