"""C07 — UNIQUE, PRIMARY KEY and NOT NULL always hold in committed data.  Engine `hist` (configured in cfg/C04.py); `./check C07`
exports AXH_PROP=C07, which makes `axh gen hist` produce the constraint families (`gen_c07` in harness/src/engines/hist.rs).

Additional setup syntax of `hist` used here (see cfg/C04.py for the rest):
  tab=<name>(<col>:<type>[!][*],…/a+b/^a+b)   after the columns: `/a+b` = UNIQUE(a, b), `/^a+b` = PRIMARY KEY(a, b), at CREATE TABLE
  con=<table>:a+b | con=<table>:^a+b          ALTER TABLE … ADD CONSTRAINT UNIQUE / PRIMARY KEY (a, b)
  con=<table>:@a+b                            CREATE UNIQUE INDEX … ON <table> (a, b)
  con=<table>:!c                              ALTER TABLE … ALTER COLUMN c SET NOT NULL
  `row=` and `con=` items run in the order given (one autocommit transaction each) after all tables exist.
Output: a full autocommit read `db sel <t>` and the final contents carry `!PROPFAIL:constraint:<t>` when the rows shown
violate a constraint of the table (both sides evaluate it: the harness on the observed rows, the Lean driver with `constraintsHold`).
"""

PROP = {
    "engines": ["hist"],
    "lean_modules": ["AxVerif.Model.Db", "AxVerif.Lemmas.Db", "AxVerif.Lemmas.DbSim", "AxVerif.Lemmas.DbHist",
                     "AxVerif.Lemmas.DbCons", "AxVerif.Driver.Hist"],
    "rule": "one case = a table `u` whose key is declared in one of nine ways (UNIQUE column, PRIMARY KEY, multi-column UNIQUE / "
            "PRIMARY KEY at CREATE TABLE; ALTER TABLE ADD CONSTRAINT UNIQUE / PRIMARY KEY; CREATE UNIQUE INDEX single and "
            "multi-column; ALTER COLUMN SET NOT NULL), 1–3 committed rows before or after the constraint is added, and 4–10 steps: "
            "insert of a fresh / a live duplicate / a NULL key / a NULL into NOT NULL, delete, re-insert after a committed delete, "
            "non-key update (also to NULL), session blocks ending in commit / rollback / drop, batches (also failing on their last "
            "statement), two open transactions inserting the same key and ending in commit / rollback / drop; at most one finding "
            "feature per case: UPDATE of a key column (away from and to a key, also concurrently with an INSERT of that key), "
            "delete + re-insert of a key inside one transaction, a rolled-back key update, key updates from "
            "NULL / inside a multi-column key, multi-row INSERT failing on its last row. A second family (60 / 600 cases): a table with TWO unique keys (two UNIQUE "
            "columns, two unique indexes, or mixed), 4–8 rows with NULL in one key and a value in the other (NULL on either side), "
            "then an INSERT repeating every non-NULL key value. A third family (120 / 1200 cases): a key K inserted by a transaction that rolled back "
            "(rollback, dropped session, failing batch, multi-row INSERT failing on a later row), then two open transactions both "
            "INSERT K (both orders of begin / insert / commit, sometimes one of them or a reader began before the rollback), all "
            "nine key declarations. After every commit the table is read "
            "(`db sel u`) and checked by `constraintsHold` on both sides (PROPFAIL). Non-trivial (`nt`) = some statement or commit of "
            "the case has to be decided by a constraint; distinct = distinct case line.",
    "assumptions": [
        "rows are addressed through the non-key column (`where v eq …`): a predicate on the key column is answered through the unique "
        "index, whose staleness after a key UPDATE then changes which rows a DELETE / UPDATE touches (access path, C06) — seen, not generated",
        "the catalog is static in the model: a constraint added by ALTER / CREATE UNIQUE INDEX is known to the model from the start, "
        "and generated setups never add a constraint that the existing rows violate (that failure path of ALTER belongs to C15)",
        "the specification refuses a commit when the committed database would violate a constraint (two open transactions inserting the "
        "same key): this is the model's design decision; the code (since fix ed56cf9) compares the keys a transaction INSERTed with those "
        "inserted by transactions that committed since its begin, which agrees with the specification for INSERTs over a sound index and "
        "differs otherwise (finding commitChecksInsertedKeysOnly, modelled exactly)",
        "VACUUM is not part of these histories (C13)",
    ],
    "partial": "",
    "trusted": ["one history is executed from a single thread"],
}

TEXT = {
    "text": "Lean theorems over ALL histories and catalogs (single- and multi-column UNIQUE / PRIMARY KEY, NOT NULL): the live committed "
            "rows of every reachable state of the MVCC model satisfy every declared constraint (invariant of the abstract machine, carried "
            "over by the C04 refinement); a rejected statement and a refused commit leave the state unchanged; a uniqueness rejection "
            "happens exactly when a row of the transaction's own view (committed at begin ⊕ own writes — never a deleted, rolled-back or "
            "changed-away row) carries the key. Tied to the code by ~1 500 (quick) / 15 000 (thorough) constraint-heavy histories through "
            "the public API with the committed contents checked after every commit.",
    "design_ref": "DESIGN.md §5 C07",
    "note": "Holds for the specification model. Listed findings with exact attribution: the unique index is not maintained when an UPDATE "
            "changes a key column (pinned by test_index_maintained_on_update: old key blocked, new key accepted twice), one index entry per "
            "key (delete + re-insert + rollback loses the live row's entry), the check at commit covers INSERTed keys only (an UPDATE to a key "
            "and a concurrent INSERT of it both commit), rolled-back UPDATEs stay (pinned). Seven defects repaired by fix: commits: write sets were never recorded (lost updates), two open transactions inserting the same key "
            "both committed, a statement failing after its first row kept the rows before it, "
            "constraints added by ALTER TABLE were never enforced and PRIMARY KEY columns stayed nullable, SET NOT NULL accepted existing "
            "NULLs, NULL in a UNIQUE column was refused with a type error, UPDATE of a non-key column of an indexed table failed.",
    "technique": "Lean 4 invariant + refinement proof, decidable constraint checker on observed contents, differential correspondence",
}
