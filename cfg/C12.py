"""C12 — configuration changes performance, never results."""

ENGINES = {
    "cache": {
        "jobs": 8,
        "op_sep": " ; ",
        # The Lean spec (no defect flags) is the intended behaviour of PageCache / Pager / DBConfig, deterministic down to the
        # victim of every eviction; the observables are the bytes read back, the error class (oom / io), the frames handed
        # back by the cache API and the header fields. Any gating difference is a failure of C12 ("data survives any amount
        # of eviction; the only permitted difference is an explicit out-of-memory error from a cache too small").
        "spec_is_oracle": True,
    },
}

PROP = {
    "engines": ["cache"],
    "lean_modules": ["AxVerif.Model.Cache", "AxVerif.Model.Config", "AxVerif.Lemmas.Cache",
                     # geometry_irrelevant is a corollary of C10's checker soundness
                     "AxVerif.Model.BTree", "AxVerif.Lemmas.BTree"],
    "rule": "cases = op sequences on a real PageCache (`seq`, capacity 0..64: insert/get/pin/unpin/read+write through held frames/"
            "evict/remove/clear/drain/set_capacity), op sequences on a real Pager over a scratch file (`pgr`, capacity 1..64, page "
            "4-64 KiB: allocate/read/write/pin/unpin/flush/reopen + raw reads of the file), DBConfig::new/builder/page-zero header "
            "(`cfg`), and the configuration grids through the public SQL API: `grid` (own workload of bulk inserts up to 1 200 rows, rows up "
            "to 38 KB, updates, deletes, selects, a UNIQUE table, checkpoints: 8 workloads x 12 configurations; and 2 workloads x 8 configurations with side tables that come and go — CREATE, fill, DROP, VACUUM, CREATE again on a recycled root that stays empty while hundreds of unrelated inserts turn the small caches over, first rows late), `sqlgrid` (scripts of the "
            "`sql` engine's generator — joins, aggregates, ORDER BY/LIMIT, DML — 24 scripts x 8 configurations, half of them as generated and "
            "answered by the logical model, half on tables blown up 10-60 times) and `histgrid` (histories of the `hist` engine's generator — "
            "interleaved sessions, commits, rollbacks — 30 x 6 configurations); configurations: page 4-64 KiB, cache 4-10 000 pages, pool 1/2/8, "
            "min keys 3-8, siblings 1-4, checkpoints on/off; all derived from VERIF_SEED. "
            "Non-trivial = seq case with at least one eviction, out-of-memory answer or non-empty clear; pgr case that allocates more "
            "pages than the cache holds, checkpoints, reopens or runs out of memory; every cfg, grid, sqlgrid and histgrid case. Distinct = distinct case line.",
    "assumptions": [
        "a page's content is abstracted to one number (the harness keeps an 8-byte payload at the start of the page's data area)",
        "single-threaded use of the pager: references held outside the cache (pins) are explicit operations; a checkpoint while frames are pinned detaches them (modelled, generated in a minority of cases, excluded by hypothesis in the refinement theorem)",
        "page deallocation / the free list belong to C11 and are not driven here",
        "pages whose allocation failed with out-of-memory are never referred to afterwards (their id never reached the caller; allocate_page leaks the id — a C11 matter)",
        "grid: a statement whose worker thread panicked is reported as `panic`, one that does not answer within 20 s as `hang`; both count as failures; in a configuration with a cache below the pin bound (2*siblings+10 pages) an explicit out-of-memory error is tolerated and the rest of that configuration's run is not compared; the script grids (`sqlgrid`, `histgrid`) only use caches at or above the bound, where no difference at all is tolerated",
    ],
    "partial": "Proved (unbounded): cache+file refine a flat store for every defect combination; every deterministic client of the pager "
               "(`Client`: next operation chosen from the answers so far) has the same dialogue with the pager as with the flat store for "
               "every capacity above its pin bound, no out-of-memory hypothesis left (`client_sees_flat_store`, "
               "`results_independent_of_capacity/_configuration`); accepted page graphs with equal contents answer alike whatever geometry "
               "built them (`geometry_irrelevant`, corollary of C10's checker soundness); the settings reach the engine unchanged. "
               "Not a theorem (it is a statement about the Rust engine as a whole, kept as the def "
               "`sql_results_independent_of_configuration_statement`): that the SQL engine *is* such a client and that its tree code produces "
               "accepted graphs with the right contents under every geometry — the first is tied by the configuration grids (identical canonical "
               "results required, `sqlgrid m` also against the logical model, which has no configuration argument), the second by C10's engine "
               "(checked dump after every operation under 4-16 KiB pages, 3-16 min keys, 1-8 siblings). The pin bound of the tree code "
               "(2*siblings+10 frames) is measured, not proved: an out-of-memory answer at or above it is a violation.",
    "trusted": [],
}

TEXT = {
    "text": "Lean theorems over the model of PageCache + Pager: refinement of the cache+disk to a flat store for every operation sequence "
            "without an out-of-memory answer (data survives any amount of eviction), checkpoint leaves every page's last value on disk, "
            "out-of-memory only if every frame is pinned, size/duplicate invariants, configuration round-trip through page zero in the "
            "documented ranges; lifted to every deterministic client of the pager (results independent of the capacity above the pin bound) and, "
            "through C10's checker, to every page geometry; tied to io/cache.rs, io/pager.rs, common/mod.rs by generated operation sequences on the real cache and a "
            "real pager, and by SQL workloads, `sql`-engine scripts and `hist`-engine histories replayed under grids of configurations.",
    "design_ref": "DESIGN.md §5 C12",
    "note": "Trusted: Lean kernel + propext/Quot.sound; the hand-written model of io/cache.rs and of the page-moving part of io/pager.rs "
            "(validated differentially, not verified).",
    "technique": "Lean 4 refinement + invariant theorems, differential correspondence with the real PageCache/Pager, configuration-grid differential run through the SQL API",
}
