"""C12 — configuration changes performance, never results."""

ENGINES = {
    "cache": {
        "jobs": 8,
        "op_sep": " ; ",
        # The Lean spec (no defect flags) is the intended behaviour of PageCache / Pager / DBConfig, deterministic down to the
        # victim of every eviction; the observables are the bytes read back, the error class (oom / io), the frames handed
        # back by the cache API and the header fields. Any gating difference is a failure of C12 ("data survives any amount
        # of eviction; the only permitted difference is an explicit out-of-memory error from a cache too small").
        "spec_is_oracle": True,
    },
}

PROP = {
    "engines": ["cache"],
    "lean_modules": ["AxVerif.Model.Cache", "AxVerif.Model.Config", "AxVerif.Lemmas.Cache"],
    "rule": "cases = op sequences on a real PageCache (`seq`, capacity 0..64: insert/get/pin/unpin/read+write through held frames/"
            "evict/remove/clear/drain/set_capacity), op sequences on a real Pager over a scratch file (`pgr`, capacity 1..64, page "
            "4-64 KiB: allocate/read/write/pin/unpin/flush/reopen + raw reads of the file), DBConfig::new/builder/page-zero header "
            "(`cfg`), and one SQL workload under a grid of configurations (`grid`); all derived from VERIF_SEED. "
            "Non-trivial = seq case with at least one eviction, out-of-memory answer or non-empty clear; pgr case that allocates more "
            "pages than the cache holds, checkpoints, reopens or runs out of memory; every cfg and grid case. Distinct = distinct case line.",
    "assumptions": [
        "a page's content is abstracted to one number (the harness keeps an 8-byte payload at the start of the page's data area)",
        "single-threaded use of the pager: references held outside the cache (pins) are explicit operations; a checkpoint while frames are pinned detaches them (modelled, generated in a minority of cases, excluded by hypothesis in the refinement theorem)",
        "page deallocation / the free list belong to C11 and are not driven here",
        "pages whose allocation failed with out-of-memory are never referred to afterwards (their id never reached the caller; allocate_page leaks the id — a C11 matter)",
        "grid: a statement whose worker thread panicked is reported as `panic`, one that does not answer within 20 s as `hang`; both count as failures; in a configuration with a cache below 48 pages an explicit out-of-memory error is tolerated and the rest of that configuration's run is not compared",
    ],
    "partial": "Proved (unbounded, all defect combinations): the storage half of C12 — cache+file refine a flat store, so answers do not "
               "depend on the cache capacity or the eviction order; checkpoint completeness; out-of-memory only with >= capacity pins; "
               "configuration round-trip through page zero. NOT proved here: independence of the SQL answers from the page geometry "
               "(page size, min keys per page, siblings per side) and from the pool size — that needs the logical database model and "
               "C10's B+tree theorems (`geometry_irrelevant`, DESIGN §5); the full statement is kept as "
               "`sql_results_independent_of_configuration_statement` (a def, not claimed) and is only tested by the configuration grid "
               "(`grid` cases: 8 workloads x 12 configurations per quick run). The grid's clean region is workloads with rows below 300 bytes and "
               "at most 240 inserts per table: larger rows break the B+tree in every configuration (finding KF-C12-btree-big-cells, region `bigrows`), "
               "and the 256th insert into a table overflows the one-byte tuple version counter of its catalog row (tuple.rs:1020, C18).",
    "trusted": [],
}

TEXT = {
    "text": "Lean theorems over the model of PageCache + Pager: refinement of the cache+disk to a flat store for every operation sequence "
            "without an out-of-memory answer (data survives any amount of eviction), checkpoint leaves every page's last value on disk, "
            "out-of-memory only if every frame is pinned, size/duplicate invariants, configuration round-trip through page zero in the "
            "documented ranges; tied to io/cache.rs, io/pager.rs, common/mod.rs by generated operation sequences on the real cache and a "
            "real pager, and by one SQL workload replayed under a grid of configurations.",
    "design_ref": "DESIGN.md §5 C12",
    "note": "Trusted: Lean kernel + propext/Quot.sound; the hand-written model of io/cache.rs and of the page-moving part of io/pager.rs "
            "(validated differentially, not verified).",
    "technique": "Lean 4 refinement + invariant theorems, differential correspondence with the real PageCache/Pager, configuration-grid differential run through the SQL API",
}
