"""C15 — Schema changes are transactional and the catalog stays coherent.  Engine `ddl`
(harness/src/engines/ddl.rs, lean/AxVerif/Driver/Ddl.lean, model lean/AxVerif/Model/Ddl.lean on top of Model/Db.lean).

Case syntax (one line):   ddl | <op> ; <op> ; …
  op    s<i> begin | commit | rollback | drop     session control (a session = one transaction), as engine `hist`
        s<i> <stmt>   |   db <stmt>               statement in the session's transaction / autocommit (Database::execute)
        reopen                                    drop the Database object and open the file again (open sessions are dropped first)
  stmt  ct <name>(<col>:<type>[!][*][=default],…[/a+b][/^a+b])    CREATE TABLE; types big|int|text, `!` NOT NULL, `*` UNIQUE(col),
                                                                  `/a+b` UNIQUE(a,b), `/^a+b` PRIMARY KEY(a,b), `=d` DEFAULT d
        ci <t> a+b                 CREATE UNIQUE INDEX ON t (a, b)
        ak <t> a+b | ak <t> ^a     ALTER TABLE t ADD CONSTRAINT UNIQUE / PRIMARY KEY
        ac <t> <col>:<type>[=d]    ALTER TABLE t ADD COLUMN          dc <t> <col>    ALTER TABLE t DROP COLUMN
        sn <t> <col> | dn <t> <col>   ALTER COLUMN SET / DROP NOT NULL      dt <t>   DROP TABLE
        dtc <t>                    DROP TABLE t CASCADE                  cin <name> <t> a+b   CREATE UNIQUE INDEX <name> ON t (a, b)
        sel / ins / upd / del      as engine `hist`
        vacuum                     VACUUM: every open transaction is rolled back (the engine leaks the session objects)
        audit                      only as the last op: the final observation ends with `ix=<n>`, the number of live index
                                   relations in the catalog = the number of keys of the live tables (the model's count)
  well-formed: an index name (explicit, or the implicit ix<t><cols> of `ci`) is used again only after the table it was created
        on was dropped by an autocommit DROP or by a session that then commits (the model does not know index names);
        anything else is `bad-op` on both sides
  output one token per op (`ddl` = DDL succeeded; otherwise as `hist`: ok, ok<n>, [rows], notfound, constraint, type, other,
        conflict, nosession), then ` | ` and for every table name of the case `<name>=[rows]` or `<name>=notfound`.
  model flags: the Defects of Db; pseudo-flags `abs` (abstract machine Ddl.Spec) and `nosort`.
"""

ENGINES = {
    "ddl": {
        "jobs": 8,
        "spec_is_oracle": True,
        "op_sep": " ; ",
    },
}

PROP = {
    "engines": ["ddl"],
    "lean_modules": ["AxVerif.Model.Db", "AxVerif.Model.Ddl", "AxVerif.Lemmas.Db", "AxVerif.Lemmas.DbSim", "AxVerif.Lemmas.DbHist",
                     "AxVerif.Lemmas.DbCons", "AxVerif.Lemmas.DdlSim", "AxVerif.Lemmas.DdlCat", "AxVerif.Driver.Ddl", "AxVerif.Driver.Hist"],
    "rule": "one case = a random walk of 4–9 steps over two table names (plus a scratch name): CREATE TABLE in autocommit, inside a "
            "session that commits (observed from outside before and after the commit) or rolls back / is dropped (the name must stay "
            "free); INSERTs; sessions with DML that commit or roll back while another table is read (frame); DROP TABLE and re-CREATE "
            "of the name with another shape, also inside one committed session; DROP TABLE inside a session that rolls back / is "
            "dropped, or committed while another open session reads the table; ADD / DROP COLUMN on tables that never held a row; "
            "SET / DROP NOT NULL in autocommit or a committed session followed by a NULL insert; CREATE UNIQUE INDEX / ADD CONSTRAINT "
            "followed by a duplicate; statements on missing names and DDL that must be refused; a reader that began before a CREATE "
            "committed; reopen, also with an open session holding DML and DDL. A further family (60 / 600 cases): DROP TABLE in a session that rolls back or is dropped, then — after reads, an insert or a "
            "reopen — a DROP TABLE that commits, the name probed, created again with another shape and read, also across reopen. "
            "And (40 / 400 cases) CREATE UNIQUE INDEX / ADD CONSTRAINT over colliding rows: refused, the table stays usable, the DDL "
            "succeeds once the duplicates are deleted. And (60 / 600 cases) tables with named / unnamed unique indexes and declared keys "
            "dropped by plain DROP TABLE or DROP … CASCADE (autocommit, committed session, after a rolled-back DROP), VACUUM / "
            "reopen, the table name and the index names used again (same table or another one), ending in the catalog audit (live "
            "index relations = keys of the live tables). And (30 / 300 cases) a transaction refused at COMMIT — same row, same unique "
            "key, or same table name — that also inserted elsewhere and created a table, followed by committed work, reopen and "
            "reads (the refused transaction stays rolled back across the close). And (30 / 300 cases) VACUUM while a session holds "
            "uncommitted rows and a table it created, the session never finished, reopen, reads and the audit. At most one finding feature per case (tags `kf:…`). "
            "Non-trivial (`nt`) = a DDL statement inside a transaction that rolls back, or DML on a table altered earlier in the case.",
    "assumptions": [
        "in the model ADD / DROP COLUMN re-write the rows the altering transaction sees; rows inserted by a transaction that is "
        "concurrent with the ALTER keep their old shape in the model — DDL concurrent with DML on the same table is not generated",
        "indexes are part of the table descriptor in the model (key sets): `every index's table exists` holds by construction; the "
        "physical index relations of the code are not modelled",
        "SET DATA TYPE is not exercised (the parser accepts it, rows are never converted)",
        "the model's descriptor heap is append-only; space reclamation of dropped tables is C11/C13 territory",
        "one case in three lets the catalog grow beyond six entries (tag `catalog_pressure`: catalog entries then grow in a full "
        "meta page, which broke the catalog's B+tree until main's 9fb3e8e)",
    ],
    "partial": "ddl_atomic_with_txn is proved as: refinement on all histories (ddl_refines) + invisibility until commit + abort / refused "
               "commit publish nothing + commit publishes everything at once + store-level erasure; the history-level erasure of C03 "
               "(abort_erases_partial) is not re-proved for the DDL machine. add_column / drop_column: effect lists and the view-level "
               "re-write lemma (rewrite_view, newRows_spec) are proved; their composition with the meta-row update is stated "
               "(add_column_view_statement), not proved. catalog_wellformed_invariant = uniqueness of live relation names; uniqueness of "
               "internal names is mkName_injective, not an invariant over reachable states.",
    "trusted": ["one history is executed from a single thread", "reopen = drop of the Database object followed by Database::open (no crash)"],
}

TEXT = {
    "text": "Lean theorems over ALL histories of DDL and DML (any interleaving, committed / rolled-back / dropped sessions, reopen): the "
            "MVCC model with the catalog stored as versioned rows answers every statement like the abstract machine in which a "
            "transaction works on committed-at-begin ⊕ its own DDL and DML; DDL is invisible to others until commit, published all at "
            "once by the commit, and leaves nothing after rollback / drop / refused commit; a name resolves exactly while its meta row "
            "is in the transaction's view; live relation names are unique in every committed state; DDL on one table emits effects only "
            "on that table's meta row and rows; ADD / DROP COLUMN re-write the visible rows with the default appended / the column "
            "removed; a dropped name can be re-created at once. Tied to the code by ~600 (quick) / 6 000 (thorough) generated DDL/DML "
            "histories with reopen through the public API.",
    "design_ref": "DESIGN.md §5 C15",
    "note": "Holds for the specification model. Repaired by fix: commits: ADD COLUMN always failed; two open transactions creating the "
            "same name both committed (the second creator is now refused, and the first one's entry in the name index is no longer replaced); DROP TABLE freed the pages at once (rollback could not "
            "bring the table back, concurrent readers failed); the catalog's own B+tree page broke after about six entries; a CREATE UNIQUE INDEX / ADD CONSTRAINT failing on colliding "
            "rows left the table pointing to a missing index; a plain DROP TABLE left the table's indexes in the catalog (names taken, "
            "pages never freed). Listed "
            "findings: ALTER inside a rolled-back transaction stays (exact, flag updateKeepsInserterXmin, pinned); the check at commit "
            "compares created names instead of re-checking the catalog (exact, flag commitChecksInsertedKeysOnly: create + drop in one "
            "transaction still blocks the name); first creator wins on relation names (exact, flag createRefusedWhileNameHeld: CREATE TABLE "
            "is refused with a conflict while an unseen, not rolled-back transaction holds the name — the specification refuses the "
            "second COMMIT instead); regions: ADD / DROP COLUMN on a table that "
            "physically holds rows (rows are decoded with the new schema: errors or shifted values), CREATE UNIQUE INDEX / ADD "
            "CONSTRAINT in a rolled-back transaction leaves the table pointing to an index that does not exist.",
    "technique": "Lean 4 refinement proof (catalog as versioned data, reuse of the C04 simulation) + invariant + differential correspondence",
}
