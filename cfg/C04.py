"""C04 — snapshot isolation.  Engine `hist` is shared with C03 (cfg/C03.py).

Case syntax of engine `hist` (one line; parsers: harness/src/engines/hist.rs `parse_case`, lean/AxVerif/Driver/Hist.lean):

  hist <setup…> | <op> ; <op> ; …
  setup  tab=<name>(<col>:<type>[!][*],…)   table; types big|int|text; `!` NOT NULL, `*` UNIQUE
         row=<table>:<v>,<v>,…              committed initial row (one autocommit INSERT each, in order)
         fresh                              no warm-up transaction: no transaction with id > 0 has committed yet
  op     s<i> begin|commit|rollback|drop    session control (a session = one transaction; `begin` on an open session drops it first)
         s<i> <stmt>                        statement in the session's transaction
         db <stmt>                          Database::execute (autocommit)
         db batch <stmt> & <stmt> & …       Database::execute_batch
  stmt   sel <t> [where <col> <cmp> <v>] | ins <t> <v> … [, <v> …]* | upd <t> <col> set|add <v> [where …] | del <t> [where …]
  cmp    eq ne lt le gt ge          v: canonical decimal (|v| ≤ 10^9) | null | 'lowercase'
  output one token per op: ok | ok<n> | [sorted rows r;r;…] | conflict | constraint | notfound | type | other | nosession |
         batch(<tokens>) | batch-<class>;  then ` | ` and `<table>=[rows]` for every table (final committed state)
  model flags: the Defects field names; pseudo-flags `abs` (run the abstract machine Db.Spec) and `nosort` (rows in row-id order)
"""

ENGINES = {
    "hist": {
        "jobs": 8,
        # the Lean model with all defect flags off is the property's oracle: every read must return the rows the
        # specification returns, every commit / statement its outcome class
        "spec_is_oracle": True,
        "op_sep": " ; ",
    },
}

PROP = {
    "engines": ["hist"],
    "lean_modules": ["AxVerif.Model.Db", "AxVerif.Lemmas.Db", "AxVerif.Lemmas.DbSim", "AxVerif.Lemmas.DbHist", "AxVerif.Driver.Hist"],
    "rule": "one case = schema + committed initial rows + 1–4 session programs (begin, 1–3 statements, commit|rollback|drop) "
            "+ one fixed interleaving, stepped through real `Session`s from one thread on a fresh database. Generated: all "
            "interleavings of program pairs when there are ≤ 20 (else 20 sampled), random 3–4-session histories, snapshots "
            "taken at database birth, the C03 families, and 80 / 800 cases in which a row a transaction has updated is re-written by a "
            "later multi-row UPDATE of it that fails on a later row (UNIQUE violation) and is undone, while a concurrent transaction "
            "updates or deletes that row and commits first (the first one's commit must be refused); thorough adds 20 triples × all "
            "1680 interleavings. "
            "Non-trivial (`nt`) = some writer (session or autocommit statement) commits or aborts between two reads of "
            "another transaction that stays open; distinct = distinct case line. Tags `clean` / `kf:<feature>` give the "
            "split between the clean region and the single known-finding feature a case carries.",
    "assumptions": [
        "row ids are not observable through SELECT *; the model numbers rows by (operation index, row index) instead of the catalog counter",
        "error classes are read off the Display prefix of the error enums: Session/Database::execute hand every error through the task runner as a string",
        "kept out of generation (other properties' territory, each reproduced by hand): NULL in a UNIQUE column, UPDATE of a UNIQUE column, "
        "two open transactions inserting the same unique key (C07); UPDATE on a table with a unique index, which fails with a spurious type error after applying the update (index maintenance)",
        "commit validation is modelled on the intended design (write sets against the commits since begin); since fix 4697923 the code records the (table, row) of every insert / update / delete and refuses the second committer (finding writeSetNeverRecorded: fixed), so the model's validation is now compared with the code on every concurrent-writer case",
    ],
    "partial": "",
    "trusted": ["one history is executed from a single thread: the interleaving is exactly the op order of the case line"],
}

TEXT = {
    "text": "Lean theorems over ALL histories (any number of sessions, statements, tables, interleavings), by a simulation between the "
            "MVCC model (version chains, snapshots taken exactly as TransactionCoordinator::snapshot computes them, first-committer-wins "
            "validation) and an abstract machine in which every transaction works on a private copy of the committed database: every read "
            "returns committed-at-begin ⊕ own writes, reads are repeatable, no version of an uncommitted / later-committed / rolled-back "
            "transaction is ever returned, two concurrent writers of one row never both commit. The model is tied to the code by "
            "~1 700 (quick) / ~45 000 (thorough) generated multi-session histories run through the public API.",
    "design_ref": "DESIGN.md §5 C04/C03",
    "note": "Holds for the specification model only: the shipped code stamps UPDATEd versions with the inserter's id (pinned by "
            "test_session_rollback_updates), has a single delete-mark slot — listed findings with "
            "exact attribution (the model with the flag on predicts the implementation's wrong answer). Three further defects were "
            "repaired by fix: commits (snapshot xmax None, own delete resurrected by the delta walk, stale delete mark).",
    "technique": "Lean 4 refinement proof (invariant + simulation by induction over the history) + differential correspondence with the real sessions",
}
