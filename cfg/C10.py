"""C10 — each B+tree is a correct ordered map with sound structure."""

ENGINES = {
    "btree": {
        "jobs": 8,
        # judge mode: exec() returns an *observation* of the real tree — for every operation of the sequence its result, both
        # search entry points on the operation's key, forward and backward scan (hashes over the whole contents), every 16th
        # operation a probe of all keys of the case, the verdict of an independent Rust structural checker, and the page-graph
        # dump (as a delta). The Lean driver answers `ok` iff after every operation checkTree (proved sound) accepts the dump,
        # toList(dump) equals the spec map folded over the operations and all results are the spec's.
        "mode": "judge",
        "op_sep": " ; ",
    },
}

PROP = {
    "engines": ["btree"],
    "lean_modules": ["AxVerif.Model.BTree", "AxVerif.Model.Balance", "AxVerif.Model.Slotted", "AxVerif.Lemmas.BTree", "AxVerif.Lemmas.Balance", "AxVerif.Lemmas.Slotted"],
    "rule": "cases = operation sequences (insert/update/upsert/remove by key bytes and by tuple/search by key bytes and by tuple/scan) on a real "
            "Btree over a raw pager: orders ascending, descending, zig-zag, interleaved, random, duplicate-heavy, delete-all-then-reinsert, "
            "churn, grow/shrink updates; key types u64, i64, text, composite (i64,text), long text keys that spill into overflow pages, text keys of mixed sizes (10..370 bytes), 16-byte binary keys with bytes on both sides of 0x80 inside the second aligned 8-byte group (btext); "
            "payloads 0 B .. 5 pages; page size {4096, 8192} x min keys {3..8} x siblings per side {1..4}; three sequences of ~2000 operations "
            "build trees of height >= 4. Plus the code's comparator on pairs of realised keys, and split_cells / "
            "compute_best_cell_distribution on random size vectors. All derived from VERIF_SEED. Non-trivial = a sequence of >= 20 "
            "operations (each with a dump judged by checkTree), every comparator / helper case; distinct = distinct case line. "
            "No known-finding region is left (KF-C10-divider-full-copy was fixed by 5ae85bc): any failure of any case is a violation. The tags "
            "smallcell / bigcell only record whether a sequence keeps every cell under ~1/14 of the page or uses large cells "
            "(payloads up to 5 pages, keys that spill into overflow pages, keys of widely different sizes).",
    "assumptions": [
        "keys are modelled as natural numbers (key indices); the harness realises index k as a real key by a monotone map per key type "
        "(BigUInt k | BigInt k-500 | Blob bits24(k) without trailing '0' | 'x'*(page/2) ++ that | that ++ 350 blanks when 5 divides k | (BigInt k/7-30, Blob bits(k%7))); that "
        "the code's CellComparator orders realised keys like their indices is tied by the `cmp` cases (240 pairs per run), not proved",
        "numeric keys stay below 2^53 (the code compares numeric keys through f64: a C19 finding, out of scope here)",
        "a payload is identified by (length, 16-bit seed); the harness checks every byte of every payload it reads back against the pattern "
        "of that identity (both through the tree's own Reassembler for probes/scans and through its own reassembly for dumps)",
        "the dump is taken by the facade from the pager's cached frames without going through the tree (Pager::verif_page_bytes); the cache is "
        "large enough (20000 frames) that no page is ever evicted, so page kinds are the cached kinds",
        "the facade clears the tree's accessor (latches + traversal stack) after every call, as the repo's own tree tests do",
        "min page size of the engine is 4096 (PAGE_ALIGNMENT), so height >= 4 needs ~1500 keys; heights up to 8 occur with large cells",
    ],
    "partial": "checkTree_sound and checkTree_sound_backward are proved in full. Not proved (by design): that the real insert/update/remove "
               "produce the dump they produce (the rebalancer is validated by judging every dump, not verified). bestDistribution: only sum of "
               "counts = number of cells, the greedy phase's load bound, and termination of the fix-up loop are proved; "
               "`bestDistribution_loads_statement` (no page over `usable` after the fix-up) and `splitCells_both_nonempty_statement` are false of "
               "the code and refuted by witness theorems. Slotted page: the accounting invariant is checked on every page of every dump "
               "(wfB, sound w.r.t. Wf) and proved invariant under remove, in-place shrinking replace and insert-into-gap; defragment, drain and "
               "the remove+insert path of replace are not modelled, and the three modelled operations are not tied differentially to buffer.rs "
               "(only their invariant is, through the dumps).",
    "trusted": [
        "facade crates/axmos-db/src/verif/btree.rs (page parser, reassembly for dumps) and the engine's canonicalisation (key index <-> key, payload identity, hashes)",
        "Lean driver: parsing of observations and the page / slot-accounting tables kept across the deltas of one sequence",
    ],
}

TEXT = {
    "text": "Verified checker: Lean theorem checkTree_sound — any page graph accepted by checkTree is a tree whose in-order contents are strictly "
            "sorted, whose leaf chain scan (left-most descent + next links, as the code iterates) equals the in-order contents, on which the "
            "code's search (linear child routing + binary search) returns for every key exactly what the contents hold, with all leaves at one "
            "depth, every separator routing correctly and no page reached twice; plus spec-map theorems (insert/update/upsert/remove/lookup laws, "
            "sortedness, extensionality). Tie: after every one of ~16 000 generated operations per quick run (~250 000 in the thorough tier) the real tree is dumped, judged by "
            "checkTree, and its contents, lookups and scans are compared with the spec map.",
    "design_ref": "DESIGN.md §5 C10",
    "note": "Trusted: Lean kernel + propext/Quot.sound/Classical.choice; facade page parser and harness canonicalisation; key order assumption tied by "
            "comparator cases. The rebalancer itself is validated per run, not verified. Six defects were fixed in /repo (defragment overlap, "
            "replace moving the free pointer, interior divider taken from a child, empty interior page in the left-most descent, dividers as "
            "aliasing full copies of leaf cells, update_cell ignoring the space of the replaced cell); their witnesses are replayed on every run. "
            "Residual risk known from the design of the fix: a parent takes the new dividers of one leaf redistribution before it is rebalanced "
            "itself; their size is budgeted for 2*siblings+2 of them, a redistribution that produces more pages than that at once could still "
            "exhaust the parent (not observed in ~2500 stress sequences).",
    "technique": "Lean 4 verified checker (decision procedure + soundness theorem) applied to page-graph dumps of the real tree after every operation; "
                 "differential comparison with a proved-sorted spec map",
}
