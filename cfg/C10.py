"""C10 — each B+tree is a correct ordered map with sound structure."""

ENGINES = {
    "btree": {
        "jobs": 8,
        # judge mode: exec() returns an observation of the real tree (results, probes, scans, page-graph dump deltas after
        # every operation); the Lean driver answers `ok` iff the proved checker accepts every dump, toList(dump) equals the
        # spec map and all results are the spec's.
        "mode": "judge",
        "op_sep": " ; ",
    },
}

PROP = {
    "engines": ["btree"],
    "lean_modules": ["AxVerif.Model.BTree", "AxVerif.Model.Balance", "AxVerif.Lemmas.BTree", "AxVerif.Lemmas.Balance"],
    "rule": "TODO",
    "assumptions": [],
    "partial": "",
    "trusted": [],
}

TEXT = {
    "text": "TODO",
    "design_ref": "DESIGN.md §5 C10",
    "note": "TODO",
    "technique": "Lean 4 verified checker (checkTree + soundness theorem) applied to page-graph dumps of the real tree after every operation",
}
