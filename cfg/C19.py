"""C19 — values compare, hash, cast and round-trip consistently."""

ENGINES = {
    "value": {
        "jobs": 8,
        # The Lean specification (Defects = {}) is what the C19 theorems are about: comparison by exact mathematical
        # value, equality an equivalence that agrees with hashing, exact codecs, casts that preserve the value or fail.
        # Any gating difference between the implementation and the specification is therefore by itself a failure of
        # the property.
        "spec_is_oracle": True,
    },
}

PROP = {
    "engines": ["value"],
    "lean_modules": ["AxVerif.Model.Value", "AxVerif.Lemmas.Value", "AxVerif.Lemmas.ValueOrder", "AxVerif.Lemmas.ValueFloat",
                     "AxVerif.Generated.Value", "AxVerif.Model.Bytes", "AxVerif.Lemmas.Bytes"],
    "rule": "cases (all from VERIF_SEED, real `types` code in-process vs Lean model): VarInt encode/decode/zig-zag on every "
            "7-bit-group boundary and random i64, decoder inputs (unterminated, over-long, bits beyond 64, non-canonical, "
            "truncated, random); Blob encode/decode (lengths around 8/16/64/8192, negative and huge announced lengths, "
            "truncation) and comparator pairs (fills 00/7f/80/ff x lengths 1..17, pairs differing deep inside 8-byte chunks, "
            "prefixes, extensions); serialize / write_to at every cursor residue / deserialize of every kind; try_cast of every "
            "boundary value (0, +-1, min, max, +-2^24, +-2^53(+-1), 2^63, 2^64, +-0.0, NaNs, +-inf, subnormals, f32/f64 rounding "
            "ties, empty/prefix/long text, NULL) to every kind + random; exhaustive pairs of the comparison grid for ==, "
            "partial_cmp, hash stream equality, ORDER BY comparator (owned and borrowed forms), law checks on triples "
            "(reflexive, symmetric, transitive, order/eq consistency, totality, eq=>hash, weak order for sort_by), related random "
            "pairs (same number in another kind, neighbours, sign flips); B+tree key comparison through CellComparator for single "
            "and composite keys; SQL sub-mode: one-column tables through Database (ORDER BY ASC/DESC, DISTINCT, GROUP BY, IN, "
            "=, <, >=, PRIMARY KEY uniqueness). Non-trivial = every case except one-byte varints and empty blobs; distinct = "
            "distinct case line.",
    "assumptions": [
        "blobs are modelled by their data bytes; a Blob built from raw bytes with a non-canonical or wrong length prefix is outside the model (such blobs are never produced by the encoder)",
        "deserialize of a fixed-size kind from a buffer shorter than the value is `eof` in the model; the code panics on the slice index (types/core.rs:333) — buffers that were written are never short, and the generator keeps such inputs out",
        "NaN payload propagation of `f32 as f64` / `f64 as f32` is modelled as x86-64 SSE does it (sign and top payload bits kept, quiet bit set)",
        "SQL sub-mode: only values a SQL literal can denote exactly (numeric literals are lexed as f64, sql/parser/lexer.rs:125,342, so integers beyond 2^53 are spelled as exact integer arithmetic; no NaN, -0.0, infinities); at most 6 rows in the PRIMARY KEY table (the 8th insert into a table with a primary key aborts in storage/core/buffer.rs:897 defragment — not a C19 matter)",
    ],
    "partial": "Theorems cover every kind and every value for codecs, equality, ordering, hashing, integer casts, "
               "int/f32 -> f64 conversion and key comparison. Not proved (tied differentially only): the numeric result of "
               "f64 -> f32 narrowing and of int -> f32 conversion (`roundMag` at 24 bits is executed and compared on ~3000 cases "
               "per run, exactness is proved for binary64 only); float arithmetic is not modelled.",
    "trusted": [],
}

TEXT = {
    "text": "Lean theorems, for all values of all kinds: VarInt zig-zag bijection and encode/decode round-trip (1..10 bytes, "
            "over-long rejected); Blob round-trip and chunked comparator = lexicographic total order; serialize/deserialize and "
            "write_to/deserialize round-trip at any cursor; cast to the same kind = identity, integer casts exact or error; "
            "equality is an equivalence; ordering is a total order per class consistent with equality; numeric comparison = "
            "comparison of exact mathematical values across all integer and float kinds; IEEE comparison on bit patterns = value "
            "order; int and f32 -> f64 conversion exact wherever representable; equal values hash equally; ORDER BY comparator is a "
            "weak order; B+tree key comparison = column-wise value order. Shipped defects (comparison through f64, NaN, -0.0 "
            "hash, saturating casts, two panics) are modelled by flags with witness theorems, were repaired in /repo, and the "
            "theorems about the shipped behaviour are kept as `_partial` with the refuted full statements.",
    "design_ref": "DESIGN.md §5 C19",
    "note": "Trusted: Lean kernel + propext/Quot.sound/Classical.choice; the hand-written model of types/*.rs, "
            "types/macros/*.rs, tree/cell_ops.rs (validated differentially on ~68 000 cases per run, not verified); "
            "constants (sizes, alignments, discriminants, MAX_VARINT_LEN, cast matrix, key offset) are extracted from the code "
            "and proved equal to the model's. Partial: f32 rounding results and float arithmetic are not covered by theorems.",
    "technique": "Lean 4 round-trip / order / exact-arithmetic theorems + differential correspondence with the real types module, "
                 "CellComparator and SQL operators",
}
