"""C19 — values compare, hash, cast and round-trip consistently."""

ENGINES = {
    "value": {
        "jobs": 8,
        # The Lean specification (Defects = {}) is what the C19 theorems are about: comparison by mathematical value,
        # equality an equivalence that agrees with hashing, exact codecs. Any gating difference between the implementation
        # and the specification is therefore by itself a failure of the property.
        "spec_is_oracle": True,
    },
}

PROP = {
    "engines": ["value"],
    "lean_modules": ["AxVerif.Model.Value", "AxVerif.Lemmas.Value", "AxVerif.Lemmas.ValueOrder", "AxVerif.Lemmas.ValueFloat",
                     "AxVerif.Model.Bytes", "AxVerif.Lemmas.Bytes"],
    "rule": "cases = VarInt encode/decode/zig-zag on every 7-bit-group boundary and random i64, decoder inputs (unterminated, "
            "over-long, bits beyond 64, non-canonical, truncated, random); Blob encode/decode (lengths around 8/16/64/8192, "
            "negative and huge announced lengths, truncation) and comparator pairs (grid of fills 00/7f/80/ff x lengths "
            "1..17, related pairs differing deep inside 8-byte chunks, prefixes, extensions). All from VERIF_SEED. "
            "Non-trivial = every case except one-byte varints and empty blobs; distinct = distinct case line.",
    "assumptions": [
        "blobs are modelled by their data bytes; a Blob built from raw bytes with a non-canonical or wrong length prefix is outside the model",
    ],
    "partial": "",
    "trusted": [],
}

TEXT = {
    "text": "Lean theorems for every i64 / byte string: VarInt zig-zag bijection, encode→decode round-trip with any suffix, 1..10 byte "
            "length, rejection of unterminated/over-long input; Blob encode→decode round-trip, truncation rejected, chunked "
            "comparator = lexicographic total order.",
    "design_ref": "DESIGN.md §5 C19",
    "note": "Trusted: Lean kernel + propext/Quot.sound/Classical.choice; the hand-written model of types/*.rs (validated differentially).",
    "technique": "Lean 4 round-trip / order theorems + differential correspondence with the real types module",
}
