"""C09 — clean close and reopen preserves everything.  Engine `reopen`.

Case syntax (one line; parsers: harness/src/engines/reopen.rs `parse_case`, lean/AxVerif/Driver/Reopen.lean):

  reopen <page_size> <cache> <pool> <min_keys> <siblings> | <op> ; <op> ; …       creation-time DBConfig
  op     create <name>(<col>:<type>[!][*],…)   CREATE TABLE; types big|int|text; `!` NOT NULL, `*` UNIQUE
         droptable <name> | vacuum
         tid                                   one empty committed transaction; prints its id (`tid<n>`)
         burn <n>                              n empty committed transactions
         reopen drop|flush|leak <page_size> <cache> <pool> <min_keys> <siblings>
                                               close — drop(db) | flush()+drop(db) | drop(db) while the open sessions are
                                               leaked (never finished) — then Database::open with this configuration;
                                               drop / flush first drop every open session (= rollback)
         s<i> begin|commit|rollback|drop, s<i> <stmt>, db <stmt>, db batch <stmt> & <stmt> …     as engine `hist` (cfg/C04.py)
  stmt   as `hist`; values: canonical decimal | null | 'lowercase' | ^<unit><n> (unit repeated n times: rows with overflow chains)
  DDL is well-formed only while no session is open (anything else is `bad-op` on both sides); `vacuum` rolls back every open
  transaction and ends every session (the engine leaks the session objects: they are never finished).
  output one token per op (`hist` tokens; `ddl@<object id>` for CREATE, `ddl` for DROP, `exists`, `tid<n>`); for a reopen
         `reopen{hdr=<page_size>,<min_keys>,<siblings> <table>=[<row_id>,<v>,…;…] … !<name>=notfound …}` = what the pager works
         with after the open, the full contents of every table that should exist (with the hidden row_id column), name
         resolution of every dropped / unknown name; then ` | ` and the same observation at the end of the case.
         Texts longer than 40 bytes print as `~<len>:<fnv1a-32>`.
  model flags: Reopen.Defects and Db.Defects field names; pseudo-flag `ideal` runs the machine that never restarts
"""

ENGINES = {
    "reopen": {
        "jobs": 8,
        # the Lean model with all defect flags off is the property's oracle: contents, catalog, ids after every reopen
        "spec_is_oracle": True,
        "op_sep": " ; ",
    },
}

PROP = {
    "engines": ["reopen"],
    "lean_modules": ["AxVerif.Model.Db", "AxVerif.Model.Config", "AxVerif.Model.Reopen", "AxVerif.Lemmas.Reopen", "AxVerif.Driver.Reopen"],
    "rule": "one case = creation-time configuration (page size in {4,8,16,64} KiB, cache in {64,512,10000} and, in one sixth of the configurations, {65535,65536,65538,131072,200000} — at and beyond the 16-bit header field —, pool 1-4, min keys 3-5, "
            "siblings 1-3) + a history cut by 1-4 `reopen` ops (close by drop / flush+drop / drop with leaked open sessions; a different "
            "configuration passed to every open): DDL (tables with and without UNIQUE / NOT NULL, DROP TABLE, re-CREATE of a dropped "
            "name), autocommit and batch inserts, deletes, updates, 1-3 concurrent sessions that commit / roll back / are dropped or "
            "left to the close, failing statements (duplicate key, NOT NULL, dropped / unknown table), TEXT values of 0.6-36 KiB "
            "(overflow chains), VACUUM before a close; after every open: a transaction-id probe, a duplicate-key insert that must be "
            "rejected, an insert that must be accepted, often a new table. Extra families: > 255 rows in one table; 140 consecutive "
            "rolled-back transactions (every bit position of the aborted bitmap); 24 / 240 refused-commit cases (two sessions delete the "
            "same row or insert the same unique key, the loser also inserts elsewhere, the winner commits, the loser's COMMIT is "
            "refused, more committed work, close, open, reads and key probes — a transaction refused at commit must stay rolled "
            "back across the close); 24 / 240 vacuum_open_session cases (VACUUM while 1-2 sessions hold uncommitted inserts / deletes, with "
            "and without a commit in between, the sessions never finished, close, open, reads); in both tiers (1 + 1 cases quick, 2 + 3 thorough): > 8192 transactions with rollbacks at ids "
            "~5, 600, 2600, 5600, 8150, 8200, and a sweep of rollbacks across id 8192. Non-trivial (`nt`) = at least one rolled-back "
            "transaction and one id allocation (row, object or transaction id) before some reopen, and id allocations after it; "
            "distinct = distinct case line. Tags `clean` / `kf:<feature>` split clean region and single known-finding feature.",
    "assumptions": [
        "row ids are read through `SELECT row_id, ...`; transaction ids through `coordinator().get_last_committed()` right after an empty committed transaction; object ids from `DdlResult::TableCreated`; page size / min keys / siblings in use from `Pager` getters (public API only, no facade hook)",
        "the model's next_row_id counter is not transactional (a rolled-back INSERT keeps its row id used): this is what the code does, because the catalog row is re-versioned with the table creator's id (update-versioning finding of C03/C04); a repaired MVCC catalog would need a non-transactional counter to keep row ids unique",
        "kept out of generation (other properties' findings): UPDATE on a table with a unique index, statements failing after their first row inside a session, reinsertion of a deleted unique key, concurrent writers of one row, duplicate probes of keys a session cannot see (C03/C04/C07); rows larger than one 40 KB WAL block are refused by the engine with an I/O error and are not generated",
        "the physical level (pages, free list, overflow chains, the unique-index trees) is not in the model: it is covered only through what SELECT / INSERT / CREATE observe after the reopen; the cache capacity in use is not observable through results (C12)",
        "DDL is issued only while no session is open (transactional DDL is C15); VACUUM with open sessions only in the vacuum_open_session family (its effect on concurrent readers is C13)",
        "`last_committed_transaction` needs no persistence for a clean reopen: recovery commits a transaction with a fresh, larger id before anything is read (a mutation that does not persist it is equivalent)",
    ],
    "partial": "",
    "trusted": ["one history is executed from a single thread", "sessions `leaked` at a close are std::mem::forget-ten: their file handles stay open in the harness process"],
}

TEXT = {
    "text": "Lean theorems over ALL histories of the extended database machine (MVCC store of Model/Db + changing catalog, row / object / "
            "transaction id counters, VACUUM, close = checkpoint image, open = fresh coordinator from page zero), for every setting of the "
            "MVCC defect flags: the machine that closes and reopens at arbitrary points, any number of times, with sessions open or not, "
            "with any configurations, answers every operation exactly like the machine that never restarts (same rows, row ids, object "
            "ids, transaction ids, errors) and ends in the same rows / catalog / counters; the configuration passed to open changes no "
            "answer; counters survive and every id in use lies below them; a rolled-back or unfinished transaction is invisible to "
            "every snapshot taken after any number of later operations and reopens. Tied to the code by ~160 (quick) / ~1500 (thorough) "
            "generated histories with 1-4 reopen points run through the public API.",
    "design_ref": "DESIGN.md §5 C09",
    "note": "Holds for the specification model. Known finding with exact attribution: the aborted set in page zero is a bitmap of 8192 "
            "bits, rolled-back transactions with larger ids count as committed after a reopen (the sweep across id 8192 pins the size "
            "exactly). Seen through this engine, other properties' findings: rolled-back UPDATEs (C03/C04, exact), the single "
            "delete-mark slot, one index entry per key and the key comparison at commit (C04/C07, exact; listed so that the "
            "refused-commit cases shrink to the defect they show), B+tree dividers "
            "aliasing overflow chains (C10, region: big rows; 4 KiB pages with min keys >= 4). Repaired by fix: commits: Drop for "
            "Database left open transactions un-aborted (their rows were committed data after reopen); the tuple version byte "
            "overflowed on the 256th insert into any table.",
    "technique": "Lean 4 bisimulation proof (restarting machine vs. never-restarting machine, through an erasure of what no operation reads) + differential correspondence with the real engine",
}
