"""C05 — query answers match SQL semantics."""

ENGINES = {
    "sql": {
        "jobs": 8,
        # the Lean reference evaluator IS SQL semantics for the fragment: any gating difference is a property failure
        "spec_is_oracle": True,
        "op_sep": " ; ",
    },
    "parse": {
        "jobs": 4,
        # text -> AST: a different tree is a different query, i.e. a property failure
        "spec_is_oracle": True,
    },
}

PROP = {
    "engines": ["sql", "parse"],
    "lean_modules": ["AxVerif.Model.Sql", "AxVerif.Model.Parser", "AxVerif.Lemmas.Sql", "AxVerif.Lemmas.Parser",
                     "AxVerif.Generated.Parse"],
    "rule": "sql: one case = a database (1-3 tables over INT/BIGINT/BOOLEAN/TEXT with NULLs, duplicates, negatives, 32/64-bit "
            "boundary values, empty tables) + ~10 statements (SELECT with WHERE / joins of every type / GROUP BY + aggregates / "
            "DISTINCT / ORDER BY / LIMIT / OFFSET; INSERT, UPDATE, DELETE each followed by SELECT *), printed as SQL text with "
            "minimal parentheses and run through Database::execute on a fresh database; the canonical outcome of every statement "
            "must equal the Lean reference evaluator's. parse: expression texts (random ASTs printed minimally + hand-written "
            "precedence traps) through the real parser, AST dump compared with the Lean Pratt parser over the extracted "
            "binding-power table. Every case is non-trivial (nt); distinct = distinct case line.",
    "assumptions": [
        "comparisons across type categories (number / text / boolean) are type errors: the spec rejects the statement statically, the "
        "engine (since repo 603e883) when the comparison meets two non-NULL values; generated cross-category comparisons are the whole "
        "WHERE of a single-table statement over a row where both sides are non-NULL, before any DML of the case",
        "an arithmetic error (overflow, division by zero, value not fitting the result column) can be raised by at most one clause of a "
        "single-table statement in generated cases: which failing sub-expression is reported, and whether rows that are joined away or cut "
        "off by LIMIT are evaluated, depends on plan and pipelining (SQL leaves evaluation order open)",
        "integer columns are INT, BIGINT, UINT, BIGUINT; arithmetic follows the promotion table of the evaluator (unsigned (op) unsigned is "
        "BIGUINT, every other pair BIGINT; which operand is unsigned is read from the static types: columns, unsigned (op) unsigned, and "
        "COALESCE / NULLIF results, which are cast to their result type - CASE results are kept to signed operands); unary minus on an unsigned "
        "value is a type error; BIGUINT literals above 2^63 cannot be written (numbers are lexed as f64 and cast to a signed integer); "
        "FLOAT columns are compare-only like DOUBLE (eighths, exactly representable in f32)",
        "scalar functions: COALESCE (n-ary; every argument is evaluated; the result is cast to the type of the first typed argument), "
        "NULLIF, ABS / CEIL / FLOOR / ROUND (one argument; DOUBLE results: of an integer the nearest double, C19's intToFloat; of a "
        "DOUBLE computed on the bit pattern, ROUND halves away from zero); their results are compared with decimal literals and DOUBLE "
        "columns, shown and sorted, not computed with.  Outside the modelled grammar: SQRT (floating point), CONCAT() (its NULL behaviour "
        "is dialect dependent; || is modelled), ROUND with a precision, and CAST - the parser has no CAST syntax (neither CAST(x AS t) "
        "nor a function form), so the casts a statement can reach are the implicit ones (projection, INSERT, UPDATE, function results), "
        "which cast_agrees_with_C19 ties to C19's model of try_cast for the integer kinds",
        "x IN (list): the engine evaluates the list before x, the spec x first; generated list elements are columns and literals (they cannot fail)",
        "LIMIT/OFFSET are generated only under an ORDER BY over all output columns (otherwise the answer is not unique); under a partial "
        "ORDER BY the answer must be sorted under the spec comparator and equal as a multiset",
        "aggregate queries: select list and HAVING are expressions over the aggregate row (group keys, then aggregates; since repo "
        "eb9b25f the engine plans them that way); a column that is neither grouped nor aggregated cannot be written in the case "
        "syntax; SUM results are only compared / added to, AVG results only shown (they are doubles in the engine); "
        "sub-queries in expressions are outside the modelled grammar (they answer an error since repo 6dee6fb); derived tables in "
        "FROM are modelled in their select-project form (SELECT items FROM f [WHERE w]) AS r, every output column typed; a statement "
        "over a derived table with a WHERE of its own is generated without clauses that can fail (the engine merges the two filters); "
        "CASE (searched and simple) is modelled, but not below a unary minus",
        "LIKE matches by characters (a character = a UTF-8 lead byte and its continuation bytes; the engine does since repo 89a00a1): "
        "% any sequence, _ any one character, backslash makes the next character literal, a pattern ending in a lone backslash matches "
        "nothing; texts are valid UTF-8 (they come from SQL string literals); generated patterns have 1-8 items over "
        "{a, b, %, _, \\%, \\_, \\\\, \\a, €}, subjects 0-10 characters over {a, b, %, _, \\, €}, two thirds of the literal subjects are "
        "instances of the pattern with at most one character changed",
        "string functions UPPER, LOWER, LENGTH, LTRIM, RTRIM and || are modelled on byte strings: letters are the ASCII letters "
        "(generated texts are ASCII; the engine maps non-ASCII letters by Unicode rules), LENGTH counts UTF-8 characters, the trims "
        "remove spaces only (since repo ba55ebb), NULL in gives NULL out (since repo ba327e3); CONCAT(), COALESCE, NULLIF and the "
        "numeric functions are outside the modelled grammar",
        "SUM/AVG return DOUBLE in the engine: compared as exact integers / correctly rounded quotients, for |sum| < 2^53",
        "DOUBLE columns are compare-only: their values (eighths of small integers, written f<IEEE-754 bits>) are stored, compared with each "
        "other and with decimal literals, sorted, grouped, counted, MIN/MAXed and shown; no arithmetic, SUM or AVG over them and no "
        "comparison with integer-typed expressions is generated (the spec keeps the order key of the bit pattern, it has no floating-point "
        "semantics); a double holding an integer is shown as that integer",
        "integer literals and stored values are exactly representable as f64 (the lexer reads numbers as f64)",
        "SQL text: BETWEEN bounds are printed with minimal parentheses (a bound may be a comparison: x BETWEEN a AND b = c); the aliases of "
        "the FROM operands go through identifier forms with non-ASCII letters, underscores, digits and both cases (identifiers are case "
        "sensitive); a `-- comment` ending in a line break is written before WHERE in a share of the statements",
        "a derived table that is a top-level operand of FROM is written in place or as a common table expression (WITH w AS (…) … FROM w AS r; "
        "the same CTE may be used twice; a CTE may carry the name of a table of the database that the statement does not read); the "
        "model treats a CTE as its derived table; recursive CTEs and CTEs inside sub-queries are outside the grammar",
        "INSERT is generated with and without a column list (a permutation of a subset of the columns; unlisted columns become NULL - "
        "column DEFAULTs are not declared by the harness; the engine never applies them, see the report); a third of the listed INSERTs "
        "are ill-formed (too few / too many values, duplicate or unknown column) and must answer a bind error and change nothing: "
        "after a statement rejected by the parser or binder the comparison of the case goes on",
        "what a failed INSERT/UPDATE/DELETE leaves behind is C03: statements after a failed DML statement of a case are not compared",
        "errors reach the public API as text (TaskError::TaskFailed(String)); their class is read from the prefixes produced by the error enums' Display impls",
    ],
    "partial": "parser: text -> AST is proved end to end for the expression grammar (parse_text_roundtrip = lex_render_tokens + "
               "parse_printMin + table_ordered); CASE, function calls and sub-queries are not in the parser model. "
               "sql: the laws are proved for the operators the reference evaluator is built from and for statement-level "
               "INSERT/UPDATE/DELETE (select_pipeline and from_join_is_joinPure tie the evaluator to the operators); the agreement "
               "of the engine with the evaluator is tested, not proved.",
    "trusted": ["SQL printer (minimal parentheses), result canonicaliser and ORDER BY sortedness check of the Rust harness",
                "bit pattern <-> order key conversion of DOUBLE values in the Lean driver (integer arithmetic on the bit pattern)",
                "Lean `Float` division only for printing non-integral AVG results (no theorem mentions it)"],
}

TEXT = {
    "text": "Lean reference evaluator for the SQL fragment (three-valued logic, comparisons, BETWEEN, IN, IS NULL, LIKE, checked integer "
            "arithmetic, CASE, string functions, joins of every type, derived tables, GROUP BY + aggregates + HAVING, DISTINCT, ORDER BY, LIMIT/OFFSET, INSERT/UPDATE/DELETE) with theorems "
            "that it obeys the defining laws of SQL for all tables and predicates, and a Lean model of the Pratt parser over the binding-power "
            "table extracted from the code with a parse-print round-trip theorem; both tied to the real engine on every run by thousands of "
            "generated statements through the public Database API.",
    "design_ref": "DESIGN.md §5 C05",
    "note": "Trusted: Lean kernel + propext/Quot.sound/Classical.choice; the hand-written reference evaluator is the specification (its laws are "
            "proved, its agreement with the engine is tested, not proved); the harness' SQL printer and canonicaliser.",
    "technique": "Lean 4 reference semantics with proved algebraic laws + differential testing of the real engine against it",
}
