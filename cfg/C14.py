"""C14 — statements issued from several threads all finish and stay correct.  Engine `threads`, judge mode.

Case syntax (one line; parsers: harness/src/engines/threads.rs `parse_case`, lean/AxVerif/Driver/Threads.lean):

  threads <setup…> | t<i> <op> ; t<j> <op> ; …
  setup  tab=<name>(<col>:<type>[!][*],…)   as engine `hist` (cfg/C04.py)
         row=<table>:<v>,<v>,…              committed initial row
         fill=<table>:<n>:<pad>             n more initial rows (1000+i, i, 'x'*pad), i = 1..n; the table must be (big, int, text)
         cache=<pages> pool=<workers> pace=<seed of the pacing (spins / yields / sleeps before every call)>
         yield=<tag>:<permille>:<max_us>    delay of 1..max_us microseconds on <permille> of 1000 hits of the yield point <tag> inside the
                                            database (axmosdb::verif::sched: begin_snapshot | row_id_leased | snapshot_taken | commit_logged |
                                            committed | page_fetched | tree_write | leaf_released); which hits, and how long, is a function of pace seed, tag, hit number
  op     begin | commit | rollback          the thread's own session (= one transaction at a time)
         <stmt>                             statement in the thread's open session          stmt as engine `hist`
         db <stmt>                          Database::execute (autocommit) issued by that thread
         db subq <table>                    SELECT * FROM <table> WHERE k IN (SELECT k FROM <table>): must fail (class other)
         flush                              Database::flush issued by that thread
  What is executed is, per thread t<i>, the subsequence of its ops; the single op list only serves shrinking.

Observation (one line):   <kind> <call> <call> … | <table>=[rows] …
  kind   run | interr | protocol:<tag> | hang:<t<i>#<k>,…> | panic@<file:line>[,hang:…]      (interr: some call answered with a class that no
         statement of the case may produce; protocol: a section the code relies on being exclusive was entered without its lock, as reported by yield point <tag>;
         hang: calls that had not returned 10 s after their 10 s bound; panic: first panic of any thread)
  call   t<i>:<t0>:<t1>:<out>    t0 / t1 = tickets of one global counter drawn right before the call was issued / right after
         it returned; out as engine `hist` (ok | ok<n> | [sorted rows] | conflict | constraint | … | nosession); pad texts 'x*<n>'
  final contents: read by the harness after all client threads have finished
Judge answer: ok ## events=… serial=… conflictfree=… | bad hang | bad panic | bad internal-error … | bad not-serialisable | bad not-serial
"""

ENGINES = {
    "threads": {
        # judge mode: exec() returns the observation of one multi-threaded run of the real database; the Lean driver decides
        # whether it is admissible: no internal error, MT.checkSerialSI accepts (some linearisation of the calls that keeps every
        # thread's order and the ticket order makes the MVCC model give every observed answer and the observed final contents),
        # and for conflict-free cases MT.checkSerial certifies a serial order.  Runs are not reproducible (real schedules): every
        # observation is judged on its own.
        "mode": "judge",
        "jobs": 8,
        "op_sep": " ; ",
    },
}

PROP = {
    "engines": ["threads"],
    "lean_modules": ["AxVerif.Model.Latch", "AxVerif.Lemmas.Latch", "AxVerif.Model.Coord", "AxVerif.Lemmas.Coord", "AxVerif.Lemmas.NonInterf", "AxVerif.Model.Serial",
                     "AxVerif.Driver.Threads"],
    "rule": "one case = 2-8 client threads on one fresh database (own Session transactions and/or autocommit Database::execute calls; "
            "inserts, deletes, selects; UPDATE and the other known-finding features of C04 are kept out), started behind a barrier, paced "
            "from the case's seed, every call under a watchdog (10 s bound) inside a supervised child process. Clean shapes (each 1/15 of the clean "
            "cases): 2 autocommit writers on own tables; 2-3 writers + readers of static tables; 3-5 session writers + session readers; the "
            "same over tables preloaded to several pages (cache 10000 or 32-64); readers scanning the very tables being written (one-page "
            "and multi-page); begin/commit stress (2 session writers x 6-8 transactions, 2 fast autocommit committers, 3-4 readers of the "
            "session writers' tables); scans next to splits (one writer appends 100-160 rows to a multi-page table while 3 readers scan it); the preloaded shape with a "
            "cache of 12-20 pages, below the working set (eviction while other threads pin frames); 2-4 writers inserting into and deleting from "
            "ONE table (judged for snapshot isolation; a serial order is demanded only of conflict-free cases); four shapes with delays at the "
            "yield points inside the database: begin/commit stress with delays after the snapshot and around commit, scans next to splits with "
            "delays between page fetch and latch / between leaves / between the tree operations of a statement, a table with a UNIQUE index "
            "(point lookups and scans next to inserts, delays between table-tree, index-tree and catalog-tree update), first split of a "
            "one-page table under scans; and the statement-level family: 3-6 threads issuing autocommit statements on tables of their own "
            "with delays at every yield point, judged additionally against each thread's statements run ALONE (`bad not-alone`); the row-id lease race: one thread keeps failing "
            "an INSERT on a UNIQUE key while others insert fresh keys into the same table, delays between the lease and the constraint check. "
            "Region shapes (4 % of quick, 8 % of thorough cases, spread among the clean ones): a thread calling "
            "Database::flush, statements that panic in a pool worker. All derived from VERIF_SEED (the schedules "
            "themselves are the OS's). Non-trivial = every case (>= 2 threads, >= 30 events); distinct = distinct case line.",
    "assumptions": [
        "the ticket order is the only cross-thread order used: a call that returned before another was issued took effect first; begin and "
        "commit points of a call lie inside its ticket interval (an autocommit call is cut into begin / statement / commit events)",
        "transaction ids are not obtainable through the public API, so the begin/commit order is searched (bounded depth-first search, "
        "8 000 nodes, look-ahead on every begin, commits placed lazily) and then verified; an observation whose search runs out of budget is reported as `not-serialisable search-budget-exhausted` (0 of ~6 000 clean runs with the final search)",
        "rows are compared as sorted multisets of rendered values (SELECT * without ORDER BY); row ids are not observable",
        "error classes are read off the Display text, as in engine `hist`",
        "a call counts as hung when it has not returned 10 s after its 10 s bound (a deadlock never returns; a stall of the loaded machine "
        "does): calls that return between 10 s and 20 s are reported in the diagnostics (`slow-call`) and judged like any other",
        "tables have the shape (k BIGINT, v INT, p TEXT) without constraints; rows stay under ~150 bytes and at most two tables per case are "
        "preloaded (larger cells / more big catalog rows run into the C10 finding KF-C10-divider-full-copy even single-threaded)",
    ],
    "partial": "PARTIAL BY DESIGN. (1) Schedules are OBSERVED, not enumerated: each case is one run under whatever interleaving the OS produced "
               "(perturbed by seeded pacing outside the database and by seeded delays at six yield points inside it; the decisions are reproducible, the interleavings are not: there is no cooperative scheduler that owns the threads). The check certifies every run that finished; it "
               "cannot show that the scheduler never produces a bad interleaving. (2) The deadlock-freedom theorems are about an ABSTRACTION of "
               "the latch acquisition order (Model/Latch.lean: thread programs over the pager lock and page latches, shapes extracted by reading "
               "tree/bplustree.rs, tree/accessor.rs, runtime/ops/seq_scan.rs, io/pager.rs); they are not tied to the Rust by extraction or by a "
               "differential check, only by the runs (a deadlock would be observed as `hang`). Not modelled: index scans (a reader holding latches "
               "of two trees), overflow / free-list pages (latched only under the pager lock), VACUUM, DDL, and `Database::flush` (modelled only "
               "for its witness). (3) `serial_of_conflict_free_statement` (SI-accepted + conflict-free => accepted by checkSerial, a statement "
               "about the search) is stated, not proved: the judge decides serial equivalence per run with the verified checker `checkSerial`. "
               "What IS proved at statement level (Lemmas/NonInterf.lean, over the Db model): in histories of autocommit SELECT / INSERT / "
               "DELETE statements, statements on other tables do not interfere (any catalog, constraints included), and, for catalogs "
               "without constraints, the position of a statement does not matter and two adjacent statements on different tables commute "
               "(same answers, same rows per table in either order). Not covered: UPDATE, sessions (multi-statement transactions), "
               "statements with disjoint ROW footprints inside one table. (4) The linearisation search is bounded; "
               "soundness of acceptance does not depend on it, completeness does.",
    "trusted": [
        "engine `threads`: ticket counter, per-call watchdog, panic hook, canonical rendering of results",
        "Lean driver Driver/Threads.lean: parsing of case and observation, cutting calls into model events",
        "the latch model is hand-written from the code (not extracted)",
    ],
}

TEXT = {
    "text": "Partial. (a) Lean theorems over a transition system of threads x pager lock x page latches (fair or re-entrant read latches), for ANY "
            "number of threads, trees and rebalancing orders: the pager lock is never held across a latch wait; readers only / writers only / "
            "readers with writers never reach a state without an enabled step (the suspected leaf-scan vs sibling-rebalance cycle is refuted: "
            "both sides go through the root latch); plus reachable-deadlock witnesses for the two real defects found (a scan re-latching a one-page "
            "table behind a parked writer - repaired; Database::flush latching pages under the pager lock - listed); a model of "
            "TransactionCoordinator::begin with the theorem that an atomic begin only ever counts committed transactions as committed, and the "
            "witness of the shipped three-step begin (dirty read - repaired); statement-level non-interference and commutation of autocommit "
            "statements on different tables, proved over the Db model. (b) A verified checker for "
            "multi-threaded observations: checkSerialSI_sound / checkSerial_sound - an accepted observation has a linearisation (thread order and "
            "ticket order kept) on which the MVCC model of C04 gives every observed answer and the observed final contents, and is equivalent to "
            "a serial execution of its transactions. (c) Tie: ~570 (quick) / ~8 600 (thorough) runs of 2-8 real client threads against the real "
            "database per check, each under a watchdog, each judged by the checker.",
    "design_ref": "DESIGN.md §5 C14",
    "note": "Schedules are observed, not enumerated; the latch theorems are about an abstraction of the acquisition order read off the code. Three "
            "defects were repaired (fix: commits): page read latches were not re-entrant although scans latch a page through two accessors "
            "(deadlock with any concurrent writer of a one-page table, ~15 % of same-table runs); TransactionCoordinator::begin was not atomic "
            "(a snapshot taken between id allocation and registration of another transaction read its uncommitted rows, ~6 % of stress runs); "
            "concurrent inserts into one table were handed the same row id and lost rows (~35 % of same-table-writer runs). "
            "Two further defects seen here were repaired by other properties' fixes now on main (C12's eviction sweep: small caches under "
            "concurrency; C16's catch_unwind: a panicking statement no longer kills its pool worker). Two findings are listed with region "
            "attribution: Database::flush deadlocks with writers, IN (SELECT ...) panics in the evaluator (C16's finding; attributed only while no call hangs). Inside those regions the "
            "verdict is weaker.",
    "technique": "Lean 4 deadlock-freedom proofs over a latch transition system + verified history checker (snapshot isolation / serial order) "
                 "applied to observations of real multi-threaded runs",
}
