"""C08 — crash recovery (engine crash, judge mode)."""

ENGINES = {
    # judge mode: the observation of the real code (recovered contents at every crash point + I/O trace) is judged by the Lean model
    "crash": {"mode": "judge", "jobs": 14, "op_sep": " ; "},
}

PROP = {
    "engines": ["crash"],
    "lean_modules": ["AxVerif.Model.Durable", "AxVerif.Model.Recovery", "AxVerif.Model.Journal", "AxVerif.Lemmas.Recovery", "AxVerif.Lemmas.RecoveryR1", "AxVerif.Lemmas.Journal"],
    "rule": 'one case = one workload (DDL, autocommit INSERT/UPDATE/DELETE, batches, committed / rolled-back / still-open sessions, failing statements, checkpoints, VACUUM, DROP TABLE; cache 10000, or 8-16 frames with wide rows so that dirty pages are evicted between checkpoints) executed once under the I/O tap; every prefix of the mutation stream after which the file image differs is a crash point (at most 90 per case, those adjacent to fsync/truncate/call/return always kept); each image is opened, read back, closed, reopened, probed; for C08 up to 8 crash points per case are nested (the recovery of the image is itself run under the tap and crashed at every mutation); up to 45 points per case are also observed under the second crash model (of every file only what was written before its last fsync survives). Families: 40% clean region, 10% each open_txn, rb_update, no_init_ckpt, drop_table, vacuum, 5% steal, 5% big_log. Non-trivial = every workload (each has >= 4 units and >= 10 crash points); distinct = distinct case line.',
    "assumptions": ['crash model A: a crash preserves exactly a prefix of the issued write/truncate calls, each atomic (no reordering, no torn single write); crash model B (observed, not part of the journal theorem): of every file only what had been written before its last fsync survives', 'workloads are stepped from one thread; units touch disjoint rows, so log-order redo and commit-order application coincide', 'tables have the shape (id BIGINT, v INT) or (id BIGINT, v INT, pad TEXT); DDL = CREATE/DROP TABLE; crash points before Database::create has returned are not explored', 'page contents are abstract in the journal model (Model/Journal.lean): the B+tree structure inside the pages is observed through contents and probe only'],
    "partial": 'Partial: the page-level journal theorem (restore_returns_checkpoint) is proved for crash model A (every write survives); under crash model B the judge only compares contents. Nested crash points go one level deep (a crash inside the recovery of a crash image).',
    "trusted": ['I/O tap in DBFile (feature verif): every create/write/set_len/sync/remove is reported in issue order', 'image rebuilder of the harness (applies the first k events to in-memory files and writes them to a scratch directory)'],
}

TEXT = {
    "text": 'Theorems (Lean, unbounded): recovery is a total function of stable image and durable log; interrupted recovery changes nothing; reopening a recovered or cleanly closed database is the identity; after any number of recoveries and open/close cycles the contents are the redo of the durable history (contents_after_any_number_of_recoveries). Page level: every I/O trace accepted by the journal rule, cut anywhere, is restored to the file of the last checkpoint (restore_returns_checkpoint); with that, a crash at any point - pages evicted in place, inside a checkpoint, between its completion mark, the log truncation and the journal restart - recovers the redo of the durable history (journaled_checkpoint_safe_at_every_point). Tie: at every explored crash point Database::open must succeed, a clean close + second open must show the same contents, and a probe CREATE/INSERT/SELECT must work; the journal rule is checked on the real I/O trace of every workload.',
    "design_ref": "DESIGN.md §5 C01/C02/C08",
    "note": "Trusted: Lean kernel + propext/Quot.sound/Classical.choice; the protocol model is hand-written (validated by the judge on real crash images, not verified against the Rust); "
            "crash model A = prefix of atomic writes (B observed only); " + PROP["partial"],
    "technique": "Lean 4 invariant proof over a WAL protocol machine + verified judge over real crash images (I/O tap)",
}
