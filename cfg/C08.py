"""C08 — crash recovery (engine crash, judge mode)."""

ENGINES = {
    # judge mode: the observation of the real code (recovered contents at every crash point + I/O trace) is judged by the Lean model
    "crash": {"mode": "judge", "jobs": 14, "op_sep": " ; "},
}

PROP = {
    "engines": ["crash"],
    "lean_modules": ["AxVerif.Model.Durable", "AxVerif.Model.Recovery", "AxVerif.Lemmas.Recovery", "AxVerif.Lemmas.RecoveryR1"],
    "rule": 'one case = one workload (DDL, autocommit INSERT/UPDATE/DELETE, batches, committed / rolled-back / still-open sessions, failing statements, checkpoints, VACUUM, DROP TABLE; cache 10000 or 48) executed once under the I/O tap; every prefix of the mutation stream after which the file image differs is a crash point (at most 90 per case, those adjacent to fsync/truncate/call/return always kept); each image is opened, read back, closed, reopened, probed. Families: 40% clean region, 10% each open_txn, rb_update, no_init_ckpt, drop_table, vacuum, small_cache. Non-trivial = every workload (each has >= 4 units and >= 10 crash points); distinct = distinct case line.',
    "assumptions": ['crash model: a crash preserves exactly a prefix of the issued write/truncate calls, each atomic (no reordering, no torn single write); fsync is not needed for a write to survive', 'workloads are stepped from one thread; units touch disjoint rows, so log-order redo and commit-order application coincide', 'tables have the shape (id BIGINT, v INT); DDL = CREATE/DROP TABLE; crash points before Database::create has returned are not explored', 'physical tearing of a B+tree across a partial set of page writes is only observed through the contents/probe, not modelled'],
    "partial": 'Partial: crash points *inside* recovery (depth-2 nesting) are not enumerated yet; the non-atomic checkpoint is a listed finding (tornCheckpoint_witness).',
    "trusted": ['I/O tap in DBFile (feature verif): every create/write/set_len/sync/remove is reported in issue order', 'image rebuilder of the harness (applies the first k events to in-memory files and writes them to a scratch directory)'],
}

TEXT = {
    "text": 'Theorems (Lean, unbounded): recovery is a total function of stable image and durable log; interrupted recovery changes nothing; reopening a recovered or cleanly closed database is the identity; after any number of recoveries and open/close cycles the contents are the redo of the durable history (contents_after_any_number_of_recoveries). Tie: at every explored crash point Database::open must succeed, a clean close + second open must show the same contents, and a probe CREATE/INSERT/SELECT must work.',
    "design_ref": "DESIGN.md §5 C01/C02/C08",
    "note": "Trusted: Lean kernel + propext/Quot.sound/Classical.choice; the protocol model is hand-written (validated by the judge on real crash images, not verified against the Rust); "
            "crash model = prefix of atomic writes; " + 'Partial: crash points *inside* recovery (depth-2 nesting) are not enumerated yet; the non-atomic checkpoint is a listed finding (tornCheckpoint_witness).',
    "technique": "Lean 4 invariant proof over a WAL protocol machine + verified judge over real crash images (I/O tap)",
}
