"""C03 — ROLLBACK, a failed statement or a failed batch leaves no effects.  Engine `hist` is configured in cfg/C04.py."""

PROP = {
    "engines": ["hist"],
    "lean_modules": ["AxVerif.Model.Db", "AxVerif.Lemmas.Db", "AxVerif.Lemmas.DbSim", "AxVerif.Lemmas.DbHist", "AxVerif.Driver.Hist"],
    "rule": "same engine and case format as C04; the C03 families (tag `c03`) put a failing statement (duplicate key, NOT NULL, type "
            "error, unknown table / column, wrong arity; multi-row INSERT failing on its first or on a later row) at every position of "
            "a session program that then commits, rolls back or is dropped, fail autocommit statements and batches at every position, "
            "roll back / drop deletes and inserts and write the same rows again, roll back an UPDATE, delete and reinsert a unique key; "
            "an observer session opened before and the final committed state are read afterwards. Non-trivial (`nt`) as for C04.",
    "assumptions": [
        "as C04",
        "DDL inside the rolled-back transaction (created / dropped objects) is C15's part of this property; the catalog is static here",
    ],
    "partial": "",
    "trusted": ["one history is executed from a single thread"],
}

TEXT = {
    "text": "Lean theorems over ALL histories: erasing an aborted transaction's stamps from the store changes no snapshot's view, a history "
            "in which a rolled-back / dropped / failed transaction's operations are replaced by no-ops gives every other operation the same "
            "output, a failing statement or batch leaves the state it found, dropping a session is a rollback. Tied to the code by the "
            "C03 families of engine `hist` (failing statements at every position, failing batches, rollback and drop, through the public API).",
    "design_ref": "DESIGN.md §5 C04/C03",
    "note": "History-level theorems: abort_erases / abort_erases_refused (one transaction ended by ROLLBACK, a session drop, a following "
            "begin or a REFUSED commit, of a session that may commit others before and after), abort_erases_partial (a session that "
            "never commits), failed_statement_erases (a failing statement of a transaction that goes on and commits, a failing "
            "autocommit statement or batch). Known findings with exact attribution: rolled-back UPDATEs stay visible (pinned test); "
            "repaired by fix 30b3e5b: a statement failing after its first row kept the rows processed so far; region finding: deleting and reinserting a unique key replaces the index "
            "entry, so after a rollback the old row is no longer found through the index. Fixed by a fix: commit: a rolled-back DELETE "
            "left a stale mark that swallowed every later DELETE of the row.",
    "technique": "Lean 4 refinement proof + differential correspondence with the real sessions",
}
