"""C20 — wire protocol."""

ENGINES = {
    # engine options.  spec_is_oracle: any gating difference between implementation and Lean spec is by itself a
    # failure of the property.  prop_failure(case, impl, spec): engine-specific rule telling a property failure from a
    # mere correspondence difference.  op_sep: separator of the ops of a sequence case (used for shrinking).
    "wire": {
        "jobs": 8,
        # a decoder that accepts what the proved decoder rejects, or the other way round, breaks C20's
        # "received exactly as sent / garbage is answered with a protocol error"
        "prop_failure": lambda case, impl, spec: ((impl.startswith("ok ") != spec.startswith("ok "))
                                                  and case.split(" ")[0] in ("req", "resp", "frame"))
        # frames delivered through a transport with short reads / a buffered reader must be exactly the frames sent
        or case.split(" ")[0] in ("framec", "frames"),
    },
}

PROP = {
    "engines": ["wire"],
    "lean_modules": ["AxVerif.Model.Wire", "AxVerif.Model.Bytes", "AxVerif.Lemmas.Wire", "AxVerif.Lemmas.Bytes"],
    "rule": "cases = well-formed Request/Response values of every variant (encode bytes + decode∘encode), byte strings "
            "(random, any-opcode, lossy strings, Rows with chosen counts, mutated valid encodings) through both decoders, "
            "frames around the 16 MiB cap, the same streams through transports delivering 1-9 bytes per read and several frames through a buffered reader; all derived from VERIF_SEED. Non-trivial = every case except plain short "
            "write_message calls; distinct = distinct case line.",
    "assumptions": [
        "strings are modelled as UTF-8 byte lists; from_utf8_lossy is modelled by `lossy` (maximal-subpart replacement) and tied by the `bytes-string-lossy` cases",
        "a zero-column Rows message may announce up to 2^32 empty rows; it is a valid (enormous) message and is kept out of generation",
        "query_result_to_response (server binary) is covered only by the WfResp hypothesis, not executed",
    ],
    "partial": "",
    "trusted": ["child processes run under RLIMIT_AS = 4 GiB; an allocation beyond it is observed as `abort`"],
}

TEXT = {
    "text": "Full: Lean theorems decode∘encode = id for every Request and Response (any number of rows/columns, empty and non-ASCII strings), "
            "framing round-trip and cap, rejection of short/wrong-version/unknown-status input, and a bound (≤ bytes received) on every "
            "capacity request of the decoder — for all inputs, no size bound. The model is tied to tcp/mod.rs by ~20 000 generated cases per run "
            "(byte-exact encodings, decoder outcomes on arbitrary and mutated bytes under an address-space limit) and by constants extracted from the code.",
    "design_ref": "DESIGN.md §5 C20",
    "note": "Trusted: Lean kernel + propext/Quot.sound; the hand-written model of tcp/mod.rs (validated differentially, not verified); "
            "from_utf8_lossy modelled by `lossy`; query_result_to_response (server binary) only assumed to produce rectangular rows; "
            "zero-column Rows messages announcing > 10^4 rows are excluded from generation (valid but enormous).",
    "technique": "Lean 4 round-trip and bound theorems + differential correspondence with the real encoder/decoder",
}
