"""C02 — crash recovery (engine crash, judge mode)."""

ENGINES = {
    # judge mode: the observation of the real code (recovered contents at every crash point + I/O trace) is judged by the Lean model
    "crash": {"mode": "judge", "jobs": 14, "op_sep": " ; "},
}

PROP = {
    "engines": ["crash"],
    "lean_modules": ["AxVerif.Model.Durable", "AxVerif.Model.Recovery", "AxVerif.Model.Journal", "AxVerif.Lemmas.Recovery", "AxVerif.Lemmas.RecoveryR1", "AxVerif.Lemmas.Journal"],
    "rule": 'one case = one workload (DDL, autocommit INSERT/UPDATE/DELETE, batches, committed / rolled-back / still-open sessions, failing statements, checkpoints, VACUUM, DROP TABLE; cache 10000, or 8-16 frames with wide rows so that dirty pages are evicted between checkpoints) executed once under the I/O tap; every prefix of the mutation stream after which the file image differs is a crash point (at most 90 per case, those adjacent to fsync/truncate/call/return always kept); each image is opened, read back, closed, reopened, probed; for C08 up to 8 crash points per case are nested (the recovery of the image is itself run under the tap and crashed at every mutation); up to 45 points per case are also observed under the second crash model (of every file only what was written before its last fsync survives). Families: 40% clean region, 10% each open_txn, rb_update, no_init_ckpt, drop_table, vacuum, 5% steal, 5% big_log. Non-trivial = every workload (each has >= 4 units and >= 10 crash points); distinct = distinct case line.',
    "assumptions": ['crash model A: a crash preserves exactly a prefix of the issued write/truncate calls, each atomic (no reordering, no torn single write); crash model B: of every file only what had been written before its last fsync is sure to survive (page level: restore_returns_checkpoint_lossy for any mix of written and synced page contents; log: the volatile tail `buf` of the recovery model; journal entries: any prefix k of the unsynced ones; journal header writes are taken as atomic and durable, each being followed by its fsync inside the same call)', 'workloads are stepped from one thread; units touch disjoint rows, so log-order redo and commit-order application coincide', 'tables have the shape (id BIGINT, v INT) or (id BIGINT, v INT, pad TEXT); DDL = CREATE/DROP TABLE; crash points before Database::create has returned are not explored', 'page contents are abstract in the journal model (Model/Journal.lean): the B+tree structure inside the pages is observed through contents and probe only'],
    "partial": 'Partial: the stable store of the recovery model is logical; the page-level journal theorems are tied to the code through the rule check on the real I/O trace; rolled-back UPDATE/DELETE is a listed finding of C03 seen through the live comparison.',
    "trusted": ['I/O tap in DBFile (feature verif): every create/write/set_len/sync/remove is reported in issue order', 'image rebuilder of the harness (applies the first k events to in-memory files and writes them to a scratch directory; for crash model B it leaves out, per file, what was written after its last fsync)', 'trace tokenizer of the harness (page numbers from write offsets; `=` / `!` = byte comparison of a saved page image with the database file as of the last journal start)', 'the recovery protocol model and the journal model are hand-written; what ties them to the Rust is the judge over real crash images and the rule check `Journal.accepts` / `checkR1` on the real I/O trace'],
}

TEXT = {
    "text": 'Theorems (Lean, unbounded): a transaction that is not a winner of the durable log (open, rolled back, failed, COMMIT not forced) leaves no trace — recovery equals recovery of the history with it erased (loser_leaves_no_trace, only_committed_contribute); a transaction whose COMMIT is durable has all its records durable (crash_shows_whole_transactions_only). Tie: at every explored crash point of real workloads the recovered contents must contain nothing beyond the acknowledged units plus, as a whole, the one in flight.',
    "design_ref": "DESIGN.md §5 C01/C02/C08",
    "note": "Trusted: Lean kernel + propext/Quot.sound/Classical.choice; the protocol model is hand-written (validated by the judge on real crash images, not verified against the Rust); "
            "crash models A (prefix of atomic writes) and B (unsynced writes may be lost); " + PROP["partial"],
    "technique": "Lean 4 invariant proof over a WAL protocol machine + verified judge over real crash images (I/O tap)",
}
