"""C16 — any statement yields a result or an error: never a panic, never a hang."""

ENGINES = {
    "pool": {
        "jobs": 8,
        "op_sep": " ; ",
        # the spec (defect-free pool) answers every job and keeps every worker: any other observation of the real
        # pool (a `lost` / `timed-out` job, fewer live workers) is by itself a failure of C16
        "spec_is_oracle": True,
    },
}

PROP = {
    "engines": ["pool"],
    "lean_modules": ["AxVerif.Model.Pool", "AxVerif.Lemmas.Pool"],
    "rule": "pool: job sequences (blocking calls and FIFO bursts of ok / err / panicking jobs) on pools of 1–8 workers through the "
            "task runner of a real Database; non-trivial = a sequence with an err or panicking job or a burst longer than the pool. "
            "distinct = distinct case line.",
    "assumptions": [],
    "partial": "",
    "trusted": [],
}

TEXT = {
    "text": "",
    "design_ref": "DESIGN.md §5 C16",
    "note": "",
    "technique": "",
}
