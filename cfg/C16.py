"""C16 — any statement yields a result or an error: never a panic, never a hang."""

ENGINES = {
    "pool": {
        "jobs": 8,
        "op_sep": " ; ",
        # the spec (defect-free pool) answers every job and keeps every worker: any other observation of the real
        # pool (a `lost` / `timed-out` job, fewer live workers) is by itself a failure of C16
        "spec_is_oracle": True,
    },
    "fuzz": {
        "jobs": 8,
        "op_sep": " ; ",
        # property failures are the lines the harness / supervisor mark: PROPFAIL (panic in any thread, failed
        # liveness probe, state changed by a failed statement), abort, hang.  A mere difference in a predicted
        # outcome class (`rows` vs `error`) is a correspondence difference.
    },
}

PROP = {
    "engines": ["pool", "fuzz"],
    "lean_modules": ["AxVerif.Model.Pool", "AxVerif.Lemmas.Pool", "AxVerif.Model.Fuzz", "AxVerif.Model.Bytes"],
    "rule": "pool: job sequences (blocking calls and FIFO bursts of ok / err / panicking jobs) on pools of 1-8 workers through the "
            "task runner of a real Database; non-trivial = a sequence with an err or panicking job or a burst longer than the pool. "
            "fuzz: one self-contained sequence of 12-300 statements per case (one of 35 themes) on a fresh pre-populated database (1-3 tables of random "
            "column types, pool size 1-3, autocommit or one session): strings (random characters, lossily decoded random bytes, token "
            "soups of the lexer's vocabulary, truncated and mutated valid statements, DDL, oversized literals, long garbage runs, nesting "
            "to depth 2000, 40-300 versions of one row, multi-row inserts, INSERT … SELECT with every mix of DISTINCT / WHERE / GROUP BY / self-join / ORDER BY / LIMIT / OFFSET over tables of several B+tree pages (60-160 short or wide rows, reading the target or its twin, autocommit and session), statements that fail on a late row) and "
            "statements of a small grammar (unknown names, wrong types, NULL arguments, /0, overflow, functions, aggregates, CASE, "
            "sub-queries, HAVING, DML); after every statement: no panic in any thread, a "
            "probe SELECT answers on the same session and database, and a dump of all tables is unchanged if the statement failed. "
            "non-trivial = every case except the `valid` theme (plain valid statements); distinct = distinct case line. "
            "Each case belongs to one theme; 25 % of the cases come from the 8 themes that are regions of listed findings; findings are "
            "attributed by theme tag + failure kind (panic@<file>, probe-failed, state-changed-on-error, abort), not by line numbers.",
    "assumptions": [
        "the Lean driver answers `ok-or-error` for every well-formed string case: this encodes the property's oracle (the call returns a "
        "result or an error, never a panic or a hang) — the model does not predict how arbitrary strings parse; a panic, a hang, a failed "
        "liveness probe or a state change by a failed statement is reported by the harness as PROPFAIL / abort / hang and never equals the "
        "model's line",
        "outcome classes are predicted only where the schema alone decides them (unknown table / column, wrong arity, integer / and % by "
        "the literal 0 over every row of an untouched non-empty table, plain projections with plain comparisons); all other grammar "
        "statements are held to `ok-or-error`",
        "a panic in any thread counts as a failure even when the caller receives an error (after the catch_unwind fix a panicking "
        "statement is reported to its caller as an error and the worker survives)",
        "state comparison uses SELECT * of the schema's tables plus three candidate names through the same path (database or session) "
        "as the statement; hidden state (indexes, free pages, WAL) is not compared",
        "a hang is observed by the supervisor's 45 s per-case time-out (retried once); stack overflow and other process deaths as `abort`",
        "pool model: jobs are opaque (ok / err / panic); shutdown of the pool is not modelled",
    ],
    "partial": "The pool theorems are complete for the model. For the statement pipeline nothing is proved about parser, binder, planner "
               "or evaluator of the real code: totality is established only for the Lean model (total by construction) and tied to the code "
               "by the fuzz correspondence; `error_leaves_state` and `eval_total_classes` of DESIGN §5 are not stated as theorems (they "
               "belong to the shared Db model of C03/C05, which this property does not build).",
    "trusted": ["fuzz: the harness' panic hook (records file:line of a panic in any thread), its liveness probe and its table dump"],
}

TEXT = {
    "text": "Partial: Lean theorems for the worker pool every statement runs on — for every pool size, job sequence and schedule: every "
            "job is answered exactly once with its own answer (a panicking job with an error), workers are never lost, a non-empty queue "
            "with an idle worker always has an enabled step, and any schedule terminates within 2·|queue|+|running| steps with all "
            "jobs answered; the shipped worker loop (no catch_unwind) is characterised exactly for every schedule (job i is answered iff "
            "fewer than pool-size panicking jobs precede it — every later caller blocks forever), and was fixed. The pool model is tied to the real task runner of a Database by ~370 job sequences per run. The statement "
            "pipeline is covered by correspondence only: ~9 000 hostile strings and grammar statements per run through "
            "Database::execute / Session::execute with panic capture in every thread, liveness probe and state comparison, against a "
            "total Lean model that predicts the outcome class where the schema decides it.",
    "design_ref": "DESIGN.md §5 C16",
    "note": "Trusted: Lean kernel; the hand-written pool model (validated differentially); the harness' panic hook, probe and dump. "
            "Found and fixed: worker death on panic, 256th version of a row (= 256th INSERT into any table), DROP TABLE IF EXISTS dropping "
            "table 0, stack overflow on deep nesting. INSERT … SELECT from the same table. Listed findings (todo!/unreachable! arms of the evaluator, ALTER/INDEX on "
            "populated tables, UNIQUE-index debris, failed multi-row UPDATE keeping its first rows, no statement atomicity in sessions) are regions in which the verdict is weaker: a failure there is "
            "attributed by theme tag and panic location only.",
    "technique": "Lean 4 invariant/termination proofs over a worker-pool state machine + differential correspondence; generative fuzzing "
                 "of the public SQL API with a total Lean oracle",
}
