"""C18 — row versions decode to the right values for every snapshot (tuple codec + Snapshot)."""

ENGINES = {
    "tuple": {
        "jobs": 8,
        "op_sep": " ; ",
        # The Lean model with no defect flag IS the property: it is proved (Thm/C18.lean) to decode, for every
        # snapshot, exactly `specVisible` of the logical row the operation sequence denotes.  Any gating difference
        # between the implementation and that model is therefore a failure of C18.
        "spec_is_oracle": True,
    },
}

PROP = {
    "engines": ["tuple"],
    "lean_modules": ["AxVerif.Model.Tuple", "AxVerif.Model.Snapshot", "AxVerif.Model.Bytes", "AxVerif.Lemmas.Tuple",
                     "AxVerif.Lemmas.TupleBase", "AxVerif.Lemmas.TupleMain", "AxVerif.Lemmas.TupleDelta",
                     "AxVerif.Lemmas.TupleChain", "AxVerif.Lemmas.TupleOps", "AxVerif.Lemmas.Bytes"],
    "rule": "case = one operation sequence on one row: build (1-3 key columns, 0-12 value columns over "
            "{Bool,Int,BigInt,UInt,BigUInt,Float,Double,Blob}, NULLs), up to 8 updates touching any column subset "
            "(value<->NULL, texts of length 0/1/9/63/64/200-500/8191-8193), optional delete, optional vacuum at every "
            "horizon (each writer id, id+1, 0, 1000), then a decode for every assignment of "
            "{committed-before, future, active, aborted, own} to the writers (all 5^w up to 125, sampled beyond). "
            "Gating: header fields, lengths, bytes freed, the decoded row or `none` per snapshot; byte dumps are "
            "diagnostics. Non-trivial = a case with at least one update; distinct = distinct case line.",
    "assumptions": [
        "padding bytes of TupleHeader/DeltaHeader are uninitialised memory in the implementation and zero in the model; byte dumps are therefore non-gating",
        "`U` (update stamped with its creator) is scaffolding: add_version_with followed by overwriting the header xmin, standing in for the writer the pinned suite forbids (KF-C18-update-keeps-inserter-xmin); the plain `u` op is the shipped code",
        "vacuum_preserves assumes every writer of the row below the horizon committed before the reading snapshot (vaccum_with knows nothing about aborted transactions; the catalog removes rows whose inserter aborted)",
        "transaction ids and xmax are below 2^63 (the header stores xmax as i64)",
    ],
    "partial": "",
    "trusted": [],
}

TEXT = {
    "text": "Lean theorems for every schema, row, update chain, delete, snapshot and horizon (no bounds): parse∘build = id; "
            "the encoded chain decodes for any snapshot to specVisible (newest version whose creator is the reader or "
            "committed before it, nothing if the deleter is); add_version/delete/vacuum on bytes refine the logical "
            "operations; vacuum at horizon h changes nothing for snapshots at or above h; calculate_new_tuple_size = "
            "bytes written. Tied to storage/tuple.rs and Snapshot by ~13 000 generated operation sequences (~0.7 M snapshot decodes) per run.",
    "design_ref": "DESIGN.md §5 C18",
    "note": "Trusted: Lean kernel + propext/Quot.sound/Classical.choice; hand-written byte-level model of storage/tuple.rs "
            "(validated differentially, byte-exact up to uninitialised header padding); sizes/alignments extracted "
            "from the code on every run.",
    "technique": "Lean 4 round-trip / refinement theorems over a byte-level layout model + differential correspondence "
                 "with the real tuple codec through the verif facade",
}
