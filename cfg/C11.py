"""C11 — every page has exactly one owner; freed pages are reused, never lost."""

ENGINES = {
    "pager": {
        "jobs": 8,
        # judge mode: exec() returns an *observation* of the real code.
        #  seq cases: result of every allocate_page / dealloc_page call on a raw pager, the free-list header and the free-list
        #             walk after it; the Lean driver recomputes every entry with the allocator model (Pages.step).
        #  sql cases: after every statement of a history on a real Database the whole file is dumped (every page: kind, links,
        #             children, overflow chains; header; roots of all trees of the catalog), as a delta; the Lean driver answers
        #             `ok` iff checkOwnership (proved sound) accepts every dump, C10's checkTree (proved sound) accepts every tree
        #             with numeric keys, and the file never grew while the earlier free list was still in place.
        "mode": "judge",
        "op_sep": " ; ",
    },
}

PROP = {
    "engines": ["pager"],
    "lean_modules": ["AxVerif.Model.Pages", "AxVerif.Lemmas.Pages", "AxVerif.Model.BTree", "AxVerif.Lemmas.BTree"],
    "rule": "cases = (1) `seq`: sequences of 3..300 allocate_page::<BtreePage|OverflowPage> / dealloc_page / link (what build_cell does to a "
            "chain page) / flush / reopen on a raw Pager, page size {4096, 8192} x cache {64, 10000}: plain (60 %), with links (20 %), with "
            "contract violations — dealloc of page 0, double free (20 %); (2) `sql`: histories of 40..700 statements (x2 in the thorough "
            "tier) on a real Database through the public API: CREATE TABLE, CREATE UNIQUE INDEX, DROP TABLE [CASCADE], INSERT (single and "
            "bursts), UPDATE growing/shrinking rows, DELETE of single rows and ranges (churn families delete 20-60 rows at a time so that "
            "leaves are merged and freed), sessions with COMMIT / ROLLBACK, VACUUM, flush, close+reopen; page size {4096, 8192} x cache "
            "{64, 10000}; every history ends with VACUUM and a reopen; the whole file is dumped and judged after every statement. "
            "All derived from VERIF_SEED. Non-trivial = a case of >= 10 operations; distinct = distinct case line. "
            "Region split of the sql histories (tags): `clean` 9 of 11 (rows <= 64 bytes, <= 2 tables and 1 index alive, VACUUM at least "
            "every ~14 row operations, a row updated at most twice between two VACUUMs; family `ovf`: rows up to 6 pages in tables that never hold "
            "more than 2 cells, so overflow chains are built, grown, shrunk, freed and reused but no divider ever exists; family `ddlrb`, 1 of "
            "11: CREATE / DROP inside rolled-back sessions; no known finding applies, any failure is a violation); `bigcell` 1 of 11 (rows "
            "from 10 bytes to 6 pages in tables that split); `bigcat` 1 of 11 (small rows, up to 5 tables + 4 indexes, no periodic VACUUM: "
            "the catalog's own rows grow overflow chains). All seq cases and the two `iter` probes are clean.",
    "assumptions": [
        "a `seq` case in which dealloc / link names a page id >= total_pages (at that moment) is malformed by definition (dealloc_page of a "
        "page outside the file modifies the header before it fails to read the page; no caller does that)",
        "allocator model: the cache is large enough, or the page sequence short enough, that the *kind* of a cached frame is what the last "
        "operation left (tracked as `ovf`); after flush/reopen no frame is cached and a reader decides how the bytes are interpreted",
        "every physical row of the meta table owns the tree it names, whatever its visibility (since fix 190eaa6 DROP only marks the row "
        "deleted; VACUUM releases the tree when it removes the row); the rows are read through an ordinary read-only tree iterator",
        "the dump is taken by the C10 facade (verif::btree::dump_file): page bytes come from the cached frame if there is one, else from disk; "
        "a page that is not cached is read as a B-tree page iff a walk from the roots reaches it as a node",
        "reuse before growth is judged between consecutive statements: the file must not grow while the whole free list of the earlier step is "
        "still there, untouched, as a prefix of the later one (the allocator pops at the head and appends at the tail, so a statement that "
        "extends the file legitimately has emptied the list first; the old list can only reappear as a prefix if the same statement freed "
        "exactly those pages again, first and in the same order)",
        "C10's checkTree is applied to the trees with numeric keys (tables and the meta table: BigUInt row id; indexes on a BIGINT column: "
        "key + 2^63), with the keys read by the C10 facade at the offset the code's comparator reads them; the meta index and indexes on TEXT "
        "columns are judged for shape and ownership only (the page graph below the root is a tree without shared pages)",
    ],
    "partial": "All theorems of the design are proved in full for the allocator model and for the checker (27 theorems, no partial statement). "
               "Not proved, by design: that the B+tree code produces the page graphs it produces (validated by judging the dump after every "
               "statement), and that `dump_file` reads the file faithfully (trusted facade). `dealloc_page` of a page id outside the file is "
               "outside the model (malformed case). On this tree the property fails in one region (findings KF-C11-fixup-drains-page-panic / "
               "-empty-leaf, DESIGN §0): the underflow fix-up of compute_best_cell_distribution can drain a page when overflow rows and small "
               "rows meet on 8 KiB pages (worker panic that empties the table, or an empty leaf behind a separator); reached by the thorough "
               "tier's SQL histories and by two corpus witnesses that run first in every tier.",
    "trusted": [
        "facade crates/axmos-db/src/verif/pager.rs (raw pager driver, catalog roots) and verif/btree.rs (page parser, chain walk)",
        "Lean driver AxVerif/Driver/Pager.lean: parsing of observations and the page table kept across the deltas of one history",
        "the facade's reading of the meta table (which roots exist)",
    ],
}

TEXT = {
    "text": "Verified checker + allocator refinement. Lean theorem checkOwnership_sound: any whole-file dump accepted by checkOwnership has below "
            "every catalog root a tree of B-tree pages, and every page id in 1..total-1 is exactly one of: a node of exactly one tree (reached "
            "once), a link of the properly terminated overflow chain of exactly one stored cell (once), a member of the free list; the free "
            "list starts at first_free, is acyclic, ends at last_free whose next is none; nothing is both free and used; nothing is lost. "
            "Allocator (pointer-level model of allocate_page / dealloc_page refining a FIFO queue, for every contract-respecting sequence): "
            "used and free pages partition the file, an allocation never extends the file while a free page exists and returns the head, "
            "pages are reused in the order in which they were freed, page 0 is rejected, and what a double free does is stated (tail: nothing; "
            "elsewhere: the rest of the list is lost). Tie: exact page ids / errors / headers / free-list walks of ~100 allocator sequences "
            "(1000 thorough) against the model, and checkOwnership + C10's checkTree per numeric-key tree + reuse-before-growth on the dump taken "
            "after every statement of 77 SQL histories (~22 000 dumps quick, ~450 000 thorough).",
    "design_ref": "DESIGN.md §5 C11",
    "note": "Trusted: Lean kernel + propext/Quot.sound/Classical.choice; dump facade (page parser, chain walk, reading of the meta table) and "
            "harness canonicalisation. Five defects were fixed in /repo: a freed overflow page kept its next link; VACUUM leaked the tree of a "
            "rolled-back CREATE; DROP TABLE freed the tree before commit, so a rolled-back DROP left a visible table on freed pages; releasing a "
            "tree freed the chains of dangling dividers a second time and looped; the B-tree iterator repeated an error for ever. Remaining "
            "finding: dividers share / dangle overflow chains (exact tolerance flag, plus region `bigcell`/`bigcat` for the damage that follows "
            "— the catalog's own rows trigger it in ordinary workloads after ~30 inserts without VACUUM). Inside the region the verdict is weak "
            "(any failure of a history in which a divider with an overflow pointer was seen, a hang or a crash is attributed): a new defect "
            "could hide there.",
    "technique": "Lean 4 verified checker (decision procedure + soundness theorem) applied to whole-file dumps of the real database after every "
                 "statement; refinement proof of the pointer-level allocator to a FIFO queue, tied by exact differential comparison",
}
