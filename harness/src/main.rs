//! axh — harness that drives the real AxmosDB code for the Lean correspondence checks.
//!
//!   axh gen <engine> --seed S --tier quick|thorough --out CASES --tags TAGS
//!   axh exec <engine>                      (stdin: case lines, stdout: one output line per case)
//!   axh run <engine> --cases F --out O     (supervises `exec` children: hang / abort detection)
//!   axh extract --dir lean/AxVerif/Generated
mod engines;
mod rng;
mod supervise;
mod util;

use engines::Tier;
use std::io::{BufRead, Write};

fn arg(args: &[String], name: &str) -> Option<String> {
    args.iter().position(|a| a == name).and_then(|i| args.get(i + 1).cloned())
}

thread_local! {
    static LAST_PANIC: std::cell::RefCell<Option<String>> = const { std::cell::RefCell::new(None) };
}

fn install_panic_hook() {
    std::panic::set_hook(Box::new(|info| {
        let loc = info
            .location()
            .map(|l| {
                let f = l.file();
                let f = f.rsplit_once("/src/").map(|x| x.1).unwrap_or(f);
                format!("{}:{}", f, l.line())
            })
            .unwrap_or_else(|| "?".into());
        if std::env::var("AXH_DEBUG").is_ok() {
            eprintln!("panic: {}", info);
        }
        LAST_PANIC.with(|p| *p.borrow_mut() = Some(loc));
    }));
}

fn main() {
    let args: Vec<String> = std::env::args().collect();
    if args.len() < 2 {
        eprintln!("usage: axh gen|exec|run|extract …");
        std::process::exit(2);
    }
    match args[1].as_str() {
        "gen" => {
            let name = &args[2];
            let eng = engines::get(name).expect("unknown engine");
            let seed: u64 = arg(&args, "--seed").and_then(|s| s.parse().ok()).unwrap_or(1);
            let tier = match arg(&args, "--tier").as_deref() {
                Some("thorough") => Tier::Thorough,
                _ => Tier::Quick,
            };
            let out = arg(&args, "--out").expect("--out");
            let tags = arg(&args, "--tags").expect("--tags");
            let mut rng = rng::Rng::new(seed).fork(name);
            let cases = eng.gen_cases(&mut rng, tier);
            let mut fo = std::io::BufWriter::new(std::fs::File::create(out).unwrap());
            let mut ft = std::io::BufWriter::new(std::fs::File::create(tags).unwrap());
            for c in &cases {
                assert!(!c.line.contains('\n'));
                writeln!(fo, "{}", c.line).unwrap();
                writeln!(ft, "{}", c.tags.join(" ")).unwrap();
            }
        }
        "exec" => {
            let name = &args[2];
            if let Ok(mb) = std::env::var("AXH_RLIMIT_AS_MB") {
                let mb: u64 = mb.parse().unwrap();
                let lim = libc::rlimit { rlim_cur: mb << 20, rlim_max: mb << 20 };
                unsafe { libc::setrlimit(libc::RLIMIT_AS, &lim) };
            }
            install_panic_hook();
            let mut eng = engines::get(name).expect("unknown engine");
            let stdin = std::io::stdin();
            let stdout = std::io::stdout();
            for line in stdin.lock().lines() {
                let line = line.unwrap();
                let r = std::panic::catch_unwind(std::panic::AssertUnwindSafe(|| eng.exec(&line)));
                let out = match r {
                    Ok(s) => s,
                    Err(_) => {
                        let loc = LAST_PANIC.with(|p| p.borrow_mut().take()).unwrap_or_else(|| "?".into());
                        format!("panic@{}", loc)
                    }
                };
                let mut so = stdout.lock();
                writeln!(so, "{}", out.replace('\n', "\\n")).unwrap();
                so.flush().unwrap();
            }
        }
        "run" => {
            let name = &args[2];
            let eng = engines::get(name).expect("unknown engine");
            let cases = arg(&args, "--cases").expect("--cases");
            let out = arg(&args, "--out").expect("--out");
            let jobs: usize = arg(&args, "--jobs").and_then(|s| s.parse().ok()).unwrap_or(1);
            // AXH_TIMEOUT_SCALE: the re-run of a timed-out case, alone, gets a multiple of the engine's time limit (a loaded
            // machine slows a case down by a factor; a hang of the code stays a hang under any factor)
            let scale: u64 = std::env::var("AXH_TIMEOUT_SCALE").ok().and_then(|s| s.parse().ok()).unwrap_or(1).clamp(1, 16);
            supervise::run(name, eng.rlimit_as_mb(), eng.timeout_ms() * scale, &cases, &out, jobs);
        }
        "extract" => {
            // writes one file per engine into the given directory, touching only files whose content changed
            let dir = arg(&args, "--dir").expect("--dir");
            for (name, content) in engines::all_generated() {
                let p = std::path::Path::new(&dir).join(name);
                let old = std::fs::read_to_string(&p).unwrap_or_default();
                if old != content {
                    std::fs::write(&p, content).unwrap();
                    println!("updated {}", name);
                }
            }
        }
        other => {
            eprintln!("unknown sub-command {other}");
            std::process::exit(2);
        }
    }
}
