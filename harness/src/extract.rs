//! Writes `Generated.lean`: constants and tables obtained by *evaluating* the code's own items.
use axmosdb::verif;

pub fn generated_lean() -> String {
    let mut s = String::new();
    s.push_str("/- REGENERATED on every run by `axh extract` from values evaluated out of /repo. Do not edit. -/\n");
    s.push_str("import AxVerif.Model.Wire\n");
    s.push_str("namespace AxVerif.Generated\n\n");
    let (ver, max) = verif::wire_constants();
    s.push_str(&format!(
        "def wireParams : AxVerif.Wire.Params := {{ protocolVersion := {}, maxMessageSize := {} }}\n",
        ver, max
    ));
    s.push_str("\nend AxVerif.Generated\n");
    s
}
