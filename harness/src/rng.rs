//! Deterministic PRNG (splitmix64 seeding + xoshiro256**); every random choice of the harness derives from one seed.
#[derive(Clone)]
pub struct Rng {
    s: [u64; 4],
}

fn splitmix(x: &mut u64) -> u64 {
    *x = x.wrapping_add(0x9E3779B97F4A7C15);
    let mut z = *x;
    z = (z ^ (z >> 30)).wrapping_mul(0xBF58476D1CE4E5B9);
    z = (z ^ (z >> 27)).wrapping_mul(0x94D049BB133111EB);
    z ^ (z >> 31)
}

impl Rng {
    pub fn new(seed: u64) -> Self {
        let mut x = seed;
        let s = [splitmix(&mut x), splitmix(&mut x), splitmix(&mut x), splitmix(&mut x)];
        Rng { s }
    }
    /// Independent sub-stream, so that adding a generator does not shift the others.
    pub fn fork(&self, label: &str) -> Rng {
        let mut h: u64 = 0xcbf29ce484222325;
        for b in label.bytes() {
            h ^= b as u64;
            h = h.wrapping_mul(0x100000001b3);
        }
        Rng::new(self.s[0] ^ h)
    }
    pub fn next_u64(&mut self) -> u64 {
        let r = self.s[1].wrapping_mul(5).rotate_left(7).wrapping_mul(9);
        let t = self.s[1] << 17;
        self.s[2] ^= self.s[0];
        self.s[3] ^= self.s[1];
        self.s[1] ^= self.s[2];
        self.s[0] ^= self.s[3];
        self.s[2] ^= t;
        self.s[3] = self.s[3].rotate_left(45);
        r
    }
    /// uniform in 0..n (n > 0)
    pub fn below(&mut self, n: u64) -> u64 {
        self.next_u64() % n
    }
    pub fn range(&mut self, lo: i64, hi_incl: i64) -> i64 {
        lo + self.below((hi_incl - lo + 1) as u64) as i64
    }
    pub fn chance(&mut self, num: u64, den: u64) -> bool {
        self.below(den) < num
    }
    pub fn pick<'a, T>(&mut self, xs: &'a [T]) -> &'a T {
        &xs[self.below(xs.len() as u64) as usize]
    }
    pub fn bytes(&mut self, n: usize) -> Vec<u8> {
        (0..n).map(|_| self.next_u64() as u8).collect()
    }
    /// random bytes of random length in lo..lo+span
    pub fn rbytes(&mut self, lo: usize, span: u64) -> Vec<u8> {
        let n = lo + self.below(span) as usize;
        self.bytes(n)
    }
    pub fn shuffle<T>(&mut self, xs: &mut [T]) {
        for i in (1..xs.len()).rev() {
            let j = self.below(i as u64 + 1) as usize;
            xs.swap(i, j);
        }
    }
}
