//! Runs the case lines through `axh exec <engine>` children so that an abort, an allocation failure or a
//! hang of the real code ends one child, not the run. Each line gets exactly one output line:
//! the child's answer, `abort` (child died) or `hang` (no answer within the time-out).
use std::io::{BufRead, BufReader, Write};
use std::process::{Child, ChildStdin, Command, Stdio};
use std::sync::atomic::{AtomicUsize, Ordering};
use std::sync::mpsc::{Receiver, RecvTimeoutError, channel};

/// Number of cases of this run that ended as `hang`.  Once `HANG_BUDGET` cases have hung, the remaining cases are not
/// executed (`skipped-after-hangs`): the property has failed anyway, and every further hang costs two time-outs.
static HANGS: AtomicUsize = AtomicUsize::new(0);
const HANG_BUDGET: usize = 8;
use std::time::Duration;

struct Worker {
    child: Child,
    stdin: ChildStdin,
    rx: Receiver<String>,
}

fn spawn(engine: &str, rlimit: Option<u64>) -> Worker {
    let exe = std::env::current_exe().unwrap();
    let mut cmd = Command::new(exe);
    cmd.arg("exec").arg(engine).stdin(Stdio::piped()).stdout(Stdio::piped()).stderr(Stdio::null());
    if let Some(mb) = rlimit {
        cmd.env("AXH_RLIMIT_AS_MB", mb.to_string());
    }
    let mut child = cmd.spawn().expect("spawn exec child");
    let stdin = child.stdin.take().unwrap();
    let stdout = child.stdout.take().unwrap();
    let (tx, rx) = channel();
    std::thread::spawn(move || {
        let r = BufReader::new(stdout);
        for l in r.lines() {
            match l {
                Ok(l) => {
                    if tx.send(l).is_err() {
                        break;
                    }
                }
                Err(_) => break,
            }
        }
    });
    Worker { child, stdin, rx }
}

fn run_slice(engine: &str, rlimit: Option<u64>, timeout_ms: u64, lines: &[String]) -> Vec<String> {
    let mut outs = Vec::with_capacity(lines.len());
    let mut w = spawn(engine, rlimit);
    for line in lines {
        if HANGS.load(Ordering::Relaxed) >= HANG_BUDGET {
            outs.push("skipped-after-hangs".to_string());
            continue;
        }
        // A time-out is retried once in a fresh child: a stall of the whole machine (all workers timing out at the
        // same instant) must not be reported as a hang of the code under test. A real hang times out twice.
        // (a run with AXH_TIMEOUT_SCALE set is itself the patient re-run of a timed-out case: no second attempt)
        let mut attempt = if std::env::var("AXH_TIMEOUT_SCALE").is_ok() { 1 } else { 0 };
        loop {
            let sent = writeln!(w.stdin, "{}", line).and_then(|_| w.stdin.flush());
            let res = if sent.is_err() {
                Err(RecvTimeoutError::Disconnected)
            } else {
                w.rx.recv_timeout(Duration::from_millis(timeout_ms))
            };
            match res {
                Ok(l) => {
                    outs.push(l);
                    break;
                }
                Err(e) => {
                    let _ = w.child.kill();
                    let _ = w.child.wait();
                    w = spawn(engine, rlimit);
                    if matches!(e, RecvTimeoutError::Timeout) && attempt == 0 {
                        attempt += 1;
                        continue;
                    }
                    if matches!(e, RecvTimeoutError::Timeout) {
                        HANGS.fetch_add(1, Ordering::Relaxed);
                    }
                    outs.push(match e {
                        RecvTimeoutError::Timeout => "hang".to_string(),
                        RecvTimeoutError::Disconnected => "abort".to_string(),
                    });
                    break;
                }
            }
        }
    }
    drop(w.stdin);
    let _ = w.child.wait();
    outs
}

pub fn run(engine: &str, rlimit: Option<u64>, timeout_ms: u64, cases: &str, out: &str, jobs: usize) {
    let lines: Vec<String> =
        BufReader::new(std::fs::File::open(cases).unwrap()).lines().map(|l| l.unwrap()).collect();
    let jobs = jobs.max(1).min(lines.len().max(1));
    let chunk = lines.len().div_ceil(jobs).max(1);
    let mut results: Vec<Vec<String>> = Vec::new();
    std::thread::scope(|s| {
        let handles: Vec<_> = lines
            .chunks(chunk)
            .map(|sl| {
                let engine = engine.to_string();
                s.spawn(move || run_slice(&engine, rlimit, timeout_ms, sl))
            })
            .collect();
        for h in handles {
            results.push(h.join().unwrap());
        }
    });
    let mut fo = std::io::BufWriter::new(std::fs::File::create(out).unwrap());
    for r in results {
        for l in r {
            writeln!(fo, "{}", l).unwrap();
        }
    }
}
