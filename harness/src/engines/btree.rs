//! Engine `btree` (C10): operation sequences on a real `Btree` over a raw pager. After every operation the engine
//! records the operation's result, probes (both search entry points), forward and backward scans (as hashes) and the
//! **page-graph dump** (as a delta against the previous dump). The line is an *observation*; the Lean driver judges it:
//! `checkTree` (proved sound) must accept every dump, `toList dump` must equal the spec map folded over the ops, and all
//! results must be the spec's. A second, independent structural checker runs here (`c=` field); the driver also reports
//! when the two checkers disagree.
//!
//! Case grammar (the first word carries the parameters so that op-wise shrinking keeps them):
//!   seq:<pagesize>:<minkeys>:<siblings>:<keytype> op ; op ; …
//!     op ::= ins k len seed | upd k len seed | ups k len seed | rm k | rmt k | get k | gett k | scan
//!     k = key *index* (Nat); the key type says how an index becomes a real key, monotonically:
//!         u64  BigUInt k            i64  BigInt k-500         text  Blob bits(k)   (24-bit binary, trailing '0's cut)
//!         ltext Blob 'x'*(pagesize/2) ++ bits(k)               comp  (BigInt k/7-30, Blob bits(k%7))
//!         btext Blob of 16 bytes: base-4 digits of k drawn from 05 85 90 F3 (both sides of 0x80), see `bkey`
//!     payload(len, seed) = seed (2 bytes LE, as far as they fit) then a pattern depending on seed and position
//!   cmp:<keytype> a b            the code's comparator on two realised keys
//!   split n1,n2,…                Btree::split_cells on cells with these payload sizes
//!   dist <pagesize> n1,n2,…      Btree::compute_best_cell_distribution
use super::{Case, Engine, Tier};
use crate::rng::Rng;
use axmosdb::verif::btree::{
    FileDump, KeyKind, PageBody, VErr, VKey, VTree, best_distribution_sizes, cell_sizes, geometry, split_cells_sizes,
};
use std::collections::{BTreeMap, BTreeSet};
use std::sync::atomic::{AtomicU64, Ordering as AtomicOrdering};

pub struct BtreeEngine;

// ------------------------------------------------------------------------------------------------ keys, payloads

#[derive(Clone, Copy, PartialEq, Eq, Debug)]
enum Kt {
    U64,
    I64,
    Text,
    LText,
    /// text keys of very different lengths (every fifth key carries 350 trailing blanks): dividers of mixed sizes
    MText,
    /// 16-byte binary keys whose bytes take values on both sides of 0x80, varying inside the second aligned 8-byte group
    BText,
    Comp,
}

fn parse_kt(s: &str) -> Option<Kt> {
    Some(match s {
        "u64" => Kt::U64,
        "i64" => Kt::I64,
        "text" => Kt::Text,
        "ltext" => Kt::LText,
        "mtext" => Kt::MText,
        "btext" => Kt::BText,
        "comp" => Kt::Comp,
        _ => return None,
    })
}

fn kind_of(kt: Kt) -> KeyKind {
    match kt {
        Kt::U64 => KeyKind::U64,
        Kt::I64 => KeyKind::I64,
        Kt::Text | Kt::LText | Kt::MText | Kt::BText => KeyKind::Text,
        Kt::Comp => KeyKind::Comp,
    }
}

const MAX_KEY_INDEX: u64 = 1 << 24;

fn bits(k: u64) -> Vec<u8> {
    let mut v: Vec<u8> = (0..24).rev().map(|i| if (k >> i) & 1 == 1 { b'1' } else { b'0' }).collect();
    while v.last() == Some(&b'0') {
        v.pop();
    }
    v
}

fn unbits(v: &[u8]) -> Option<u64> {
    if v.len() > 24 || v.last() == Some(&b'0') {
        return None;
    }
    let mut k = 0u64;
    for i in 0..24 {
        let b = match v.get(i) {
            None => 0,
            Some(b'0') => 0,
            Some(b'1') => 1,
            _ => return None,
        };
        k = (k << 1) | b;
    }
    Some(k)
}

/// byte values of a base-4 digit: increasing as unsigned bytes, on both sides of 0x80
const BSYM: [u8; 4] = [0x05, 0x85, 0x90, 0xF3];

/// k = hi·4096 + lo  ↦  8 digits of hi ++ 6 digits of lo ++ 80 80: fixed length, most significant digit first, so the
/// bytewise order of the keys is the order of the indices
fn bkey(k: u64) -> Vec<u8> {
    let (hi, lo) = (k >> 12, k & 0xFFF);
    let mut v: Vec<u8> = (0..8).rev().map(|i| BSYM[((hi >> (2 * i)) & 3) as usize]).collect();
    v.extend((0..6).rev().map(|i| BSYM[((lo >> (2 * i)) & 3) as usize]));
    v.extend([0x80, 0x80]);
    v
}

fn unbkey(v: &[u8]) -> Option<u64> {
    if v.len() != 16 || v[14..] != [0x80, 0x80] {
        return None;
    }
    let mut k = 0u64;
    for b in &v[..14] {
        k = (k << 2) | BSYM.iter().position(|s| s == b)? as u64;
    }
    Some(k)
}

fn realise(kt: Kt, page_size: usize, k: u64) -> VKey {
    match kt {
        Kt::U64 => VKey::U64(k),
        Kt::I64 => VKey::I64(k as i64 - 500),
        Kt::Text => VKey::Text(bits(k)),
        Kt::LText => {
            let mut v = vec![b'x'; page_size / 2];
            v.extend(bits(k));
            VKey::Text(v)
        }
        Kt::MText => {
            let mut v = bits(k);
            if k % 5 == 0 {
                v.extend(std::iter::repeat_n(b' ', 350));
            }
            VKey::Text(v)
        }
        Kt::BText => VKey::Text(bkey(k)),
        Kt::Comp => VKey::Comp((k / 7) as i64 - 30, bits(k % 7)),
    }
}

fn index_of(kt: Kt, page_size: usize, key: &VKey) -> Option<u64> {
    let k = match (kt, key) {
        (Kt::U64, VKey::U64(k)) => *k,
        (Kt::I64, VKey::I64(k)) => u64::try_from(*k + 500).ok()?,
        (Kt::Text, VKey::Text(v)) => unbits(v)?,
        (Kt::LText, VKey::Text(v)) => {
            let n = page_size / 2;
            if v.len() < n || v[..n].iter().any(|b| *b != b'x') {
                return None;
            }
            unbits(&v[n..])?
        }
        (Kt::MText, VKey::Text(v)) => {
            let n = v.iter().rev().take_while(|b| **b == b' ').count();
            unbits(&v[..v.len() - n])?
        }
        (Kt::BText, VKey::Text(v)) => unbkey(v)?,
        (Kt::Comp, VKey::Comp(a, v)) => {
            let r = unbits(v)?;
            if r >= 7 {
                return None;
            }
            u64::try_from(*a + 30).ok()?.checked_mul(7)? + r
        }
        _ => return None,
    };
    (k < MAX_KEY_INDEX && &realise(kt, page_size, k) == key).then_some(k)
}

fn pattern_byte(seed: u64, i: usize) -> u8 {
    ((seed ^ (i as u64).wrapping_mul(131)).wrapping_add((i >> 8) as u64)) as u8
}

fn payload(len: usize, seed: u64) -> Vec<u8> {
    (0..len)
        .map(|i| match i {
            0 => seed as u8,
            1 => (seed >> 8) as u8,
            _ => pattern_byte(seed, i),
        })
        .collect()
}

/// The seed a payload of this length can carry.
fn seed_mask(len: usize, seed: u64) -> u64 {
    match len {
        0 => 0,
        1 => seed & 0xff,
        _ => seed & 0xffff,
    }
}

const CORRUPT: u64 = 99999;

/// (len, seed) if the bytes are exactly `payload(len, seed)`, else (len, CORRUPT).
fn payload_id(bytes: &[u8]) -> (u64, u64) {
    let len = bytes.len();
    let seed = match len {
        0 => 0,
        1 => bytes[0] as u64,
        _ => bytes[0] as u64 | ((bytes[1] as u64) << 8),
    };
    if bytes.iter().enumerate().skip(2).all(|(i, b)| *b == pattern_byte(seed, i)) {
        (len as u64, seed)
    } else {
        (len as u64, CORRUPT)
    }
}

const FNV_INIT: u64 = 0xcbf29ce484222325;
fn mix(h: u64, x: u64) -> u64 {
    (h ^ x).wrapping_mul(0x100000001b3)
}

fn err_class(e: &VErr) -> String {
    match e {
        VErr::Duplicate => "dup".into(),
        VErr::NoKey => "nokey".into(),
        VErr::Empty => "empty".into(),
        VErr::Other(c, _) if c.starts_with("PANIC@") => c.clone(),
        VErr::Other(c, _) => format!("E{}", c),
    }
}

// ------------------------------------------------------------------------------------------------ ops

#[derive(Clone, Debug)]
enum Op {
    Ins(u64, usize, u64),
    Upd(u64, usize, u64),
    Ups(u64, usize, u64),
    Rm(u64),
    Rmt(u64),
    Get(u64),
    Gett(u64),
    Scan,
}

fn parse_op(s: &str) -> Option<Op> {
    let w: Vec<&str> = s.split(' ').collect();
    let key = |s: &str| s.parse::<u64>().ok().filter(|k| *k < MAX_KEY_INDEX);
    let len = |s: &str| s.parse::<usize>().ok().filter(|n| *n <= 1 << 20);
    let seed = |s: &str| s.parse::<u64>().ok().filter(|n| *n < 65536);
    Some(match w.as_slice() {
        ["ins", k, l, s] => Op::Ins(key(k)?, len(l)?, seed(s)?),
        ["upd", k, l, s] => Op::Upd(key(k)?, len(l)?, seed(s)?),
        ["ups", k, l, s] => Op::Ups(key(k)?, len(l)?, seed(s)?),
        ["rm", k] => Op::Rm(key(k)?),
        ["rmt", k] => Op::Rmt(key(k)?),
        ["get", k] => Op::Get(key(k)?),
        ["gett", k] => Op::Gett(key(k)?),
        ["scan"] => Op::Scan,
        _ => return None,
    })
}

struct SeqCase {
    page_size: usize,
    min_keys: usize,
    siblings: usize,
    kt: Kt,
    ops: Vec<Op>,
}

fn parse_seq(line: &str) -> Option<SeqCase> {
    let (head, body) = line.split_once(' ')?;
    let h: Vec<&str> = head.split(':').collect();
    let ["seq", ps, mk, sib, kt] = h.as_slice() else { return None };
    let page_size: usize = ps.parse().ok()?;
    let min_keys: usize = mk.parse().ok()?;
    let siblings: usize = sib.parse().ok()?;
    if !(page_size == 4096 || page_size == 8192 || page_size == 16384) || !(3..=16).contains(&min_keys) || !(1..=8).contains(&siblings) {
        return None;
    }
    let ops: Option<Vec<Op>> = body.split(" ; ").map(parse_op).collect();
    let ops = ops?;
    if ops.is_empty() || ops.len() > 5000 {
        return None;
    }
    Some(SeqCase { page_size, min_keys, siblings, kt: parse_kt(kt)?, ops })
}

// ------------------------------------------------------------------------------------------------ dump → tokens

fn id0(x: Option<u64>) -> u64 {
    x.unwrap_or(0)
}

/// One token per page (see the module doc of `AxVerif.Driver.BTree` for the grammar).
fn page_tokens(d: &FileDump, kt: Kt) -> BTreeMap<u64, String> {
    let mut out = BTreeMap::new();
    for p in &d.pages {
        let tok = match &p.body {
            PageBody::Unreadable(_) => format!("B{}", p.id),
            PageBody::Overflow(o) => format!("O{}:{}", p.id, id0(o.next)),
            PageBody::Btree(b) => {
                if !b.well_formed || b.self_id != p.id {
                    format!("B{}", p.id)
                } else {
                    let leaf = b.right_child.is_none();
                    let cells: Vec<String> = b
                        .cells
                        .iter()
                        .map(|c| {
                            let key = match c.key.as_ref().and_then(|k| index_of(kt, d.page_size, k)) {
                                Some(k) => k.to_string(),
                                None => "!".into(),
                            };
                            let chain = if c.is_overflow {
                                format!(
                                    "@{}{}",
                                    c.overflow_chain.iter().map(|x| x.to_string()).collect::<Vec<_>>().join("+"),
                                    if c.chain_ok { "" } else { "+!" }
                                )
                            } else {
                                String::new()
                            };
                            if leaf {
                                let (len, seed) = match c.payload_bytes_id() {
                                    Some(x) => x,
                                    None => (0, CORRUPT),
                                };
                                format!("{}.{}.{}{}", key, len, seed, chain)
                            } else {
                                format!("{}.{}{}", id0(c.left_child), key, chain)
                            }
                        })
                        .collect();
                    if leaf {
                        format!("L{}:{}:{}:{}", p.id, id0(b.prev), id0(b.next), cells.join(","))
                    } else {
                        format!("I{}:{}:{}:{}:{}", p.id, id0(b.prev), id0(b.next), id0(b.right_child), cells.join(","))
                    }
                }
            }
        };
        out.insert(p.id, tok);
    }
    out
}

/// `S<id>:<free_space>:<free_space_ptr>:<offset>+<total size>,…` (slot order) for every well-formed B-tree page
fn slotted_tokens(d: &FileDump) -> BTreeMap<u64, String> {
    let mut out = BTreeMap::new();
    for p in &d.pages {
        if let PageBody::Btree(b) = &p.body {
            if b.well_formed && b.self_id == p.id {
                let cells: Vec<String> = b.cells.iter().map(|c| format!("{}+{}", c.offset, c.storage_size - 2)).collect();
                out.insert(p.id, format!("S{}:{}:{}:{}", p.id, b.free_space, b.free_space_ptr, cells.join(",")));
            }
        }
    }
    out
}

// The facade reports payloads as (len, fnv digest); the engine needs (len, seed): re-derive the digest of the pattern.
trait PayloadId {
    fn payload_bytes_id(&self) -> Option<(u64, u64)>;
}
impl PayloadId for axmosdb::verif::btree::CellDump {
    fn payload_bytes_id(&self) -> Option<(u64, u64)> {
        let (len, digest) = self.payload?;
        let seed = self.payload_head?;
        let seed = seed_mask(len, seed as u64);
        if axmosdb::verif::btree::fnv64(&payload(len, seed)) == digest {
            Some((len as u64, seed))
        } else {
            Some((len as u64, CORRUPT))
        }
    }
}

// ------------------------------------------------------------------------------------------------ independent checker

struct Chk<'a> {
    pages: BTreeMap<u64, &'a axmosdb::verif::btree::BtPageDump>,
    kt: Kt,
    page_size: usize,
    visited: BTreeSet<u64>,
    leaves: Vec<u64>,
    /// pages of every level in key order (level 0 = root)
    levels: Vec<Vec<u64>>,
    depth: Option<usize>,
}

impl<'a> Chk<'a> {
    fn key(&self, c: &axmosdb::verif::btree::CellDump) -> Result<u64, &'static str> {
        c.key.as_ref().and_then(|k| index_of(self.kt, self.page_size, k)).ok_or("key")
    }

    fn walk(&mut self, id: u64, lo: Option<u64>, hi: Option<u64>, depth: usize) -> Result<(), &'static str> {
        if depth > self.pages.len() + 1 || !self.visited.insert(id) {
            return Err("cycle");
        }
        let p = *self.pages.get(&id).ok_or("page")?;
        while self.levels.len() <= depth {
            self.levels.push(Vec::new());
        }
        self.levels[depth].push(id);
        let mut prev: Option<u64> = None;
        let mut keys = Vec::with_capacity(p.cells.len());
        for c in &p.cells {
            let k = self.key(c)?;
            if prev.is_some_and(|q| q >= k) {
                return Err("order");
            }
            prev = Some(k);
            keys.push(k);
        }
        match p.right_child {
            None => {
                for k in &keys {
                    if lo.is_some_and(|l| *k < l) || hi.is_some_and(|h| *k >= h) {
                        if std::env::var("AXH_BTREE_WHY").is_ok() {
                            eprintln!("bound: leaf {} key {} not in [{:?},{:?})", id, k, lo, hi);
                        }
                        return Err("bound");
                    }
                }
                match self.depth {
                    None => self.depth = Some(depth),
                    Some(d) if d != depth => return Err("depth"),
                    _ => {}
                }
                self.leaves.push(id);
                Ok(())
            }
            Some(right) => {
                let mut lo_i = lo;
                for (c, k) in p.cells.iter().zip(&keys) {
                    if lo.is_some_and(|l| *k < l) || hi.is_some_and(|h| *k >= h) {
                        if std::env::var("AXH_BTREE_WHY").is_ok() {
                            eprintln!("bound: interior {} separator {} not in [{:?},{:?})", id, k, lo, hi);
                        }
                        return Err("bound");
                    }
                    let child = c.left_child.ok_or("child0")?;
                    self.walk(child, lo_i, Some(*k), depth + 1)?;
                    lo_i = Some(*k);
                }
                // the interval handed to a child must not be inverted by an out-of-range separator above it:
                // children check their own keys against [lo_i, k), so nothing else is needed here
                self.walk(right, lo_i, hi, depth + 1)
            }
        }
    }
}

/// `ok` or the first rule broken: page | cycle | key | order | bound | depth | child0 | chain | links | emptyleaf | ilinks
fn rust_check(d: &FileDump, root: u64, kt: Kt) -> &'static str {
    let mut pages = BTreeMap::new();
    for p in &d.pages {
        if let PageBody::Btree(b) = &p.body {
            if b.well_formed && b.self_id == p.id {
                pages.insert(p.id, b);
            }
        }
    }
    let mut c = Chk { pages, kt, page_size: d.page_size, visited: BTreeSet::new(), leaves: Vec::new(), levels: Vec::new(), depth: None };
    if let Err(e) = c.walk(root, None, None, 0) {
        return e;
    }
    // a reachable cell whose overflow chain cannot be followed (the code's Reassembler fails on it)
    for id in &c.visited {
        if c.pages.get(id).is_some_and(|p| p.cells.iter().any(|x| x.is_overflow && !x.chain_ok)) {
            return "chain";
        }
    }
    for (i, id) in c.leaves.iter().enumerate() {
        let p = c.pages[id];
        let want_prev = if i == 0 { 0 } else { c.leaves[i - 1] };
        let want_next = if i + 1 == c.leaves.len() { 0 } else { c.leaves[i + 1] };
        if id0(p.prev) != want_prev || id0(p.next) != want_next {
            return "links";
        }
    }
    // a leaf without cells, other than an empty root: `get_right_most` and the backward iterator compute `num_slots - 1`
    if c.pages[&root].right_child.is_some() && c.leaves.iter().any(|id| c.pages[id].cells.is_empty()) {
        return "emptyleaf";
    }
    // interior levels: the code keeps prev/next there too and uses them to find the frontier of a redistribution
    for level in &c.levels {
        for (i, id) in level.iter().enumerate() {
            let p = c.pages[id];
            let want_prev = if i == 0 { 0 } else { level[i - 1] };
            let want_next = if i + 1 == level.len() { 0 } else { level[i + 1] };
            if id0(p.prev) != want_prev || id0(p.next) != want_next {
                return "ilinks";
            }
        }
    }
    "ok"
}

// ------------------------------------------------------------------------------------------------ exec

static COUNTER: AtomicU64 = AtomicU64::new(0);

struct Scratch(std::path::PathBuf);
impl Scratch {
    fn new() -> Scratch {
        let n = COUNTER.fetch_add(1, AtomicOrdering::Relaxed);
        if n == 0 {
            // children that were killed (hang) or aborted could not remove their directory: sweep those of dead processes
            if let Ok(rd) = std::fs::read_dir(std::env::temp_dir()) {
                for e in rd.flatten() {
                    let name = e.file_name().to_string_lossy().to_string();
                    if let Some(rest) = name.strip_prefix("axh-btree-") {
                        let pid = rest.split('-').next().unwrap_or("");
                        if !pid.is_empty() && !std::path::Path::new("/proc").join(pid).exists() {
                            let _ = std::fs::remove_dir_all(e.path());
                        }
                    }
                }
            }
        }
        let d = std::env::temp_dir().join(format!("axh-btree-{}-{}", std::process::id(), n));
        let _ = std::fs::remove_dir_all(&d);
        std::fs::create_dir_all(&d).expect("scratch dir");
        Scratch(d)
    }
}
impl Drop for Scratch {
    fn drop(&mut self) {
        let _ = std::fs::remove_dir_all(&self.0);
    }
}

/// Runs one facade call; a panic of the real code becomes `Err(P<file:line>)` so that the remaining observations
/// (above all the dump of the state the panic left behind) are still taken.
fn guard<T>(f: impl FnOnce() -> Result<T, VErr>) -> Result<T, VErr> {
    match std::panic::catch_unwind(std::panic::AssertUnwindSafe(f)) {
        Ok(r) => r,
        Err(_) => {
            let loc = crate::LAST_PANIC.with(|p| p.borrow_mut().take()).unwrap_or_else(|| "?".into());
            Err(VErr::Other(format!("PANIC@{}", loc), String::new()))
        }
    }
}

fn probe_str(kt: Kt, ps: usize, k: u64, r: Result<Option<(VKey, Vec<u8>)>, VErr>) -> String {
    match r {
        Ok(None) => "none".into(),
        Ok(Some((key, bytes))) => {
            if index_of(kt, ps, &key) != Some(k) {
                "wrongkey".into()
            } else {
                let (l, s) = payload_id(&bytes);
                format!("{},{}", l, s)
            }
        }
        Err(e) => err_class(&e),
    }
}

fn scan_str(kt: Kt, ps: usize, r: Result<Vec<(VKey, Vec<u8>)>, VErr>) -> String {
    match r {
        Err(VErr::Empty) => format!("{}:0", FNV_INIT),
        Err(e) => err_class(&e),
        Ok(v) => {
            let mut h = FNV_INIT;
            for (key, bytes) in &v {
                let k = index_of(kt, ps, key).unwrap_or(u64::MAX);
                let (l, s) = payload_id(bytes);
                h = mix(mix(mix(h, k), l), s);
            }
            format!("{}:{}", h, v.len())
        }
    }
}

const PROBE_ALL_EVERY: usize = 16;

fn exec_seq(c: &SeqCase) -> String {
    let scratch = Scratch::new();
    let mut t = match VTree::create(&scratch.0, c.page_size, c.min_keys, c.siblings, 20_000, kind_of(c.kt)) {
        Ok(t) => t,
        Err(e) => return format!("create-failed ## {}", e),
    };
    let ps = c.page_size;
    let kt = c.kt;
    let rk = |k: u64| realise(kt, ps, k);
    // the tree cannot hold more entries than there were operations: a longer scan is a cyclic leaf chain
    #[allow(non_snake_case)]
    let SCAN_LIMIT: usize = c.ops.len() + 8;
    let mut mentioned: BTreeSet<u64> = BTreeSet::new();
    for op in &c.ops {
        match op {
            Op::Ins(k, ..) | Op::Upd(k, ..) | Op::Ups(k, ..) | Op::Rm(k) | Op::Rmt(k) | Op::Get(k) | Op::Gett(k) => {
                mentioned.insert(*k);
            }
            Op::Scan => {}
        }
    }
    let mut prev_tokens: BTreeMap<u64, String> = BTreeMap::new();
    let mut prev_slotted: BTreeMap<u64, String> = BTreeMap::new();
    let mut prev_free = String::new();
    let mut out: Vec<String> = Vec::with_capacity(c.ops.len() + 1);
    let mut diag_errs: Vec<String> = Vec::new();
    let mut max_pages = 0u64;
    let res = |r: Result<(), VErr>, diag: &mut Vec<String>| match r {
        Ok(()) => "ok".to_string(),
        Err(e) => {
            if let VErr::Other(_, m) = &e {
                if diag.len() < 3 {
                    diag.push(m.replace(" ## ", " # ").replace(" ; ", " , "));
                }
            }
            err_class(&e)
        }
    };
    // harness-side spec map: diagnostics only (`self=` after ##); the verdict is the Lean driver's
    let mut spec: BTreeMap<u64, (u64, u64)> = BTreeMap::new();
    let mut self_bad: Option<String> = None;
    let spec_scan = |m: &BTreeMap<u64, (u64, u64)>, rev: bool| {
        let mut h = FNV_INIT;
        let mut f = |(k, (l, s)): (&u64, &(u64, u64))| h = mix(mix(mix(h, *k), *l), *s);
        if rev { m.iter().rev().for_each(&mut f) } else { m.iter().for_each(&mut f) }
        format!("{}:{}", h, m.len())
    };
    let spec_probe = |m: &BTreeMap<u64, (u64, u64)>, k: u64| match m.get(&k) {
        Some((l, s)) => format!("{},{}", l, s),
        None => "none".to_string(),
    };
    for (i, op) in c.ops.iter().enumerate() {
        let want_r = match op {
            Op::Ins(k, l, s) => {
                if spec.contains_key(k) { "dup".to_string() } else { spec.insert(*k, (*l as u64, seed_mask(*l, *s))); "ok".into() }
            }
            Op::Upd(k, l, s) => {
                if spec.contains_key(k) { spec.insert(*k, (*l as u64, seed_mask(*l, *s))); "ok".to_string() } else { "nokey".into() }
            }
            Op::Ups(k, l, s) => { spec.insert(*k, (*l as u64, seed_mask(*l, *s))); "ok".to_string() }
            Op::Rm(k) | Op::Rmt(k) => if spec.remove(k).is_some() { "ok".to_string() } else { "nokey".into() },
            Op::Get(k) | Op::Gett(k) => spec_probe(&spec, *k),
            Op::Scan => spec_scan(&spec, false),
        };
        let (r, key) = match op {
            Op::Ins(k, l, s) => (res(guard(|| t.insert(&rk(*k), &payload(*l, seed_mask(*l, *s)))), &mut diag_errs), Some(*k)),
            Op::Upd(k, l, s) => (res(guard(|| t.update(&rk(*k), &payload(*l, seed_mask(*l, *s)))), &mut diag_errs), Some(*k)),
            Op::Ups(k, l, s) => (res(guard(|| t.upsert(&rk(*k), &payload(*l, seed_mask(*l, *s)))), &mut diag_errs), Some(*k)),
            Op::Rm(k) => (res(guard(|| t.remove(&rk(*k))), &mut diag_errs), Some(*k)),
            Op::Rmt(k) => (res(guard(|| t.remove_tuple(&rk(*k))), &mut diag_errs), Some(*k)),
            Op::Get(k) => (probe_str(kt, ps, *k, guard(|| t.search(&rk(*k)))), Some(*k)),
            Op::Gett(k) => (probe_str(kt, ps, *k, guard(|| t.search_tuple(&rk(*k)))), Some(*k)),
            Op::Scan => (scan_str(kt, ps, guard(|| t.scan(SCAN_LIMIT))), None),
        };
        let (g, tt) = match key {
            Some(k) => (probe_str(kt, ps, k, guard(|| t.search(&rk(k)))), probe_str(kt, ps, k, guard(|| t.search_tuple(&rk(k))))),
            None => ("-".into(), "-".into()),
        };
        let s = scan_str(kt, ps, guard(|| t.scan(SCAN_LIMIT)));
        let b = scan_str(kt, ps, guard(|| t.scan_back(SCAN_LIMIT)));
        if self_bad.is_none() {
            let want_g = key.map(|k| spec_probe(&spec, k)).unwrap_or_else(|| "-".into());
            for (f, want, got) in [("r", &want_r, &r), ("g", &want_g, &g), ("t", &want_g, &tt), ("s", &spec_scan(&spec, false), &s), ("b", &spec_scan(&spec, true), &b)] {
                if want != got {
                    self_bad = Some(format!("bad@{}:{}(want={},got={})", i, f, want, got));
                    break;
                }
            }
        }
        let mut fields = vec![format!("r={}", r), format!("g={}", g), format!("t={}", tt), format!("s={}", s), format!("b={}", b)];
        if (i + 1) % PROBE_ALL_EVERY == 0 || i + 1 == c.ops.len() {
            let mut h = FNV_INIT;
            for k in &mentioned {
                let p = probe_str(kt, ps, *k, guard(|| t.search(&rk(*k))));
                let (present, l, s) = match p.split_once(',') {
                    Some((l, s)) => (1, l.parse().unwrap_or(u64::MAX), s.parse().unwrap_or(u64::MAX)),
                    None if p == "none" => (0, 0, 0),
                    None => (2, 0, 0),
                };
                h = mix(mix(mix(mix(h, *k), present), l), s);
            }
            fields.push(format!("a={}", h));
        }
        let d = t.dump();
        max_pages = max_pages.max(d.total_pages);
        let root = t.root();
        let chk = rust_check(&d, root, kt);
        if chk != "ok" && self_bad.is_none() {
            self_bad = Some(format!("bad@{}:c={}", i, chk));
        }
        fields.push(format!("c={}", chk));
        fields.push(format!("R={}", root));
        let free = format!("F{}:{}", id0(d.first_free), id0(d.last_free));
        if free != prev_free {
            fields.push(free.clone());
            prev_free = free;
        }
        let toks = page_tokens(&d, kt);
        for (id, tok) in &toks {
            if prev_tokens.get(id) != Some(tok) {
                fields.push(tok.clone());
            }
        }
        prev_tokens = toks;
        let stoks = slotted_tokens(&d);
        for (id, tok) in &stoks {
            if prev_slotted.get(id) != Some(tok) {
                fields.push(tok.clone());
            }
        }
        prev_slotted = stoks;
        out.push(fields.join(" "));
        if self_bad.is_some() {
            // the judge stops at the first inadmissible observation; whatever the damaged tree does next is not evidence
            break;
        }
    }
    let height = t.height().map(|h| h.to_string()).unwrap_or_else(|_| "?".into());
    let mut line = format!("obs {}", out.join(" ; "));
    line.push_str(&format!(" ## pages={} height={} self={}", max_pages, height, self_bad.unwrap_or_else(|| "ok".into())));
    for m in diag_errs {
        line.push_str(&format!(" err[{}]", m));
    }
    line
}

fn parse_sizes(s: &str) -> Option<Vec<usize>> {
    if s == "-" {
        return Some(vec![]);
    }
    s.split(',').map(|x| x.parse::<usize>().ok().filter(|n| *n <= 70_000)).collect()
}

impl Engine for BtreeEngine {
    fn timeout_ms(&self) -> u64 {
        45_000
    }

    fn exec(&mut self, line: &str) -> String {
        let head = line.split(' ').next().unwrap_or("");
        if head.starts_with("seq:") {
            return match parse_seq(line) {
                Some(c) => exec_seq(&c),
                None => "bad-op".into(),
            };
        }
        let w: Vec<&str> = line.split(' ').collect();
        if let Some(kts) = head.strip_prefix("cmp:") {
            let (Some(kt), [_, a, b]) = (parse_kt(kts), w.as_slice()) else { return "bad-op".into() };
            let (Ok(a), Ok(b)) = (a.parse::<u64>(), b.parse::<u64>()) else { return "bad-op".into() };
            if a >= MAX_KEY_INDEX || b >= MAX_KEY_INDEX {
                return "bad-op".into();
            }
            let scratch = Scratch::new();
            let Ok(t) = VTree::create(&scratch.0, 4096, 3, 1, 16, kind_of(kt)) else { return "create-failed".into() };
            return match t.compare_keys(&realise(kt, 4096, a), &realise(kt, 4096, b)) {
                Some(std::cmp::Ordering::Less) => "lt".into(),
                Some(std::cmp::Ordering::Equal) => "eq".into(),
                Some(std::cmp::Ordering::Greater) => "gt".into(),
                None => "err".into(),
            };
        }
        match w.as_slice() {
            ["split", sizes] => match parse_sizes(sizes) {
                Some(v) => {
                    let storage: Vec<String> = v.iter().map(|n| cell_sizes(*n).0.to_string()).collect();
                    let (l, r) = split_cells_sizes(&v);
                    format!("split {} {} sizes={}", l, r, if storage.is_empty() { "-".into() } else { storage.join(",") })
                }
                None => "bad-op".into(),
            },
            ["dist", ps, sizes] => match (ps.parse::<usize>(), parse_sizes(sizes)) {
                (Ok(ps), Some(v)) if ps == 4096 || ps == 8192 || ps == 16384 => {
                    let g = geometry(ps, 3);
                    let storage: Vec<String> = v.iter().map(|n| cell_sizes(*n).1.to_string()).collect();
                    let (tot, cnt) = best_distribution_sizes(&v, ps);
                    let j = |xs: &[usize]| xs.iter().map(|x| x.to_string()).collect::<Vec<_>>().join(",");
                    format!(
                        "dist usable={} under={} sizes={} totals={} counts={}",
                        g.overflow_threshold,
                        g.underflow_threshold,
                        if storage.is_empty() { "-".into() } else { storage.join(",") },
                        j(&tot),
                        j(&cnt)
                    )
                }
                _ => "bad-op".into(),
            },
            _ => "bad-op".into(),
        }
    }

    fn gen_cases(&self, rng: &mut Rng, tier: Tier) -> Vec<Case> {
        generator::gen_cases(rng, tier)
    }
}

/// Content of `lean/AxVerif/Generated/BTree.lean`: the constants of the rebalancer, evaluated from the code.
pub fn generated() -> Option<(&'static str, String)> {
    let mut s = String::from(
        "/- GENERATED by `axh extract` from /repo (crates/axmos-db/src/storage) — do not edit; rewritten on every ./check run. -/\nnamespace AxVerif.Generated.BTree\n\n",
    );
    let g = geometry(4096, 3);
    s.push_str(&format!("def btreeHeaderSize : Nat := {}\n", g.btree_header));
    s.push_str(&format!("def overflowHeaderSize : Nat := {}\n", g.overflow_header));
    s.push_str(&format!("def cellHeaderSize : Nat := {}\n", g.cell_header));
    s.push_str(&format!("def slotSize : Nat := {}\n", g.slot));
    s.push_str("/-- (page size, usable space, overflow threshold, underflow threshold) for the page sizes the engine uses -/\n");
    s.push_str("def thresholds : List (Nat × Nat × Nat × Nat) := [");
    let rows: Vec<String> = [4096usize, 8192, 16384, 32768, 65536]
        .iter()
        .map(|ps| {
            let g = geometry(*ps, 3);
            format!("({}, {}, {}, {})", ps, g.usable, g.overflow_threshold, g.underflow_threshold)
        })
        .collect();
    s.push_str(&rows.join(", "));
    s.push_str("]\n\nend AxVerif.Generated.BTree\n");
    Some(("BTree.lean", s))
}

mod generator {
    use super::*;

    #[derive(Clone, Copy, PartialEq, Eq, Debug)]
    pub enum Profile {
        Tiny,
        Small,
        /// 150..200 bytes: about eleven cells per 4 KiB page, so that ~1500 keys give a tree of height 4
        SmallHi,
        Mid,
        Big,
        Huge,
        Mix,
    }

    impl Profile {
        fn name(self) -> &'static str {
            match self {
                Profile::Tiny => "tiny",
                Profile::Small => "small",
                Profile::SmallHi => "smallhi",
                Profile::Mid => "mid",
                Profile::Big => "big",
                Profile::Huge => "huge",
                Profile::Mix => "mix",
            }
        }
    }

    /// payload length for a profile; `ideal` = largest payload kept in the page for this geometry
    fn plen(rng: &mut Rng, p: Profile, ideal: usize, page: usize) -> usize {
        match p {
            Profile::Tiny => rng.below(41) as usize,
            Profile::Small => 8 + rng.below(190) as usize,
            Profile::SmallHi => 150 + rng.below(51) as usize,
            Profile::Mid => 200 + rng.below(500) as usize,
            // around the in-page / overflow boundary (tuple header + key take ~40 bytes of the cell payload)
            Profile::Big => (ideal as i64 - 96 + rng.range(0, 128)).max(1) as usize,
            Profile::Huge => page / 2 + rng.below(page as u64 * 4) as usize,
            Profile::Mix => {
                let q = *rng.pick(&[Profile::Tiny, Profile::Small, Profile::Small, Profile::Mid, Profile::Mid, Profile::Big, Profile::Huge]);
                plen(rng, q, ideal, page)
            }
        }
    }

    fn order(rng: &mut Rng, pattern: &str, n: usize) -> Vec<u64> {
        let keys: Vec<u64> = (0..n as u64).collect();
        match pattern {
            "asc" => keys,
            "desc" => keys.into_iter().rev().collect(),
            "zigzag" => {
                let mut v = Vec::with_capacity(n);
                let (mut lo, mut hi) = (0usize, n);
                while lo < hi {
                    v.push(keys[lo]);
                    lo += 1;
                    if lo < hi {
                        hi -= 1;
                        v.push(keys[hi]);
                    }
                }
                v
            }
            "interleave" => {
                let mut v: Vec<u64> = keys.iter().copied().filter(|k| k % 2 == 1).collect();
                v.extend(keys.iter().copied().filter(|k| k % 2 == 0));
                v
            }
            _ => {
                let mut v = keys;
                rng.shuffle(&mut v);
                v
            }
        }
    }

    pub struct Plan {
        pub ps: usize,
        pub mk: usize,
        pub sib: usize,
        pub kt: &'static str,
        pub profile: Profile,
        pub pattern: &'static str,
        pub nops: usize,
    }

    pub const PATTERNS: &[&str] =
        &["asc", "desc", "zigzag", "random", "interleave", "dups", "delall", "churn", "growshrink", "mixed"];

    pub fn build(rng: &mut Rng, pl: &Plan) -> Case {
        let g = geometry(pl.ps, pl.mk);
        let ideal = g.ideal_max_payload;
        let mut ops: Vec<String> = Vec::new();
        // key indices are spread (stride) so that later inserts can land between existing keys
        let stride = 1 + rng.below(3);
        let base = rng.below(50);
        let kx = |k: u64| base + k * stride;
        let seed = |rng: &mut Rng| rng.below(65536);
        let mut present: BTreeSet<u64> = BTreeSet::new();
        let n = pl.nops;
        let sprinkle = |rng: &mut Rng, ops: &mut Vec<String>, present: &BTreeSet<u64>, universe: u64| {
            if rng.chance(1, 12) {
                ops.push("scan".into());
            }
            if rng.chance(1, 6) {
                let k = if rng.chance(1, 2) && !present.is_empty() {
                    *present.iter().nth(rng.below(present.len() as u64) as usize).unwrap()
                } else {
                    base + rng.below(universe * stride + 2)
                };
                ops.push(format!("{} {}", if rng.chance(1, 2) { "get" } else { "gett" }, k));
            }
        };
        match pl.pattern {
            "asc" | "desc" | "zigzag" | "random" | "interleave" => {
                let count = n * 9 / 10;
                for k in order(rng, pl.pattern, count) {
                    let l = plen(rng, pl.profile, ideal, pl.ps);
                    ops.push(format!("ins {} {} {}", kx(k), l, seed(rng)));
                    present.insert(kx(k));
                    sprinkle(rng, &mut ops, &present, count as u64);
                    if ops.len() >= n {
                        break;
                    }
                }
            }
            "dups" => {
                let universe = (n as u64 / 6).max(4);
                while ops.len() < n {
                    let k = kx(rng.below(universe));
                    let l = plen(rng, pl.profile, ideal, pl.ps);
                    let o = match rng.below(10) {
                        0..=4 => format!("ins {} {} {}", k, l, seed(rng)),
                        5 => format!("upd {} {} {}", k, l, seed(rng)),
                        6 => format!("ups {} {} {}", k, l, seed(rng)),
                        7 => format!("rm {}", k),
                        8 => format!("rmt {}", k),
                        _ => format!("get {}", k),
                    };
                    ops.push(o);
                }
            }
            "delall" => {
                let count = (n * 3 / 10).max(2);
                let ins_pat = *rng.pick(&["asc", "desc", "random", "zigzag"]);
                let ins_order = order(rng, ins_pat, count);
                for k in &ins_order {
                    let l = plen(rng, pl.profile, ideal, pl.ps);
                    ops.push(format!("ins {} {} {}", kx(*k), l, seed(rng)));
                }
                ops.push("scan".into());
                let del_pat = *rng.pick(&["asc", "desc", "random", "zigzag"]);
                for k in order(rng, del_pat, count) {
                    ops.push(format!("{} {}", if rng.chance(1, 2) { "rm" } else { "rmt" }, kx(k)));
                }
                ops.push("scan".into());
                let re_pat = *rng.pick(&["asc", "desc", "random"]);
                for k in order(rng, re_pat, count) {
                    let l = plen(rng, pl.profile, ideal, pl.ps);
                    ops.push(format!("ins {} {} {}", kx(k), l, seed(rng)));
                    if ops.len() >= n {
                        break;
                    }
                }
            }
            "growshrink" => {
                let count = (n / 4).max(2);
                let small = if pl.profile == Profile::Huge { Profile::Small } else { Profile::Tiny };
                let pat = *rng.pick(&["asc", "random", "desc"]);
                for k in order(rng, pat, count) {
                    let l = plen(rng, small, ideal, pl.ps);
                    ops.push(format!("ins {} {} {}", kx(k), l, seed(rng)));
                }
                for round in 0..3 {
                    let pat = *rng.pick(&["asc", "random", "desc"]);
                    for k in order(rng, pat, count) {
                        let prof = if round % 2 == 0 { pl.profile } else { small };
                        let l = plen(rng, prof, ideal, pl.ps);
                        ops.push(format!("{} {} {} {}", if rng.chance(1, 2) { "upd" } else { "ups" }, kx(k), l, seed(rng)));
                        if ops.len() >= n {
                            break;
                        }
                    }
                }
            }
            _ => {
                // churn / mixed: random operations over a universe, biased to keep ~60 % of it present
                let universe = (n as u64 / 2).max(8);
                let warm = if pl.pattern == "churn" { n / 3 } else { 0 };
                while ops.len() < n {
                    let k = kx(rng.below(universe));
                    let l = plen(rng, pl.profile, ideal, pl.ps);
                    let want_more = ops.len() < warm || (present.len() as u64) < universe * 6 / 10;
                    let o = match rng.below(20) {
                        0..=7 if want_more => {
                            present.insert(k);
                            format!("{} {} {} {}", if rng.chance(3, 4) { "ins" } else { "ups" }, k, l, seed(rng))
                        }
                        0..=7 => {
                            present.remove(&k);
                            format!("{} {}", if rng.chance(1, 2) { "rm" } else { "rmt" }, k)
                        }
                        8..=10 => format!("upd {} {} {}", k, l, seed(rng)),
                        11..=12 => {
                            present.insert(k);
                            format!("ups {} {} {}", k, l, seed(rng))
                        }
                        13..=15 => {
                            present.remove(&k);
                            format!("{} {}", if rng.chance(1, 2) { "rm" } else { "rmt" }, k)
                        }
                        16..=17 => format!("get {}", k),
                        18 => format!("gett {}", k),
                        _ => "scan".into(),
                    };
                    ops.push(o);
                }
            }
        }
        ops.truncate(n.max(1));
        let line = format!("seq:{}:{}:{}:{} {}", pl.ps, pl.mk, pl.sib, pl.kt, ops.join(" ; "));
        let mut tags: Vec<String> = vec![
            "seq".into(),
            format!("ps{}", pl.ps),
            format!("mk{}", pl.mk),
            format!("sib{}", pl.sib),
            format!("kt-{}", pl.kt),
            format!("pay-{}", pl.profile.name()),
            format!("pat-{}", pl.pattern),
            format!("ops{}", match ops.len() { 0..=49 => "lt50", 50..=149 => "50-149", 150..=299 => "150-299", _ => "ge300" }),
        ];
        if ops.len() >= 20 {
            tags.push("nt".into());
        }
        for f in features(pl) {
            tags.push(f.into());
        }
        Case { line, tags }
    }

    /// Size class of a plan (no known finding is attached to either since 5ae85bc; the tags only feed the histogram):
    /// `bigcell` = some cell may be large against the page (payload profile mid/big/huge/mix, or keys that spill into
    /// overflow pages or differ widely in size), `smallcell` = every cell stays under ~1/14 of the page.
    pub fn features(pl: &Plan) -> Vec<&'static str> {
        if matches!(pl.profile, Profile::Mid | Profile::Big | Profile::Huge | Profile::Mix) || pl.kt == "ltext" || pl.kt == "mtext" {
            vec!["bigcell"]
        } else {
            vec!["smallcell"]
        }
    }

    pub fn gen_cases(rng: &mut Rng, tier: Tier) -> Vec<Case> {
        let mut out = Vec::new();
        let (nseq, maxops) = match tier {
            Tier::Quick => (60, 400),
            Tier::Thorough => (400, 1200),
        };
        let clean = [Profile::Tiny, Profile::Small, Profile::Small];
        let risky = [Profile::Mid, Profile::Big, Profile::Huge, Profile::Mix];
        let kts = ["u64", "u64", "i64", "text", "comp", "mtext", "btext"];
        for i in 0..nseq {
            // patterns come round; 4 of 10 sequences use large cells (overflow chains, few cells per page)
            let pattern = PATTERNS[i % PATTERNS.len()];
            let in_region = (i / PATTERNS.len() + i) % 10 < 4;
            let profile = if in_region { risky[(i / 3) % risky.len()] } else { clean[(i / 2) % clean.len()] };
            let ps = match rng.below(12) {
                0 | 1 => 8192,
                2 => 16384,
                _ => 4096,
            };
            let kt = if in_region && rng.chance(1, 8) { "ltext" } else { *rng.pick(&kts) };
            // scans after every operation make a sequence quadratic in the bytes stored: keep huge payloads short
            let cap = match profile {
                Profile::Huge => maxops / 4,
                Profile::Mix | Profile::Big => maxops * 3 / 4,
                _ => maxops,
            };
            let cap = if kt == "ltext" { cap.min(maxops / 3) } else { cap };
            let pl = Plan {
                ps,
                mk: 3 + rng.below(6) as usize,
                sib: 1 + rng.below(4) as usize,
                kt,
                profile,
                pattern,
                nops: match rng.below(4) {
                    0 => 20 + rng.below(60) as usize,
                    1 => 80 + rng.below(120) as usize,
                    _ => cap * 2 / 3 + rng.below(cap as u64 / 3) as usize,
                }
                .min(cap),
            };
            out.push(build(rng, &pl));
        }
        // deep trees: interior pages are only rebalanced against interior siblings (dividers moving between levels) from
        // height 4 on. Dividers are small cells now, so that takes long keys (dividers at their size budget, one overflow
        // page each) and few siblings per side; one plan in four keeps short keys and ~2000 rows of ~180 bytes.
        let ndeep = if tier == Tier::Quick { 4 } else { 20 };
        for i in 0..ndeep {
            let pattern = ["asc", "random", "desc", "churn", "delall", "zigzag"][(i + rng.below(6) as usize) % 6];
            let long_keys = i % 4 != 3;
            let pl = Plan {
                ps: 4096,
                mk: 3 + rng.below(2) as usize,
                sib: if long_keys { 1 + rng.below(2) as usize } else { 1 + rng.below(4) as usize },
                kt: if long_keys { "ltext" } else { *rng.pick(&["u64", "i64", "comp", "mtext", "btext"]) },
                profile: if long_keys { Profile::Tiny } else { Profile::SmallHi },
                pattern,
                nops: if long_keys { 900 + rng.below(400) as usize } else { 1700 + rng.below(500) as usize },
            };
            let mut c = build(rng, &pl);
            c.tags.push("deep".into());
            out.push(c);
        }
        // comparator tie: the realisation of key indices is monotone under the code's comparator
        for kt in ["u64", "i64", "text", "ltext", "mtext", "btext", "comp"] {
            for _ in 0..40 {
                let a = rng.below(2000);
                let b = if rng.chance(1, 5) { a } else { rng.below(2000) };
                out.push(Case::new(format!("cmp:{} {} {}", kt, a, b), &["cmp", "nt"]));
            }
        }
        // pure helpers on size vectors
        let nh = if tier == Tier::Quick { 300 } else { 3000 };
        for i in 0..nh {
            let n = 1 + rng.below(40) as usize;
            let class = i % 4;
            let sizes: Vec<String> = (0..n)
                .map(|_| {
                    match class {
                        0 => rng.below(64),
                        1 => rng.below(700),
                        2 => 600 + rng.below(700),
                        _ => *rng.pick(&[8u64, 40, 300, 900, 1300]) + rng.below(16),
                    }
                    .to_string()
                })
                .collect();
            if i % 3 == 0 {
                out.push(Case::new(format!("split {}", sizes.join(",")), &["split", "nt"]));
            } else {
                out.push(Case::new(format!("dist 4096 {}", sizes.join(",")), &["dist", "nt", ["dist-tiny", "dist-small", "dist-large", "dist-mixed"][class]]));
            }
        }
        // outside the domain the tree can produce (a cell larger than usable/3): here the fix-up of the helper underflows
        // and panics; the model must predict exactly when
        for _ in 0..(nh / 15) {
            let n = 2 + rng.below(6) as usize;
            let big = rng.below(n as u64) as usize;
            let sizes: Vec<String> = (0..n)
                .map(|i| if i == big { 2000 + rng.below(900) } else { *rng.pick(&[8u64, 200, 600, 1200]) + rng.below(64) }.to_string())
                .collect();
            out.push(Case::new(format!("dist 4096 {}", sizes.join(",")), &["dist", "nt", "dist-oversize"]));
        }
        out
    }
}
