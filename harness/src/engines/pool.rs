//! Engine `pool` (C16): job sequences through the task runner a real `Database` executes its statements on,
//! against the Lean worker-pool model (`Model/Pool.lean`).
//!
//! Case:    `seq <size> | op ; op ; …`
//!   op  =  `ok` | `err` | `panic`            one blocking call (`SharedTaskRunner::run_with_result`, the call
//!                                            `Database::execute` makes), waited for before the next op
//!       |  `burst:<k>,<k>,…`                 all jobs submitted first (`SharedTaskRunner::spawn`, FIFO), then waited for
//!       |  `idle`                            nothing is submitted for 350 ms (no job, no output word; the model skips it)
//! Output:  one word per job in submission order — `answered-ok`, `answered-err`, `answered-panic-as-error`, `lost`
//!          (`timed-out` / `rejected` never appear in the model) — then `| live=<workers still alive>`.
use super::{Case, Engine, Tier};
use crate::rng::Rng;
use axmosdb::verif::pool::{Answer, JobKind, Pool};
use axmosdb::{DBConfig, Database};
use std::sync::atomic::{AtomicU64, Ordering};
use std::time::Duration;

pub struct PoolEngine;

static COUNTER: AtomicU64 = AtomicU64::new(0);

pub const MAX_SIZE: usize = 16;
pub const MAX_JOBS: usize = 400;

fn kind(s: &str) -> Option<JobKind> {
    match s {
        "ok" => Some(JobKind::Ok),
        "err" => Some(JobKind::Err),
        "panic" => Some(JobKind::Panic),
        _ => None,
    }
}

#[derive(Debug)]
pub enum Op {
    Call(JobKind),
    Burst(Vec<JobKind>),
    /// nothing is submitted for 350 ms: idle workers must still be there afterwards
    Idle,
}

/// `seq <size> | op ; op ; …` → (size, ops); `None` = malformed (`bad-op` on both sides).
pub fn parse(line: &str) -> Option<(usize, Vec<Op>)> {
    let (head, body) = line.split_once('|')?;
    let hs: Vec<&str> = head.split_whitespace().collect();
    let size = match hs.as_slice() {
        ["seq", n] => n.parse::<usize>().ok()?,
        _ => return None,
    };
    if size == 0 || size > MAX_SIZE {
        return None;
    }
    let mut ops = Vec::new();
    let mut jobs = 0;
    for o in body.split(';') {
        let o = o.trim();
        if o == "idle" {
            ops.push(Op::Idle);
            continue;
        }
        if let Some(ks) = o.strip_prefix("burst:") {
            let ks: Option<Vec<JobKind>> = ks.split(',').map(kind).collect();
            let ks = ks?;
            jobs += ks.len();
            ops.push(Op::Burst(ks));
        } else {
            ops.push(Op::Call(kind(o)?));
            jobs += 1;
        }
    }
    if jobs > MAX_JOBS {
        return None;
    }
    Some((size, ops))
}

fn word(a: Answer) -> &'static str {
    match a {
        Answer::Ok => "answered-ok",
        Answer::Err => "answered-err",
        Answer::PanicAsError => "answered-panic-as-error",
        Answer::Lost => "lost",
        Answer::TimedOut => "timed-out",
        Answer::Rejected => "rejected",
    }
}

pub fn scratch_dir(tag: &str) -> std::path::PathBuf {
    let n = COUNTER.fetch_add(1, Ordering::Relaxed);
    let d = std::env::temp_dir().join(format!("axh-c16-{}-{}-{}", tag, std::process::id(), n));
    let _ = std::fs::remove_dir_all(&d);
    std::fs::create_dir_all(&d).expect("scratch dir");
    d
}

impl Engine for PoolEngine {
    fn exec(&mut self, line: &str) -> String {
        let Some((size, ops)) = parse(line) else { return "bad-op".into() };
        let dir = scratch_dir("pool");
        let cfg = DBConfig { pool_size: size, ..DBConfig::default() };
        let out = {
            let db = match Database::create(dir.join("p.db"), cfg) {
                Ok(db) => db,
                Err(_) => {
                    let _ = std::fs::remove_dir_all(&dir);
                    return "PROPFAIL cannot-create-database".into();
                }
            };
            let pool = Pool::of_database(&db);
            let grace = Duration::from_millis(20);
            let max_wait = Duration::from_secs(8);
            let mut words: Vec<&'static str> = Vec::new();
            for op in &ops {
                match op {
                    Op::Call(k) => {
                        let t = pool.submit_blocking_call(*k);
                        words.push(word(pool.wait(t, grace, max_wait)));
                    }
                    Op::Idle => std::thread::sleep(Duration::from_millis(350)),
                    Op::Burst(ks) => {
                        let ts: Vec<_> = ks.iter().map(|k| pool.submit(*k)).collect();
                        for t in ts {
                            words.push(word(pool.wait(t, grace, max_wait)));
                        }
                    }
                }
            }
            let live = pool.settled_live_workers(Duration::from_millis(40), Duration::from_secs(2));
            format!("{} | live={} ## size={} queued={}", words.join(" "), live, pool.size(), pool.queued())
        };
        let _ = std::fs::remove_dir_all(&dir);
        out
    }

    fn gen_cases(&self, rng: &mut Rng, tier: Tier) -> Vec<Case> {
        let n = if tier == Tier::Quick { 360 } else { 3600 };
        let mut cases = Vec::new();
        let k3 = ["ok", "err", "panic"];
        let k2 = ["ok", "err"];
        for i in 0..n {
            let size = match rng.below(10) {
                0..=2 => 1,
                3..=5 => 2,
                6..=7 => 3,
                8 => 4,
                _ => 5 + rng.below(4) as usize,
            };
            // 72 % of the cases have no panicking job (no known-finding feature)
            let clean = i % 25 < 18;
            let mut tags: Vec<String> = vec![format!("size{}", size.min(5))];
            let span = if rng.chance(1, 6) { 30 } else { 9 };
            let nops = 1 + rng.below(span) as usize;
            let mut ops: Vec<String> = Vec::new();
            let mut panics = 0usize;
            let mut jobs = 0usize;
            let mut has_err = false;
            let mut queued_burst = false;
            let mut any_burst = false;
            // in panic cases: aim for fewer than `size`, exactly `size`, or more than `size` panics
            let target = if clean { 0 } else { [1, size.saturating_sub(1).max(1), size, size + 1 + rng.below(3) as usize][rng.below(4) as usize] };
            for j in 0..nops {
                let remaining = nops - j;
                let pick = |rng: &mut Rng, panics: &mut usize| -> &'static str {
                    if clean {
                        return k2[rng.below(2) as usize];
                    }
                    let need = target.saturating_sub(*panics);
                    if need > 0 && (need >= remaining || rng.chance(1, 2)) {
                        *panics += 1;
                        return "panic";
                    }
                    let k = k3[rng.below(3) as usize];
                    if k == "panic" {
                        if *panics >= target {
                            return "ok";
                        }
                        *panics += 1;
                    }
                    k
                };
                if rng.chance(1, 4) {
                    let span = if rng.chance(1, 5) { 24 } else { 2 * size as u64 + 2 };
                    let len = 1 + rng.below(span) as usize;
                    let ks: Vec<&str> = (0..len).map(|_| pick(rng, &mut panics)).collect();
                    has_err |= ks.contains(&"err");
                    queued_burst |= len > size;
                    any_burst = true;
                    jobs += len;
                    ops.push(format!("burst:{}", ks.join(",")));
                } else {
                    let k = pick(rng, &mut panics);
                    has_err |= k == "err";
                    jobs += 1;
                    ops.push(k.to_string());
                }
            }
            if panics > 0 {
                tags.push("panic".into());
                tags.push(if panics < size { "panics<size" } else if panics == size { "panics=size" } else { "panics>size" }.into());
            } else {
                tags.push("clean".into());
            }
            if has_err {
                tags.push("err".into());
            }
            if any_burst {
                tags.push("burst".into());
            }
            if queued_burst {
                tags.push("burst>size".into());
            }
            tags.push(format!("jobs{}", if jobs <= 4 { "1-4" } else if jobs <= 16 { "5-16" } else { "17+" }));
            if has_err || panics > 0 || queued_burst {
                tags.push("nt".into());
            }
            // one case in twelve: the client pauses in the middle (idle workers must not go away: the next job is answered)
            if i % 12 == 5 && ops.len() >= 2 {
                let at = 1 + rng.below(ops.len() as u64 - 1) as usize;
                ops.insert(at, "idle".to_string());
                tags.push("idle".into());
            }
            let line = format!("seq {} | {}", size, ops.join(" ; "));
            cases.push(Case { line, tags });
        }
        // malformed lines: both sides must say bad-op
        for l in ["seq 0 | ok", "seq 2 | okk", "seq | ok", "seq 2 ok", "seq 2 | burst:ok,,ok", "seq 17 | ok"] {
            cases.push(Case::new(l.to_string(), &["malformed"]));
        }
        cases
    }

    fn timeout_ms(&self) -> u64 {
        60_000
    }
}

/// Content of `lean/AxVerif/Generated/<Engine>.lean`, if this engine extracts constants from the code.
pub fn generated() -> Option<(&'static str, String)> {
    None
}
