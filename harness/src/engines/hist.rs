//! Engine `hist` (C04, C03): multi-session histories through the public API (`Database`, `Session`) against the
//! logical MVCC model `Model/Db.lean`.  Case syntax: see `cfg/C04.py` / `Model/Db.lean` header.
use super::{Case, Engine, Tier};
use crate::rng::Rng;
use axmosdb::runtime::QueryResult;
use axmosdb::tcp::session::Session;
use axmosdb::{DBConfig, DataType, Database};
use std::collections::BTreeMap;
use std::sync::atomic::{AtomicU64, Ordering};

pub struct HistEngine;

// ------------------------------------------------------------------------------------------------ case syntax

#[derive(Clone, Debug, PartialEq)]
pub enum Val {
    Int(i64),
    Null,
    Text(String),
}

#[derive(Clone, Debug)]
pub struct Col {
    pub name: String,
    pub ty: String, // big | int | text
    pub not_null: bool,
    pub unique: bool,
}

#[derive(Clone, Debug)]
pub struct Table {
    pub name: String,
    pub cols: Vec<Col>,
    /// key groups declared at CREATE TABLE: (is primary key, column names)
    pub keys: Vec<(bool, Vec<String>)>,
    /// all constraints known for the table (incl. those added later), for checking observed contents:
    /// NOT NULL column indices and key sets as column indices
    pub not_null: Vec<usize>,
    pub key_sets: Vec<Vec<usize>>,
}

/// setup step after the tables exist
#[derive(Clone, Debug)]
pub enum Item {
    Row(String, Vec<Val>),
    /// (table, SQL) of a constraint added later
    Con(String, String),
}

#[derive(Clone, Debug)]
pub struct Pred {
    pub col: String,
    pub op: String, // eq ne lt le gt ge
    pub val: Val,
}

#[derive(Clone, Debug)]
pub enum Stmt {
    Sel { table: String, pred: Option<Pred> },
    Ins { table: String, rows: Vec<Vec<Val>> },
    Upd { table: String, col: String, add: bool, val: Val, pred: Option<Pred> },
    Del { table: String, pred: Option<Pred> },
}

#[derive(Clone, Debug)]
pub enum Op {
    Begin(String),
    Commit(String),
    Rollback(String),
    Drop(String),
    Exec(String, Stmt),   // session statement
    Auto(Stmt),           // `db <stmt>`: Database::execute
    Batch(Vec<Stmt>),     // `db batch s1 & s2 & …`: Database::execute_batch
}

#[derive(Clone, Debug)]
pub struct Setup {
    pub tables: Vec<Table>,
    pub items: Vec<Item>,
    pub fresh: bool,
}

pub(crate) fn parse_val(s: &str) -> Option<Val> {
    if s == "null" {
        return Some(Val::Null);
    }
    if s.len() >= 2 && s.starts_with('\'') && s.ends_with('\'') {
        let body = &s[1..s.len() - 1];
        if body.chars().all(|c| c.is_ascii_lowercase()) {
            return Some(Val::Text(body.to_string()));
        }
        return None;
    }
    // canonical decimal only (no leading '+', no leading zeros) so that both sides agree on what is malformed
    let n: i64 = s.parse().ok()?;
    if n.to_string() != s || n.abs() > 1_000_000_000 {
        return None;
    }
    Some(Val::Int(n))
}

pub(crate) fn ident(s: &str) -> bool {
    !s.is_empty() && s.chars().all(|c| c.is_ascii_lowercase() || c.is_ascii_digit()) && s.chars().next().unwrap().is_ascii_lowercase()
}

fn col_idx(t: &Table, name: &str) -> Option<usize> {
    t.cols.iter().position(|c| c.name == name)
}

/// `a+b` → (false, [a, b]); `^a+b` → (true, …); all columns must exist
fn parse_group(t: &Table, g: &str) -> Option<(bool, Vec<String>, Vec<usize>)> {
    let (pk, body) = match g.strip_prefix('^') {
        Some(r) => (true, r),
        None => (false, g),
    };
    let names: Vec<String> = body.split('+').map(|x| x.to_string()).collect();
    let idxs: Option<Vec<usize>> = names.iter().map(|n| col_idx(t, n)).collect();
    let idxs = idxs?;
    if idxs.is_empty() {
        return None;
    }
    Some((pk, names, idxs))
}

fn register_key(t: &mut Table, pk: bool, idxs: &[usize]) {
    if pk {
        for i in idxs {
            if !t.not_null.contains(i) {
                t.not_null.push(*i);
            }
        }
    }
    t.key_sets.push(idxs.to_vec());
}

fn parse_table(spec: &str) -> Option<Table> {
    // tab=t(k:big*,v:int!/a+b/^a)
    let parts: Vec<&str> = spec.split('(').collect();
    if parts.len() != 2 {
        return None;
    }
    let (name, rest) = (parts[0], parts[1]);
    let rest = rest.strip_suffix(')')?;
    if !ident(name) {
        return None;
    }
    let mut groups = rest.split('/');
    let cols_s = groups.next()?;
    let mut cols = Vec::new();
    for c in cols_s.split(',') {
        let cparts: Vec<&str> = c.split(':').collect();
        if cparts.len() != 2 {
            return None;
        }
        let (cn, ty) = (cparts[0], cparts[1]);
        let mut ty = ty.to_string();
        let mut not_null = false;
        let mut unique = false;
        loop {
            if let Some(t) = ty.strip_suffix('!') {
                not_null = true;
                ty = t.to_string();
            } else if let Some(t) = ty.strip_suffix('*') {
                unique = true;
                ty = t.to_string();
            } else {
                break;
            }
        }
        if !ident(cn) || !matches!(ty.as_str(), "big" | "int" | "text") {
            return None;
        }
        cols.push(Col { name: cn.to_string(), ty, not_null, unique });
    }
    if cols.is_empty() {
        return None;
    }
    let mut t = Table { name: name.to_string(), cols, keys: vec![], not_null: vec![], key_sets: vec![] };
    for (i, c) in t.cols.clone().iter().enumerate() {
        if c.not_null {
            t.not_null.push(i);
        }
    }
    for (i, c) in t.cols.clone().iter().enumerate() {
        if c.unique {
            t.key_sets.push(vec![i]);
        }
    }
    for g in groups {
        let (pk, names, idxs) = parse_group(&t, g)?;
        register_key(&mut t, pk, &idxs);
        t.keys.push((pk, names));
    }
    Some(t)
}

fn parse_setup(s: &str) -> Option<Setup> {
    let mut st = Setup { tables: vec![], items: vec![], fresh: false };
    for w in s.split_whitespace() {
        if w == "fresh" {
            st.fresh = true;
        } else if let Some(t) = w.strip_prefix("tab=") {
            st.tables.push(parse_table(t)?);
        } else if let Some(r) = w.strip_prefix("row=") {
            // row=t:1,10
            let parts: Vec<&str> = r.split(':').collect();
            if parts.len() != 2 {
                return None;
            }
            let vals: Option<Vec<Val>> = parts[1].split(',').map(parse_val).collect();
            st.items.push(Item::Row(parts[0].to_string(), vals?));
        } else if let Some(r) = w.strip_prefix("con=") {
            // con=t:a+b | con=t:^a | con=t:@a+b | con=t:!v     (the first table of that name)
            let parts: Vec<&str> = r.split(':').collect();
            if parts.len() != 2 {
                return None;
            }
            let t = st.tables.iter_mut().find(|t| t.name == parts[0])?;
            let c = parts[1];
            let sql = if let Some(col) = c.strip_prefix('!') {
                let i = col_idx(t, col)?;
                if !t.not_null.contains(&i) {
                    t.not_null.push(i);
                }
                format!("ALTER TABLE {} ALTER COLUMN {} SET NOT NULL", t.name, col)
            } else if let Some(g) = c.strip_prefix('@') {
                let (pk, names, idxs) = parse_group(t, g)?;
                register_key(t, pk, &idxs);
                format!("CREATE UNIQUE INDEX ix{}{} ON {} ({})", t.name, names.join(""), t.name, names.join(", "))
            } else {
                let (pk, names, idxs) = parse_group(t, c)?;
                register_key(t, pk, &idxs);
                format!(
                    "ALTER TABLE {} ADD CONSTRAINT {} ({})",
                    t.name,
                    if pk { "PRIMARY KEY" } else { "UNIQUE" },
                    names.join(", ")
                )
            };
            st.items.push(Item::Con(parts[0].to_string(), sql));
        } else {
            return None;
        }
    }
    Some(st)
}

fn parse_pred(ws: &[&str]) -> Option<Option<Pred>> {
    match ws {
        [] => Some(None),
        ["where", col, op, val] => {
            if !ident(col) || !matches!(*op, "eq" | "ne" | "lt" | "le" | "gt" | "ge") {
                return None;
            }
            Some(Some(Pred { col: col.to_string(), op: op.to_string(), val: parse_val(val)? }))
        }
        _ => None,
    }
}

pub(crate) fn parse_stmt(ws: &[&str]) -> Option<Stmt> {
    match ws {
        ["sel", t, rest @ ..] if ident(t) => Some(Stmt::Sel { table: t.to_string(), pred: parse_pred(rest)? }),
        ["del", t, rest @ ..] if ident(t) => Some(Stmt::Del { table: t.to_string(), pred: parse_pred(rest)? }),
        ["upd", t, col, how, val, rest @ ..] if ident(t) && ident(col) && (*how == "set" || *how == "add") => Some(Stmt::Upd {
            table: t.to_string(),
            col: col.to_string(),
            add: *how == "add",
            val: parse_val(val)?,
            pred: parse_pred(rest)?,
        }),
        ["ins", t, rest @ ..] if ident(t) && !rest.is_empty() => {
            let mut rows = Vec::new();
            for r in rest.split(|w| *w == ",") {
                if r.is_empty() {
                    return None;
                }
                let vals: Option<Vec<Val>> = r.iter().map(|v| parse_val(v)).collect();
                rows.push(vals?);
            }
            Some(Stmt::Ins { table: t.to_string(), rows })
        }
        _ => None,
    }
}

pub(crate) fn sess_name(s: &str) -> bool {
    s.len() >= 2 && s.starts_with('s') && s[1..].chars().all(|c| c.is_ascii_digit())
}

fn parse_op(s: &str) -> Option<Op> {
    let ws: Vec<&str> = s.split_whitespace().collect();
    match ws.as_slice() {
        ["db", "batch", rest @ ..] => {
            let mut stmts = Vec::new();
            for part in rest.split(|w| *w == "&") {
                stmts.push(parse_stmt(part)?);
            }
            Some(Op::Batch(stmts))
        }
        ["db", rest @ ..] => Some(Op::Auto(parse_stmt(rest)?)),
        [s, "begin"] if sess_name(s) => Some(Op::Begin(s.to_string())),
        [s, "commit"] if sess_name(s) => Some(Op::Commit(s.to_string())),
        [s, "rollback"] if sess_name(s) => Some(Op::Rollback(s.to_string())),
        [s, "drop"] if sess_name(s) => Some(Op::Drop(s.to_string())),
        [s, rest @ ..] if sess_name(s) => Some(Op::Exec(s.to_string(), parse_stmt(rest)?)),
        _ => None,
    }
}

pub fn parse_case(line: &str) -> Option<(Setup, Vec<Op>)> {
    let body = line.trim().strip_prefix("hist ")?;
    let (setup, ops) = body.split_once('|')?;
    let setup = parse_setup(setup)?;
    let mut out = Vec::new();
    let ops = ops.trim();
    if !ops.is_empty() {
        for o in ops.split(" ; ") {
            out.push(parse_op(o)?);
        }
    }
    Some((setup, out))
}

// ------------------------------------------------------------------------------------------------ SQL text

pub(crate) fn sql_val(v: &Val) -> String {
    match v {
        Val::Int(n) => n.to_string(),
        Val::Null => "NULL".into(),
        Val::Text(s) => format!("'{}'", s),
    }
}

fn sql_pred(p: &Option<Pred>) -> String {
    match p {
        None => String::new(),
        Some(p) => {
            let op = match p.op.as_str() {
                "eq" => "=",
                "ne" => "<>",
                "lt" => "<",
                "le" => "<=",
                "gt" => ">",
                _ => ">=",
            };
            format!(" WHERE {} {} {}", p.col, op, sql_val(&p.val))
        }
    }
}

pub fn sql_of(s: &Stmt) -> String {
    match s {
        Stmt::Sel { table, pred } => format!("SELECT * FROM {}{}", table, sql_pred(pred)),
        Stmt::Del { table, pred } => format!("DELETE FROM {}{}", table, sql_pred(pred)),
        Stmt::Upd { table, col, add, val, pred } => {
            if *add {
                format!("UPDATE {} SET {} = {} + {}{}", table, col, col, sql_val(val), sql_pred(pred))
            } else {
                format!("UPDATE {} SET {} = {}{}", table, col, sql_val(val), sql_pred(pred))
            }
        }
        Stmt::Ins { table, rows } => {
            let rs: Vec<String> =
                rows.iter().map(|r| format!("({})", r.iter().map(sql_val).collect::<Vec<_>>().join(", "))).collect();
            format!("INSERT INTO {} VALUES {}", table, rs.join(", "))
        }
    }
}

fn sql_create(t: &Table) -> String {
    let mut cols: Vec<String> = Vec::new();
    let mut uniq: Vec<String> = Vec::new();
    for c in &t.cols {
        let ty = match c.ty.as_str() {
            "big" => "BIGINT",
            "int" => "INT",
            _ => "TEXT",
        };
        cols.push(format!("{} {}{}", c.name, ty, if c.not_null { " NOT NULL" } else { "" }));
        if c.unique {
            uniq.push(format!("UNIQUE({})", c.name));
        }
    }
    cols.extend(uniq);
    for (pk, names) in &t.keys {
        cols.push(format!("{} ({})", if *pk { "PRIMARY KEY" } else { "UNIQUE" }, names.join(", ")));
    }
    format!("CREATE TABLE {} ({})", t.name, cols.join(", "))
}

// ------------------------------------------------------------------------------------------------ execution

/// Error classes.  `Session::execute` / `Database::execute` hand every error through the task runner as a *string*
/// (`TaskError::TaskFailed(e.to_string())`), so the class has to be read off the `Display` prefix that the error enums
/// (`QueryError`, `RuntimeError`, `QueryPreparationError`) put in front of the message.
pub(crate) fn err_class(msg: &str) -> &'static str {
    let m = msg.to_ascii_lowercase();
    if m.contains("conflict") {
        "conflict"
    } else if m.contains("constraint validation error") || m.contains("unique") || m.contains("not null") || m.contains("null constraint") {
        "constraint"
    } else if m.contains("not found") || m.contains("does not exist") || m.contains("notfound") {
        "notfound"
    } else if m.contains("type error") || m.contains("cast") || m.contains("type mismatch") || m.contains("datatype") {
        "type"
    } else {
        "other"
    }
}

pub(crate) fn show_dt(d: &DataType) -> String {
    match d {
        DataType::Null => "null".into(),
        DataType::Int(v) => v.value().to_string(),
        DataType::BigInt(v) => v.value().to_string(),
        DataType::UInt(v) => v.value().to_string(),
        DataType::BigUInt(v) => v.value().to_string(),
        DataType::Blob(b) => format!("'{}'", String::from_utf8_lossy(b.data().unwrap_or(&[]))),
        other => format!("?{:?}", other),
    }
}

/// do the observed committed contents of a table violate one of its constraints?
fn rows_violate(t: &Table, cells: &[Vec<String>]) -> bool {
    for r in cells {
        for i in &t.not_null {
            if r.get(*i).map(|x| x == "null").unwrap_or(true) {
                return true;
            }
        }
    }
    for ks in &t.key_sets {
        let keys: Vec<Vec<&String>> = cells.iter().map(|r| ks.iter().filter_map(|i| r.get(*i)).collect()).collect();
        for a in 0..keys.len() {
            if keys[a].iter().any(|x| *x == "null") {
                continue;
            }
            for b in a + 1..keys.len() {
                if keys[a] == keys[b] {
                    return true;
                }
            }
        }
    }
    false
}

pub(crate) fn show_result(r: Result<QueryResult, String>, is_read: bool, diag: &mut Vec<String>) -> String {
    show_result_chk(r, is_read, diag, None)
}

/// `chk`: the table whose full committed contents this result is (then the constraints are checked on it)
fn show_result_chk(r: Result<QueryResult, String>, is_read: bool, diag: &mut Vec<String>, chk: Option<&Table>) -> String {
    match r {
        Ok(QueryResult::Rows(rows)) => {
            let cells: Vec<Vec<String>> = rows.iterrows().map(|r| r.iter().map(show_dt).collect::<Vec<_>>()).collect();
            let mut out: Vec<String> = cells.iter().map(|r| r.join(",")).collect();
            out.sort();
            let pf = match chk {
                Some(t) if rows_violate(t, &cells) => format!("!PROPFAIL:constraint:{}", t.name),
                _ => String::new(),
            };
            format!("[{}]{}", out.join(";"), pf)
        }
        Ok(QueryResult::RowsAffected(n)) => {
            if is_read { format!("?affected{}", n) } else { format!("ok{}", n) }
        }
        Ok(QueryResult::Ddl(_)) => "ddl".into(),
        Err(e) => {
            diag.push(e.chars().filter(|c| *c != '\n').take(100).collect());
            err_class(&e).to_string()
        }
    }
}

pub(crate) static COUNTER: AtomicU64 = AtomicU64::new(0);

/// The library prints to stdout on some DDL statements (`CREATE UNIQUE INDEX`); stdout is the line protocol of
/// `axh exec`, so it points to /dev/null while a case runs.
pub(crate) struct QuietStdout {
    saved: i32,
}
impl QuietStdout {
    pub(crate) fn new() -> QuietStdout {
        use std::io::Write;
        let _ = std::io::stdout().flush();
        unsafe {
            let saved = libc::dup(1);
            let null = libc::open(b"/dev/null\0".as_ptr() as *const libc::c_char, libc::O_WRONLY);
            if null >= 0 {
                libc::dup2(null, 1);
                libc::close(null);
            }
            QuietStdout { saved }
        }
    }
}
impl Drop for QuietStdout {
    fn drop(&mut self) {
        use std::io::Write;
        let _ = std::io::stdout().flush();
        unsafe {
            if self.saved >= 0 {
                libc::dup2(self.saved, 1);
                libc::close(self.saved);
            }
        }
    }
}

pub fn run_case(line: &str) -> String {
    run_case_with(line, DBConfig::default())
}

/// The same history on a database created with the given configuration (C12's configuration grid).
pub fn run_case_with(line: &str, cfg: DBConfig) -> String {
    let _quiet = QuietStdout::new();
    let Some((setup, ops)) = parse_case(line) else { return "bad-op".into() };
    let dir = std::env::temp_dir().join(format!("axv-hist-{}-{}", std::process::id(), COUNTER.fetch_add(1, Ordering::SeqCst)));
    let _ = std::fs::remove_dir_all(&dir);
    std::fs::create_dir_all(&dir).unwrap();
    let out = run_in(&dir, &setup, &ops, cfg);
    let _ = std::fs::remove_dir_all(&dir);
    out
}

fn run_in(dir: &std::path::Path, setup: &Setup, ops: &[Op], cfg: DBConfig) -> String {
    let path = dir.join("db.axm");
    let db = match Database::create(&path, cfg) {
        Ok(d) => d,
        Err(e) => return format!("create-failed ## {}", e),
    };
    let mut diag: Vec<String> = Vec::new();
    for t in &setup.tables {
        if let Err(e) = db.execute(&sql_create(t)) {
            return format!("bad-setup ## {}", e);
        }
    }
    if !setup.fresh {
        // warm-up: make sure some transaction with id > 0 has committed
        let _ = db.execute("CREATE TABLE warmupzz (k BIGINT)");
    }
    for it in &setup.items {
        let sql = match it {
            Item::Row(t, vals) => sql_of(&Stmt::Ins { table: t.clone(), rows: vec![vals.clone()] }),
            Item::Con(_, sql) => sql.clone(),
        };
        if let Err(e) = db.execute(&sql) {
            return format!("bad-setup ## {}", e);
        }
    }
    let mut sessions: BTreeMap<String, Session> = BTreeMap::new();
    let mut outs: Vec<String> = Vec::new();
    for op in ops {
        let o = match op {
            Op::Begin(s) => {
                // an open session of that name is dropped first (= rollback)
                sessions.remove(s);
                match db.session() {
                    Ok(x) => {
                        sessions.insert(s.clone(), x);
                        "ok".to_string()
                    }
                    Err(e) => err_class(&e.to_string()).to_string(),
                }
            }
            Op::Commit(s) => match sessions.get_mut(s) {
                None => "nosession".into(),
                Some(x) => {
                    let r = x.commit_transaction();
                    let o = match r {
                        Ok(()) => "ok".to_string(),
                        Err(e) => {
                            diag.push(e.to_string().chars().take(100).collect());
                            err_class(&e.to_string()).to_string()
                        }
                    };
                    sessions.remove(s);
                    o
                }
            },
            Op::Rollback(s) => match sessions.get_mut(s) {
                None => "nosession".into(),
                Some(x) => {
                    let r = x.abort_transaction();
                    let o = match r {
                        Ok(()) => "ok".to_string(),
                        Err(e) => err_class(&e.to_string()).to_string(),
                    };
                    sessions.remove(s);
                    o
                }
            },
            Op::Drop(s) => match sessions.remove(s) {
                None => "nosession".into(),
                Some(x) => {
                    drop(x);
                    "ok".into()
                }
            },
            Op::Exec(s, st) => match sessions.get_mut(s) {
                None => "nosession".into(),
                Some(x) => {
                    let r = x.execute(&sql_of(st)).map_err(|e| e.to_string());
                    show_result(r, matches!(st, Stmt::Sel { .. }), &mut diag)
                }
            },
            Op::Auto(st) => {
                let r = db.execute(&sql_of(st)).map_err(|e| e.to_string());
                let chk = match st {
                    Stmt::Sel { table, pred: None } => setup.tables.iter().find(|t| &t.name == table),
                    _ => None,
                };
                show_result_chk(r, matches!(st, Stmt::Sel { .. }), &mut diag, chk)
            }
            Op::Batch(sts) => {
                let sqls: Vec<String> = sts.iter().map(sql_of).collect();
                let refs: Vec<&str> = sqls.iter().map(|s| s.as_str()).collect();
                match db.execute_batch(&refs) {
                    Ok(rs) => {
                        let parts: Vec<String> = rs
                            .into_iter()
                            .zip(sts.iter())
                            .map(|(r, st)| show_result(Ok(r), matches!(st, Stmt::Sel { .. }), &mut diag))
                            .collect();
                        format!("batch({})", parts.join(" "))
                    }
                    Err(e) => {
                        diag.push(e.to_string().chars().take(100).collect());
                        format!("batch-{}", err_class(&e.to_string()))
                    }
                }
            }
        };
        outs.push(o);
    }
    drop(sessions);
    // final committed state of every table, read by a fresh autocommit transaction
    let mut fin: Vec<String> = Vec::new();
    for t in &setup.tables {
        let r = db.execute(&format!("SELECT * FROM {}", t.name)).map_err(|e| e.to_string());
        fin.push(format!("{}={}", t.name, show_result_chk(r, true, &mut diag, Some(t))));
    }
    drop(db);
    let mut line = format!("{} | {}", outs.join(" "), fin.join(" "));
    if !diag.is_empty() {
        line.push_str(" ## ");
        line.push_str(&diag.join(" // "));
    }
    line
}

// ------------------------------------------------------------------------------------------------ generation
//
// A *program* is the op list of one session without the session prefix: `begin`, statements, `commit|rollback|drop`.
// Key discipline that keeps a case in the clean region (no known-finding feature):
//   * initial rows have keys 1..n (value 10*k); session i inserts keys 10*i+j only;
//   * a session writes (del/upd) only rows it "owns": its own inserted keys and the initial keys dealt to it;
//   * no UPDATE at all, no statement failing after its first row inside a session, no reinsertion of a deleted
//     unique key.
// The finding families lift exactly one of these restrictions each.

const T_PLAIN: &str = "tab=t(k:big,v:int)";
const T_CONS: &str = "tab=u(k:big*,v:int!)";

#[derive(Clone, Copy, PartialEq)]
enum Family {
    Clean,
    Update,          // updates, no two open transactions writing the same row     (updateKeepsInserterXmin)
    ConcurrentWrite, // two open transactions write the same row                   (writeSetNeverRecorded, deleteMarkSingleSlot)
    PartialFail,     // statement failing after its first row inside a session     (clean since fix 64fa97f)
    Reinsert,        // deleted unique key inserted again                          (region: index entry replaced)
}

struct Ctx {
    table: &'static str, // t or u
    n_init: i64,
    owned: Vec<Vec<i64>>, // per session: initial keys it may write
}

fn setup_line(table: &str, n_init: i64, fresh: bool) -> String {
    let mut s = String::new();
    s.push_str(if table == "t" { T_PLAIN } else { T_CONS });
    for k in 1..=n_init {
        s.push_str(&format!(" row={}:{},{}", table, k, 10 * k));
    }
    if fresh {
        s.push_str(" fresh");
    }
    s
}

fn gen_read(rng: &mut Rng, cx: &Ctx) -> String {
    let t = cx.table;
    match rng.below(6) {
        0 | 1 | 2 => format!("sel {}", t),
        3 => format!("sel {} where k eq {}", t, rng.range(1, cx.n_init.max(1))),
        4 => format!("sel {} where v {} {}", t, rng.pick(&["ge", "lt", "ne", "gt", "le"]), 10 * rng.range(1, 3)),
        _ => format!("sel {} where k {} {}", t, rng.pick(&["lt", "ge", "ne"]), rng.range(1, 12)),
    }
}

/// one statement of session `si` (1-based); `ins_ctr` numbers its inserted keys
fn gen_stmt(rng: &mut Rng, cx: &Ctx, fam: Family, si: usize, ins_ctr: &mut i64, my_keys: &mut Vec<i64>) -> String {
    let t = cx.table;
    let w = rng.below(10);
    if w < 4 {
        return gen_read(rng, cx);
    }
    if w < 7 || my_keys.is_empty() {
        // insert (sometimes multi-row)
        let nrows = if rng.chance(1, 4) { 2 } else { 1 };
        let mut parts = Vec::new();
        for _ in 0..nrows {
            let k = 10 * si as i64 + *ins_ctr;
            *ins_ctr += 1;
            my_keys.push(k);
            parts.push(format!("{} {}", k, 100 * si as i64 + rng.range(0, 9)));
        }
        return format!("ins {} {}", t, parts.join(" , "));
    }
    let k = *rng.pick(my_keys);
    let upd_ok = matches!(fam, Family::Update | Family::ConcurrentWrite);
    if upd_ok && rng.chance(3, 5) {
        if rng.chance(1, 2) {
            format!("upd {} v add {} where k eq {}", t, rng.range(1, 5), k)
        } else {
            format!("upd {} v set {} where k eq {}", t, 1000 + rng.range(0, 99), k)
        }
    } else {
        if !(fam == Family::Reinsert) {
            my_keys.retain(|x| *x != k);
        }
        format!("del {} where k eq {}", t, k)
    }
}

fn gen_end(rng: &mut Rng) -> &'static str {
    match rng.below(10) {
        0..=5 => "commit",
        6..=8 => "rollback",
        _ => "drop",
    }
}

/// a program of `n` statements for session `si`
fn gen_prog(rng: &mut Rng, cx: &Ctx, fam: Family, si: usize, n: usize) -> Vec<String> {
    let mut ops = vec!["begin".to_string()];
    let mut ins_ctr = 1;
    let mut my_keys = cx.owned[si - 1].clone();
    for _ in 0..n {
        ops.push(gen_stmt(rng, cx, fam, si, &mut ins_ctr, &mut my_keys));
    }
    ops.push(gen_end(rng).to_string());
    ops
}

/// all interleavings of the programs (each keeps its own order), as op lists with session prefixes
fn all_interleavings(progs: &[Vec<String>]) -> Vec<Vec<String>> {
    fn rec(progs: &[Vec<String>], pos: &mut Vec<usize>, cur: &mut Vec<String>, out: &mut Vec<Vec<String>>) {
        let mut done = true;
        for i in 0..progs.len() {
            if pos[i] < progs[i].len() {
                done = false;
                cur.push(format!("s{} {}", i + 1, progs[i][pos[i]]));
                pos[i] += 1;
                rec(progs, pos, cur, out);
                pos[i] -= 1;
                cur.pop();
            }
        }
        if done {
            out.push(cur.clone());
        }
    }
    let mut out = Vec::new();
    rec(progs, &mut vec![0; progs.len()], &mut Vec::new(), &mut out);
    out
}

fn random_interleaving(rng: &mut Rng, progs: &[Vec<String>]) -> Vec<String> {
    let mut pos = vec![0usize; progs.len()];
    let mut out = Vec::new();
    loop {
        let live: Vec<usize> = (0..progs.len()).filter(|i| pos[*i] < progs[*i].len()).collect();
        if live.is_empty() {
            return out;
        }
        // weight by remaining length so that every interleaving has the same probability
        let total: usize = live.iter().map(|i| progs[*i].len() - pos[*i]).sum();
        let mut x = rng.below(total as u64) as usize;
        let mut pick = live[0];
        for i in &live {
            let r = progs[*i].len() - pos[*i];
            if x < r {
                pick = *i;
                break;
            }
            x -= r;
        }
        out.push(format!("s{} {}", pick + 1, progs[pick][pos[pick]]));
        pos[pick] += 1;
    }
}

/// deals the initial keys 1..n to the sessions (a key may stay unowned)
fn deal_keys(rng: &mut Rng, n_init: i64, nsess: usize, shared: bool) -> Vec<Vec<i64>> {
    let mut owned = vec![Vec::new(); nsess];
    for k in 1..=n_init {
        if shared {
            // every session may write every initial row
            for o in owned.iter_mut() {
                o.push(k);
            }
        } else {
            let who = rng.below(nsess as u64 + 1) as usize;
            if who < nsess {
                owned[who].push(k);
            }
        }
    }
    owned
}

// ---- tagging (syntactic analysis of the op list)

struct Interval {
    begin: usize,
    end: usize,
    writes: Vec<(String, Option<i64>, bool)>, // (table, key or wildcard, is_update)
    wrote: bool,
}

fn stmt_touch(st: &Stmt) -> Option<(String, Option<i64>, bool)> {
    let key = |p: &Option<Pred>| match p {
        Some(Pred { col, op, val: Val::Int(n) }) if col == "k" && op == "eq" => Some(*n),
        _ => None,
    };
    match st {
        Stmt::Del { table, pred } => Some((table.clone(), key(pred), false)),
        Stmt::Upd { table, pred, .. } => Some((table.clone(), key(pred), true)),
        _ => None,
    }
}

pub fn analyse(line: &str) -> Vec<String> {
    let mut tags: Vec<String> = Vec::new();
    let Some((setup, ops)) = parse_case(line) else { return vec!["malformed".into()] };
    let mut add = |t: &str| {
        if !tags.iter().any(|x| x == t) {
            tags.push(t.to_string());
        }
    };
    if setup.fresh {
        add("fresh_db_no_commit_yet");
    }
    let mut open: BTreeMap<String, usize> = BTreeMap::new(); // session -> interval index
    let mut ivs: Vec<Interval> = Vec::new();
    let mut reads: Vec<(usize, usize)> = Vec::new(); // (interval, position)
    let mut ends_of_writers: Vec<(usize, usize)> = Vec::new(); // (interval, position) of commit/abort of a writer
    let (mut n_ins, mut n_del, mut n_upd) = (0, 0, 0);
    let mut sessions_seen: Vec<String> = Vec::new();
    for (pos, op) in ops.iter().enumerate() {
        let mut note_stmt = |st: &Stmt, add: &mut dyn FnMut(&str)| match st {
            Stmt::Sel { pred, .. } => {
                add("sel");
                if let Some(p) = pred {
                    add("sel_pred");
                    if p.col == "k" && p.op == "eq" {
                        add("sel_key_eq");
                    }
                }
            }
            Stmt::Ins { rows, .. } => {
                n_ins += 1;
                add("ins");
                if rows.len() > 1 {
                    add("multi_row_insert");
                }
            }
            Stmt::Upd { add: a, .. } => {
                n_upd += 1;
                add("update");
                add(if *a { "upd_add" } else { "upd_set" });
            }
            Stmt::Del { .. } => {
                n_del += 1;
                add("del");
            }
        };
        match op {
            Op::Begin(s) => {
                if !sessions_seen.contains(s) {
                    sessions_seen.push(s.clone());
                }
                if let Some(i) = open.remove(s) {
                    ivs[i].end = pos;
                    if ivs[i].wrote {
                        ends_of_writers.push((i, pos));
                    }
                }
                ivs.push(Interval { begin: pos, end: usize::MAX, writes: vec![], wrote: false });
                open.insert(s.clone(), ivs.len() - 1);
            }
            Op::Commit(s) | Op::Rollback(s) | Op::Drop(s) => {
                match op {
                    Op::Commit(_) => add("commit"),
                    Op::Rollback(_) => add("rollback"),
                    _ => add("session_drop"),
                }
                if let Some(i) = open.remove(s) {
                    ivs[i].end = pos;
                    if ivs[i].wrote {
                        ends_of_writers.push((i, pos));
                    }
                }
            }
            Op::Exec(s, st) => {
                note_stmt(st, &mut add);
                if let Some(&i) = open.get(s) {
                    if matches!(st, Stmt::Sel { .. }) {
                        reads.push((i, pos));
                    } else {
                        ivs[i].wrote = true;
                        if let Some(t) = stmt_touch(st) {
                            ivs[i].writes.push(t);
                        }
                    }
                }
            }
            Op::Auto(st) => {
                add("autocommit");
                note_stmt(st, &mut add);
                if !matches!(st, Stmt::Sel { .. }) {
                    ivs.push(Interval { begin: pos, end: pos, writes: stmt_touch(st).into_iter().collect(), wrote: true });
                    ends_of_writers.push((ivs.len() - 1, pos));
                }
            }
            Op::Batch(sts) => {
                add("batch");
                let mut iv = Interval { begin: pos, end: pos, writes: vec![], wrote: false };
                for st in sts {
                    note_stmt(st, &mut add);
                    if !matches!(st, Stmt::Sel { .. }) {
                        iv.wrote = true;
                        if let Some(t) = stmt_touch(st) {
                            iv.writes.push(t);
                        }
                    }
                }
                if iv.wrote {
                    ivs.push(iv);
                    ends_of_writers.push((ivs.len() - 1, pos));
                }
            }
        }
    }
    add(&format!("sess{}", sessions_seen.len().min(4)));
    if n_upd == 0 && n_del == 0 && n_ins > 0 {
        add("insert_only");
    }
    if n_upd == 0 && n_ins == 0 && n_del > 0 {
        add("delete_only");
    }
    // non-trivial: a writer commits or aborts between two reads of another open transaction
    let nt = reads.iter().any(|&(i, p1)| {
        reads.iter().any(|&(j, p2)| i == j && p1 < p2 && ends_of_writers.iter().any(|&(w, pe)| w != i && p1 < pe && pe < p2))
    });
    if nt {
        add("nt");
    }
    // two transactions open at the same time writing the same row (same key or a wildcard)
    for a in 0..ivs.len() {
        for b in a + 1..ivs.len() {
            let (x, y) = (&ivs[a], &ivs[b]);
            if x.begin <= y.end && y.begin <= x.end {
                for (t1, k1, u1) in &x.writes {
                    for (t2, k2, u2) in &y.writes {
                        if t1 == t2 && (k1.is_none() || k2.is_none() || k1 == k2) {
                            add("concurrent_write_same_row");
                            if *u1 || *u2 {
                                add("concurrent_update_same_row");
                            }
                            if !*u1 || !*u2 {
                                add("concurrent_delete_same_row");
                            }
                        }
                    }
                }
            }
        }
    }
    tags
}

fn finish(line: String, fam: Family, extra: &[&str]) -> Case {
    let mut tags = analyse(&line);
    for e in extra {
        if !tags.iter().any(|t| t == e) {
            tags.push(e.to_string());
        }
    }
    // the known-finding feature a case carries (at most one by construction; `kf2` would flag a generator bug)
    let mut kf: Vec<&str> = Vec::new();
    if tags.iter().any(|t| t == "concurrent_write_same_row") {
        kf.push("kf:concurrent_write_same_row");
    } else if tags.iter().any(|t| t == "update") {
        kf.push("kf:update");
    }
    // `failed_stmt_partial` (a statement failing after its first row inside a session) is clean since fix 64fa97f:
    // the statement takes back what it wrote
    if tags.iter().any(|t| t == "reinsert_deleted_unique_key") {
        kf.push("kf:reinsert_deleted_unique_key");
    }
    let _ = fam;
    match kf.len() {
        0 => tags.push("clean".into()),
        1 => tags.push(kf[0].into()),
        _ => {
            tags.push(kf[0].into());
            tags.push("kf2".into());
        }
    }
    Case { line, tags }
}

fn case_of(setup: &str, ops: &[String], fam: Family, extra: &[&str]) -> Case {
    finish(format!("hist {} | {}", setup, ops.join(" ; ")), fam, extra)
}

fn pick_family(rng: &mut Rng) -> Family {
    match rng.below(100) {
        0..=74 => Family::Clean,
        75..=89 => Family::Update,
        _ => Family::ConcurrentWrite,
    }
}

/// C04 family: program tuples and their interleavings
fn gen_interleaved(rng: &mut Rng, nsess: usize, nstmts: usize, limit: Option<usize>, out: &mut Vec<Case>) {
    let fam = pick_family(rng);
    // UPDATE statements only on the table without a unique index: on `u` every UPDATE of `v` fails with a spurious
    // type error *after* the row was updated (index maintenance mixes value and column indices), see cfg/C03.py
    let table = if fam == Family::Clean && rng.chance(1, 3) { "u" } else { "t" };
    let n_init = rng.range(1, 3);
    let owned = deal_keys(rng, n_init, nsess, fam == Family::ConcurrentWrite);
    let cx = Ctx { table, n_init, owned };
    let fresh = fam == Family::Clean && table == "t" && n_init == 0;
    let progs: Vec<Vec<String>> = (1..=nsess)
        .map(|si| {
            let n = if nstmts == 0 { rng.range(1, 3) as usize } else { nstmts };
            gen_prog(rng, &cx, fam, si, n)
        })
        .collect();
    let setup = setup_line(table, n_init, fresh);
    let total: usize = progs.iter().map(|p| p.len()).sum();
    let exhaustive_small = match limit {
        None => true,
        Some(l) => {
            // number of interleavings of two programs: C(a+b, a); enumerate only when small
            progs.len() == 2 && binom(total, progs[0].len()) <= l
        }
    };
    if exhaustive_small {
        for il in all_interleavings(&progs) {
            out.push(case_of(&setup, &il, fam, &["interleave_exhaustive"]));
        }
    } else {
        let l = limit.unwrap();
        let mut seen = std::collections::BTreeSet::new();
        let mut tries = 0;
        while seen.len() < l && tries < 10 * l {
            tries += 1;
            let il = random_interleaving(rng, &progs);
            if seen.insert(il.join(";")) {
                out.push(case_of(&setup, &il, fam, &["interleave_sampled"]));
            }
        }
    }
}

fn binom(n: usize, k: usize) -> usize {
    let mut r: usize = 1;
    for i in 0..k.min(n - k) {
        r = r * (n - i) / (i + 1);
    }
    r
}

/// snapshots taken on a database where no transaction with id > 0 has committed yet
fn gen_fresh(rng: &mut Rng, out: &mut Vec<Case>) {
    let setup = format!("{} fresh", T_PLAIN);
    let w = match rng.below(3) {
        0 => "db ins t 1 10".to_string(),
        1 => "s2 begin ; s2 ins t 1 10 ; s2 commit".to_string(),
        _ => "db batch ins t 1 10 & ins t 2 20".to_string(),
    };
    let ops = format!("s1 begin ; s1 sel t ; {} ; s1 sel t ; s1 {} ; db sel t", w, gen_end(rng));
    out.push(finish(format!("hist {} | {}", setup, ops), Family::Clean, &[]));
}

/// an older transaction stays open (with uncommitted writes) while younger ones begin, write and commit; then a third
/// one begins and reads: the uncommitted work of the old one, whose id is below the last committed id, must stay
/// invisible (this is what the snapshot's active set is for), also after it commits or rolls back
fn gen_old_active(rng: &mut Rng, out: &mut Vec<Case>) {
    let n_init = rng.range(2, 3);
    let setup = setup_line("t", n_init, false);
    let k_old = rng.range(1, n_init);
    let old_write = match rng.below(3) {
        0 => format!("s1 del t where k eq {}", k_old),
        1 => "s1 ins t 11 110".to_string(),
        _ => format!("s1 ins t 11 110 ; s1 del t where k eq {}", k_old),
    };
    let young = match rng.below(3) {
        0 => "s2 begin ; s2 ins t 21 210 ; s2 commit".to_string(),
        1 => "db ins t 21 210".to_string(),
        _ => "s2 begin ; s2 ins t 21 210 ; s2 commit ; db ins t 22 220".to_string(),
    };
    let end_old = gen_end(rng);
    let ops = format!(
        "s1 begin ; {} ; {} ; s3 begin ; s3 sel t ; s1 sel t ; s1 {} ; s3 sel t ; s4 begin ; s4 sel t ; s4 commit ; s3 commit",
        old_write, young, end_old
    );
    out.push(finish(format!("hist {} | {}", setup, ops), Family::Clean, &["old_active_young_committed"]));
}

/// two open transactions delete (or update) the same row; every combination of outcomes
fn gen_concurrent_same_row(rng: &mut Rng, out: &mut Vec<Case>) {
    let setup = setup_line("t", 2, false);
    let w = |rng: &mut Rng, s: &str| -> String {
        if rng.chance(2, 3) {
            format!("{} del t where k eq 1", s)
        } else {
            format!("{} upd t v set {} where k eq 1", s, rng.range(50, 59))
        }
    };
    let w1 = w(rng, "s1");
    let w2 = w(rng, "s2");
    let e1 = gen_end(rng);
    let e2 = gen_end(rng);
    let ops = if rng.chance(1, 2) {
        format!("s1 begin ; s2 begin ; {} ; {} ; s1 {} ; s2 sel t ; s2 {} ; db sel t", w1, w2, e1, e2)
    } else {
        format!("s1 begin ; s2 begin ; {} ; {} ; s2 {} ; s1 sel t ; s1 {} ; db sel t", w1, w2, e2, e1)
    };
    out.push(finish(format!("hist {} | {}", setup, ops), Family::ConcurrentWrite, &[]));
}

/// C03 family: rollbacks, drops, failing statements at every position, failing batches, observed by later transactions
fn gen_c03(rng: &mut Rng, out: &mut Vec<Case>) {
    let n_init = rng.range(1, 3);
    let setup = setup_line("u", n_init, false);
    // failing statements (all fail on their FIRST row or at bind time → no partial effect)
    let fails_first: Vec<String> = vec![
        format!("ins u {} 99", rng.range(1, n_init)),            // duplicate key
        "ins u 77 null".into(),                                   // NOT NULL
        "ins u 77 'abc'".into(),                                  // type error
        "ins zz 1 1".into(),                                      // unknown table
        "sel zz".into(),
        "del zz".into(),
        "ins u 77".into(),                                        // arity
        "sel u where q eq 1".into(),                              // unknown column
        format!("ins u {} 5 , 78 6", rng.range(1, n_init)),      // multi-row failing on its first row
    ];
    // failing after the first row: partial effects inside a session (known finding), atomic under autocommit / batch
    let fails_late: Vec<String> = vec![
        format!("ins u 71 1 , 72 2 , {} 3", rng.range(1, n_init)),
        "ins u 71 1 , 72 null".into(),
        "ins u 71 1 , 72 'abc'".into(),
        "ins u 71 1 , 71 2".into(),
    ];
    let ok_stmts = |rng: &mut Rng, ctr: &mut i64| -> String {
        match rng.below(5) {
            0 | 1 => {
                *ctr += 1;
                format!("ins u {} {}", 10 + *ctr, 100 + *ctr)
            }
            2 => {
                *ctr += 2;
                format!("ins u {} {} , {} {}", 10 + *ctr - 1, 100 + *ctr, 10 + *ctr, 101 + *ctr)
            }
            3 => format!("del u where k eq {}", rng.range(1, n_init)),
            _ => "sel u".into(),
        }
    };
    let shape = rng.below(10);
    let mut ctr = 0i64;
    match shape {
        0..=3 => {
            // session with a failing statement at position `fp` of `n`, then commit / rollback / drop, observer before and after
            let n = rng.range(2, 4) as usize;
            let fp = rng.below(n as u64) as usize;
            let late = rng.chance(1, 4);
            let mut ops: Vec<String> = vec!["s2 begin".into(), "s2 sel u".into(), "s1 begin".into()];
            for i in 0..n {
                if i == fp {
                    let f = if late { rng.pick(&fails_late).clone() } else { rng.pick(&fails_first).clone() };
                    ops.push(format!("s1 {}", f));
                    if late && rng.chance(1, 2) {
                        // another transaction takes a key the failed statement had inserted before it failed: the key
                        // must not have stayed in s1's write set (s1's commit is not refused because of it)
                        ops.push("s3 begin ; s3 ins u 71 55 ; s3 commit".into());
                    }
                } else {
                    ops.push(format!("s1 {}", ok_stmts(rng, &mut ctr)));
                }
            }
            ops.push("s1 sel u".into());
            ops.push(format!("s1 {}", gen_end(rng)));
            ops.push("s2 sel u".into());
            ops.push("s2 commit".into());
            ops.push("db sel u".into());
            let mut extra = vec!["c03", "failed_stmt"];
            if late {
                extra.push("failed_stmt_partial");
            }
            out.push(case_of(&setup, &ops, Family::Clean, &extra));
        }
        4 | 5 => {
            // failing autocommit statement / failing batch at every position
            let n = rng.range(2, 4) as usize;
            let fp = rng.below(n as u64) as usize;
            let mut parts: Vec<String> = Vec::new();
            for i in 0..n {
                if i == fp {
                    let f = if rng.chance(1, 2) { rng.pick(&fails_late).clone() } else { rng.pick(&fails_first).clone() };
                    parts.push(f);
                } else {
                    parts.push(ok_stmts(rng, &mut ctr));
                }
            }
            let mut ops: Vec<String> = vec!["s2 begin".into(), "s2 sel u".into()];
            let mut extra = vec!["c03"];
            if shape == 4 {
                ops.push(format!("db batch {}", parts.join(" & ")));
                extra.push("failed_batch");
            } else {
                for p in &parts {
                    ops.push(format!("db {}", p));
                }
                extra.push("failed_auto");
            }
            ops.push("db sel u".into());
            ops.push("s2 sel u".into());
            ops.push("s2 commit".into());
            out.push(case_of(&setup, &ops, Family::Clean, &extra));
        }
        6 | 7 => {
            // rollback / drop of inserts and deletes, then the same rows are written again by a later transaction
            let k = rng.range(1, n_init);
            let end = if rng.chance(1, 2) { "rollback" } else { "drop" };
            let ops: Vec<String> = vec![
                "s1 begin".into(),
                format!("s1 del u where k eq {}", k),
                "s1 ins u 31 310".into(),
                "s1 sel u".into(),
                format!("s1 {}", end),
                "db sel u".into(),
                format!("db sel u where k eq {}", k),
                "s2 begin".into(),
                format!("s2 del u where k eq {}", k),
                "s2 ins u 32 320".into(),
                "s2 sel u".into(),
                format!("s2 {}", gen_end(rng)),
                "db sel u".into(),
                format!("db del u where k eq {}", k),
                "db sel u".into(),
            ];
            out.push(case_of(&setup, &ops, Family::Clean, &["c03", "delete_after_rolled_back_delete"]));
        }
        8 => {
            // rollback of an UPDATE (known finding: pinned by test_session_rollback_updates)
            let k = rng.range(1, n_init);
            let end = if rng.chance(1, 2) { "rollback" } else { "drop" };
            let ops: Vec<String> = vec![
                "s1 begin".into(),
                format!("s1 upd t v {} {} where k eq {}", if rng.chance(1, 2) { "set" } else { "add" }, rng.range(1, 9), k),
                "s1 sel t".into(),
                format!("s1 {}", end),
                "db sel t".into(),
            ];
            out.push(case_of(&setup_line("t", n_init, false), &ops, Family::Update, &["c03", "rollback_update"]));
        }
        _ => {
            // delete + reinsert of the same unique key, rolled back (region finding: the index entry is replaced)
            let k = rng.range(1, n_init);
            let ops: Vec<String> = vec![
                "s1 begin".into(),
                format!("s1 del u where k eq {}", k),
                format!("s1 ins u {} 555", k),
                "s1 sel u".into(),
                format!("s1 {}", if rng.chance(2, 3) { "rollback" } else { "commit" }),
                "db sel u".into(),
                format!("db sel u where k eq {}", k),
            ];
            out.push(case_of(&setup, &ops, Family::Reinsert, &["c03", "reinsert_deleted_unique_key"]));
        }
    }
}

// ------------------------------------------------------------------------------------------------ C07 families
//
// Constraint-heavy histories (selected by AXH_PROP=C07).  One table `u` with a key declared in one of eight ways,
// sequential autocommit statements and session blocks; after every commit `db sel u` shows the committed contents
// (both sides print PROPFAIL when they violate a constraint).  Clean region: no UPDATE of a key column, no two open
// transactions touching the same key, no delete + re-insert of a key inside one transaction, no statement failing
// after its first row inside a session, no open reader while a non-key UPDATE is pending.

struct C07Schema {
    setup_tab: String,       // tab=… (+ con=… placed by the caller)
    con: Option<String>,     // con=… added after or before the rows
    multi: bool,             // key is (a, b) instead of (k)
    key_nullable: bool,      // the key is UNIQUE (NULL allowed), not PRIMARY KEY
    v_not_null: bool,
    tag: &'static str,
}

fn c07_schema(rng: &mut Rng) -> C07Schema {
    match rng.below(10) {
        0 | 1 => C07Schema { setup_tab: "tab=u(k:big*,v:int!)".into(), con: None, multi: false, key_nullable: true, v_not_null: true, tag: "decl_unique_col" },
        2 => C07Schema { setup_tab: "tab=u(k:big,v:int/^k)".into(), con: None, multi: false, key_nullable: false, v_not_null: false, tag: "decl_pk_create" },
        3 => C07Schema { setup_tab: "tab=u(a:big,b:int,v:int/a+b)".into(), con: None, multi: true, key_nullable: true, v_not_null: false, tag: "decl_unique_multi" },
        4 => C07Schema { setup_tab: "tab=u(a:big,b:int,v:int!/^a+b)".into(), con: None, multi: true, key_nullable: false, v_not_null: true, tag: "decl_pk_multi" },
        5 => C07Schema { setup_tab: "tab=u(k:big,v:int)".into(), con: Some("con=u:k".into()), multi: false, key_nullable: true, v_not_null: false, tag: "decl_alter_unique" },
        6 => C07Schema { setup_tab: "tab=u(k:big,v:int)".into(), con: Some("con=u:@k".into()), multi: false, key_nullable: true, v_not_null: false, tag: "decl_unique_index" },
        7 => C07Schema { setup_tab: "tab=u(k:big,v:int)".into(), con: Some("con=u:^k".into()), multi: false, key_nullable: false, v_not_null: false, tag: "decl_alter_pk" },
        8 => C07Schema { setup_tab: "tab=u(a:big,b:int,v:int)".into(), con: Some("con=u:@a+b".into()), multi: true, key_nullable: true, v_not_null: false, tag: "decl_unique_index_multi" },
        _ => C07Schema { setup_tab: "tab=u(k:big*,v:int)".into(), con: Some("con=u:!v".into()), multi: false, key_nullable: true, v_not_null: true, tag: "decl_alter_not_null" },
    }
}

/// key number n as column values: single → `n`; multi → `a b` with a = n / 3 + 1, b = n % 3 + 1
fn c07_key(sc: &C07Schema, n: i64) -> String {
    if sc.multi { format!("{} {}", n / 3 + 1, n % 3 + 1) } else { n.to_string() }
}
fn c07_where(_sc: &C07Schema, n: i64) -> String {
    // rows are addressed through the non-key column v = 100 + n: a predicate on the key column would be answered
    // through the unique index (an access-path question, C06), here every statement scans the table
    format!("where v eq {}", 100 + n)
}
fn c07_row(sc: &C07Schema, n: i64) -> String {
    format!("{} {}", c07_key(sc, n), 100 + n)
}

fn gen_c07(rng: &mut Rng, out: &mut Vec<Case>) {
    let sc = c07_schema(rng);
    let n_init = rng.range(1, 3);
    let mut setup = sc.setup_tab.clone();
    let con_first = rng.chance(1, 2);
    if let (Some(c), true) = (&sc.con, con_first) {
        setup.push_str(&format!(" {}", c));
    }
    for n in 1..=n_init {
        setup.push_str(&format!(" row=u:{}", c07_row(&sc, n).replace(' ', ",")));
    }
    if let (Some(c), false) = (&sc.con, con_first) {
        setup.push_str(&format!(" {}", c));
    }
    let mut live: Vec<i64> = (1..=n_init).collect();
    let mut dead: Vec<i64> = Vec::new();
    let mut next_key = n_init + 1;
    let mut ops: Vec<String> = Vec::new();
    let mut extra: Vec<&str> = vec!["c07", sc.tag];
    // which finding feature (at most one) this case carries
    let feature = match rng.below(100) {
        0..=71 => "",
        72..=79 => "update_unique_col",
        80..=85 => "concurrent_same_key",
        86..=90 => "reinsert_in_txn_rollback",
        91..=93 => "rollback_key_update",
        94..=96 => "key_update_null_or_multi",
        _ => "failed_stmt_partial",
    };
    let n_steps = rng.range(4, 10);
    let feature_at = rng.below(n_steps as u64) as i64;
    for step in 0..n_steps {
        if step == feature_at && !feature.is_empty() {
            match feature {
                "update_unique_col" if !sc.multi && !live.is_empty() => {
                    // update away from a key, then the old key and the new key are inserted
                    let k = *rng.pick(&live);
                    let nk = next_key + 20;
                    ops.push(format!("db upd u k set {} where v eq {}", nk, 100 + k));
                    ops.push("db sel u".into());
                    ops.push(format!("db ins u {} 7", k));
                    ops.push(format!("db ins u {} 8", nk));
                    ops.push("db sel u".into());
                    if rng.chance(1, 2) && live.len() > 1 {
                        // update TO an existing key: must be rejected
                        let other = *live.iter().find(|x| **x != k).unwrap();
                        ops.push(format!("db upd u k set {} where v eq {}", other, 100 + k));
                        ops.push("db sel u".into());
                    }
                    extra.push("update_unique_col");
                }
                "concurrent_same_key" => {
                    let k = next_key;
                    next_key += 1;
                    let e1 = gen_end(rng);
                    let e2 = gen_end(rng);
                    if !sc.multi && !live.is_empty() && rng.chance(1, 4) {
                        // one of the two reaches the key by UPDATE: that key is not in its write set
                        let from = *rng.pick(&live);
                        ops.push(format!(
                            "s1 begin ; s2 begin ; s1 upd u k set {} where v eq {} ; s2 ins u {} ; s1 {} ; db sel u ; s2 {} ; db sel u",
                            k, 100 + from, c07_row(&sc, k), e1, e2
                        ));
                        extra.push("update_unique_col");
                        extra.push("concurrent_key_update");
                    } else {
                        ops.push(format!(
                            "s1 begin ; s2 begin ; s1 ins u {} ; s2 ins u {} ; s1 {} ; db sel u ; s2 {} ; db sel u",
                            c07_row(&sc, k), c07_row(&sc, k), e1, e2
                        ));
                    }
                    extra.push("concurrent_same_key");
                }
                "reinsert_in_txn_rollback" if !live.is_empty() => {
                    let k = *rng.pick(&live);
                    ops.push(format!(
                        "s1 begin ; s1 del u {} ; s1 ins u {} ; s1 sel u ; s1 {} ; db sel u ; db ins u {} ; db sel u",
                        c07_where(&sc, k), c07_row(&sc, k), if rng.chance(2, 3) { "rollback" } else { "commit" }, c07_row(&sc, k)
                    ));
                    extra.push("reinsert_deleted_unique_key");
                }
                "rollback_key_update" if !sc.multi && !live.is_empty() => {
                    let k = *rng.pick(&live);
                    let nk = next_key + 30;
                    ops.push(format!(
                        "s1 begin ; s1 upd u k set {} where v eq {} ; s1 {} ; db sel u ; db ins u {} 5 ; db ins u {} 6 ; db sel u",
                        nk, 100 + k, if rng.chance(1, 2) { "rollback" } else { "drop" }, nk, k
                    ));
                    extra.push("update_unique_col");
                    extra.push("rollback_key_update");
                }
                "key_update_null_or_multi" if sc.key_nullable => {
                    if sc.multi {
                        let k = next_key;
                        next_key += 1;
                        ops.push(format!("db ins u {}", c07_row(&sc, k)));
                        ops.push(format!("db upd u b set 9 where v eq {}", 100 + k));
                        ops.push(format!("db upd u a set 9 where v eq {}", 100 + k));
                    } else {
                        ops.push("db ins u null 55".into());
                        ops.push("db ins u null 56".into());
                        ops.push(format!("db upd u k set {} where v eq 55", next_key + 40));
                        ops.push(format!("db upd u k set {} where v eq 56", next_key + 40));
                    }
                    ops.push("db sel u".into());
                    extra.push("update_unique_col");
                    extra.push("key_update_null_or_multi");
                }
                "failed_stmt_partial" if !live.is_empty() => {
                    let k = *rng.pick(&live);
                    let f = next_key;
                    next_key += 1;
                    ops.push(format!(
                        "s1 begin ; s1 ins u {} , {} ; s1 sel u ; s1 {} ; db sel u",
                        c07_row(&sc, f), c07_row(&sc, k), gen_end(rng)
                    ));
                    extra.push("failed_stmt");
                    extra.push("failed_stmt_partial");
                }
                _ => {}
            }
            continue;
        }
        match rng.below(12) {
            0 | 1 | 2 => {
                // fresh key
                let k = next_key;
                next_key += 1;
                live.push(k);
                ops.push(format!("db ins u {}", c07_row(&sc, k)));
                ops.push("db sel u".into());
            }
            3 | 4 => {
                // duplicate of a live key: rejected
                if let Some(&k) = live.first() {
                    let k = if rng.chance(1, 2) { k } else { *rng.pick(&live) };
                    ops.push(format!("db ins u {} 7", c07_key(&sc, k)));
                    ops.push("db sel u".into());
                    extra.push("dup_key_insert");
                }
            }
            5 => {
                // delete, later maybe re-inserted by another transaction
                if !live.is_empty() {
                    let k = *rng.pick(&live);
                    live.retain(|x| *x != k);
                    dead.push(k);
                    ops.push(format!("db del u {}", c07_where(&sc, k)));
                    ops.push("db sel u".into());
                }
            }
            6 => {
                // re-insert of a key deleted by an earlier, committed transaction
                if !dead.is_empty() {
                    let k = dead.remove(0);
                    live.push(k);
                    ops.push(format!("db ins u {}", c07_row(&sc, k)));
                    ops.push("db sel u".into());
                    extra.push("reinsert_after_committed_delete");
                }
            }
            7 => {
                // NULL: in the key (allowed for UNIQUE, refused for PRIMARY KEY), or in a NOT NULL column
                if rng.chance(1, 2) {
                    if sc.multi {
                        ops.push("db ins u 1 null 77".into());
                        ops.push("db ins u 1 null 78".into());
                    } else {
                        ops.push("db ins u null 77".into());
                        ops.push("db ins u null 78".into());
                    }
                    extra.push("null_in_key");
                } else {
                    let k = next_key;
                    next_key += 1;
                    ops.push(format!("db ins u {} null", c07_key(&sc, k)));
                    if !sc.v_not_null {
                        live.push(k);
                    }
                    extra.push("null_in_value");
                }
                ops.push("db sel u".into());
            }
            8 => {
                // non-key update, autocommit (NOT NULL violation when set to null)
                if !live.is_empty() && !sc.multi {
                    let k = *rng.pick(&live);
                    if rng.chance(1, 3) && sc.v_not_null {
                        ops.push(format!("db upd u v set null where v eq {}", 100 + k));
                    } else {
                        // same value again: a new version of the row, the contents stay addressable by v
                        ops.push(format!("db upd u v set {} where v eq {}", 100 + k, 100 + k));
                    }
                    ops.push("db sel u".into());
                    extra.push("nonkey_update");
                }
            }
            9 | 10 => {
                // a session: inserts and deletes of keys nobody else touches, then commit / rollback / drop
                let k1 = next_key;
                let k2 = next_key + 1;
                next_key += 2;
                let end = gen_end(rng);
                let mut blk = format!("s1 begin ; s1 ins u {} ; s1 ins u {}", c07_row(&sc, k1), c07_row(&sc, k2));
                let mut deleted = None;
                if !live.is_empty() && rng.chance(1, 2) {
                    let k = *rng.pick(&live);
                    blk.push_str(&format!(" ; s1 del u {}", c07_where(&sc, k)));
                    deleted = Some(k);
                }
                if rng.chance(1, 2) {
                    // duplicate of its own insert: rejected (first row → no partial effect)
                    blk.push_str(&format!(" ; s1 ins u {} 9", c07_key(&sc, k1)));
                }
                blk.push_str(&format!(" ; s1 sel u ; s1 {}", end));
                ops.push(blk);
                ops.push("db sel u".into());
                if end == "commit" {
                    live.push(k1);
                    live.push(k2);
                    if let Some(k) = deleted {
                        live.retain(|x| *x != k);
                        dead.push(k);
                    }
                }
                extra.push("session_block");
            }
            _ => {
                // batch: two fresh keys, sometimes ending in a duplicate (whole batch refused)
                let k1 = next_key;
                let k2 = next_key + 1;
                next_key += 2;
                if rng.chance(1, 2) && !live.is_empty() {
                    ops.push(format!("db batch ins u {} & ins u {} & ins u {} 9", c07_row(&sc, k1), c07_row(&sc, k2), c07_key(&sc, live[0])));
                } else {
                    ops.push(format!("db batch ins u {} & ins u {}", c07_row(&sc, k1), c07_row(&sc, k2)));
                    live.push(k1);
                    live.push(k2);
                }
                ops.push("db sel u".into());
            }
        }
    }
    let line = format!("hist {} | {}", setup, ops.join(" ; "));
    let mut c = finish(line, Family::Clean, &extra);
    // C07's feature → known-finding tag (the generic analysis of `finish` does not know the index features)
    let kf = if extra.contains(&"reinsert_deleted_unique_key") {
        Some("kf:reinsert_deleted_unique_key")
    } else if extra.contains(&"update_unique_col") {
        Some("kf:update_unique_col")
    } else {
        None
    };
    c.tags.retain(|t| t != "clean" && !t.starts_with("kf:") && t != "kf2" && t != "nt");
    match kf {
        Some(k) => c.tags.push(k.to_string()),
        // autocommit updates of a non-key column with no transaction open behave as specified
        None => c.tags.push("clean".to_string()),
    }
    // non-trivial for C07: some statement or commit has to be decided by a constraint
    if extra.iter().any(|e| {
        matches!(*e, "dup_key_insert" | "null_in_key" | "null_in_value" | "update_unique_col" | "concurrent_same_key"
            | "reinsert_deleted_unique_key" | "reinsert_after_committed_delete" | "failed_stmt" | "session_block")
    }) {
        c.tags.push("nt".to_string());
    }
    out.push(c);
}

/// A table with TWO unique keys (two UNIQUE columns at CREATE TABLE, two CREATE UNIQUE INDEX, or a multi-column UNIQUE
/// plus a unique index), rows that carry NULL in one key and a value in the other — several, NULL on either side: the
/// order in which the code visits the indexes of a table changes from statement to statement — and then, for every
/// such row, an INSERT that repeats its non-NULL key value (must be refused: a NULL in one key must not keep the row
/// out of the other key's index).  Clean region.
fn gen_c07_two_keys(rng: &mut Rng, out: &mut Vec<Case>) {
    // columns a, b (keys), v (row marker, v = 100 + n)
    let (setup_tab, cons, tag): (&str, &[&str], &str) = match rng.below(4) {
        0 => ("tab=u(a:big*,b:int*,v:int)", &[], "two_unique_cols"),
        1 => ("tab=u(a:big,b:int,v:int)", &["con=u:@a", "con=u:@b"], "two_unique_indexes"),
        2 => ("tab=u(a:big*,b:int,v:int)", &["con=u:b"], "unique_col_and_alter_unique"),
        _ => ("tab=u(a:big,b:int,v:int)", &["con=u:a", "con=u:@b"], "alter_unique_and_unique_index"),
    };
    let mut setup = setup_tab.to_string();
    for c in cons {
        setup.push_str(&format!(" {}", c));
    }
    let mut ops: Vec<String> = Vec::new();
    let n_rows = rng.range(4, 8);
    // (n, null_in_a): row n has a = n (or NULL), b = 50 + n (or NULL)
    let mut rows: Vec<(i64, u64)> = Vec::new();
    for n in 1..=n_rows {
        let shape = rng.below(5); // 0,1: NULL in a   2,3: NULL in b   4: no NULL
        let a = if shape <= 1 { "null".to_string() } else { n.to_string() };
        let b = if shape == 2 || shape == 3 { "null".to_string() } else { (50 + n).to_string() };
        let stmt = format!("ins u {} {} {}", a, b, 100 + n);
        match rng.below(4) {
            0 => ops.push(format!("s1 begin ; s1 {} ; s1 commit", stmt)),
            _ => ops.push(format!("db {}", stmt)),
        }
        rows.push((n, shape));
    }
    ops.push("db sel u".into());
    // repeat every non-NULL key value once, the other key fresh or NULL
    let mut fresh = 20;
    for (n, shape) in &rows {
        fresh += 1;
        if *shape > 1 {
            // a = n is taken
            let other = if rng.chance(1, 2) { "null".to_string() } else { (70 + fresh).to_string() };
            ops.push(format!("db ins u {} {} {}", n, other, 200 + fresh));
        }
        if *shape <= 1 || *shape == 4 {
            let other = if rng.chance(1, 2) { "null".to_string() } else { fresh.to_string() };
            ops.push(format!("db ins u {} {} {}", other, 50 + n, 300 + fresh));
        }
    }
    ops.push("db sel u".into());
    if rng.chance(1, 3) {
        // a row whose keys are both NULL twice, and a fresh row: accepted
        ops.push("db ins u null null 401 ; db ins u null null 402 ; db ins u 41 91 403 ; db sel u".into());
    }
    let line = format!("hist {} | {}", setup, ops.join(" ; "));
    let mut c = finish(line, Family::Clean, &["c07", "two_keys", tag, "null_in_key", "dup_key_insert"]);
    c.tags.retain(|t| t != "clean" && !t.starts_with("kf:") && t != "kf2" && t != "nt");
    c.tags.push("clean".to_string());
    c.tags.push("nt".to_string());
    out.push(c);
}

/// A row R that transaction T1 has updated is re-written by a later multi-row UPDATE of T1 that fails on a LATER row (a
/// UNIQUE violation: `k add 3` walks rows 1, 2, … and runs into the row with key m + 3) — the statement is undone, T1
/// stays open, R stays in T1's write set because of the earlier UPDATE.  A concurrent T2 updates or deletes R (before
/// or after the failing statement) and commits first: T1's commit must be refused.  Variants: R rewritten alone or
/// among others, the earlier UPDATE single- or multi-row, T1 committing first (then T2 is refused), and a control
/// without the earlier UPDATE (T1 commits).  Updates inside sessions: exact through flag updateKeepsInserterXmin.
fn gen_rewrite_then_failed_stmt(rng: &mut Rng, out: &mut Vec<Case>) {
    let m = rng.range(2, 4); // rows 1..m and the blocker m + 3; `k add 3` rewrites rows 1..m-1 and fails on row m
    let mut setup = "tab=u(k:big*,v:int,w:int)".to_string();
    for i in 1..=m {
        setup.push_str(&format!(" row=u:{},{},{}", i, 10 * i, 100 * i));
    }
    setup.push_str(&format!(" row=u:{},{},{}", m + 3, 10 * (m + 3), 100 * (m + 3)));
    let r = rng.range(1, m - 1); // R is one of the rows the failing statement rewrites
    let control = rng.chance(1, 6);
    let mut ops: Vec<String> = vec![];
    if rng.chance(1, 2) {
        ops.push("s1 begin ; s2 begin".into());
    } else {
        ops.push("s2 begin ; s1 begin".into());
    }
    // (1) the earlier, successful UPDATE of R
    if !control {
        if rng.chance(1, 2) {
            ops.push(format!("s1 upd u v set {} where w eq {}", 1000 + r, 100 * r));
        } else {
            ops.push(format!("s1 upd u v add 1 where w le {}", 100 * rng.range(r, m)));
        }
    }
    let t2 = if rng.chance(1, 2) {
        format!("s2 upd u v set {} where w eq {}", 2000 + r, 100 * r)
    } else {
        format!("s2 del u where w eq {}", 100 * r)
    };
    let t2_first = rng.chance(1, 2);
    if t2_first {
        ops.push(t2.clone());
    }
    // (2) the statement that rewrites R again and fails on a later row
    ops.push(format!("s1 upd u k add 3 where w le {}", 100 * m));
    if rng.chance(1, 2) {
        ops.push("s1 sel u".into());
    }
    if !t2_first {
        ops.push(t2);
    }
    if rng.chance(1, 3) {
        // T1 goes on working elsewhere
        ops.push(format!("s1 ins u {} 1 {}", 50 + m, 5000 + m));
    }
    // (3) (4) the commits
    if rng.chance(4, 5) {
        ops.push("s2 commit ; db sel u ; s1 commit ; db sel u".into());
    } else {
        ops.push("s1 commit ; db sel u ; s2 commit ; db sel u".into());
    }
    let mut extra = vec!["c03", "c04", "failed_stmt", "failed_stmt_partial", "rewrite_then_failed_stmt"];
    if control {
        extra.push("rewrite_then_failed_stmt_control");
    }
    let mut c = case_of(&setup, &ops, Family::Clean, &extra);
    if !c.tags.iter().any(|t| t == "nt") {
        c.tags.push("nt".into());
    }
    out.push(c);
}

/// `concurrent_same_key` on a key K that a ROLLED-BACK transaction inserted before (explicit rollback, dropped session,
/// failing batch, multi-row INSERT failing on a later row — no VACUUM since): its index entry is still there and the
/// next inserter takes it over.  Two sessions open at once both INSERT K (either order of begin / insert / commit,
/// sometimes one of them or a third reader began before the rollback), all nine ways of declaring the key, single- and
/// multi-column.  The specification refuses the second committer.  A final probe of K only where the committed row is
/// the one that holds the index entry (the other order is finding indexOneEntryPerKey).  Clean region.
fn gen_c07_leftover_concurrent(rng: &mut Rng, out: &mut Vec<Case>) {
    let sc = c07_schema(rng);
    let n_init = rng.range(1, 3);
    let mut setup = sc.setup_tab.clone();
    let con_first = rng.chance(1, 2);
    if let (Some(c), true) = (&sc.con, con_first) {
        setup.push_str(&format!(" {}", c));
    }
    for n in 1..=n_init {
        setup.push_str(&format!(" row=u:{}", c07_row(&sc, n).replace(' ', ",")));
    }
    if let (Some(c), false) = (&sc.con, con_first) {
        setup.push_str(&format!(" {}", c));
    }
    let k = n_init + 1 + rng.range(0, 2);
    let key = c07_key(&sc, k);
    let mut ops: Vec<String> = Vec::new();
    let mut extra: Vec<&str> = vec!["c07", sc.tag, "leftover_concurrent_same_key", "concurrent_same_key"];
    // a session that began before the leftover's transaction ended does not have it in its aborted set
    let early_reader = rng.chance(1, 4);
    let early_writer = rng.chance(1, 5);
    if early_reader {
        ops.push("s3 begin ; s3 sel u".into());
    }
    if early_writer {
        ops.push("s2 begin".into());
    }
    // (1) the leftover
    match rng.below(5) {
        0 | 1 => {
            ops.push(format!("s4 begin ; s4 ins u {} 500 ; s4 sel u ; s4 rollback", key));
            extra.push("leftover_rollback");
        }
        2 => {
            ops.push(format!("s4 begin ; s4 ins u {} 500 ; s4 drop", key));
            extra.push("leftover_session_drop");
        }
        3 => {
            ops.push(format!("db batch ins u {} 500 & ins u {} 501", key, c07_key(&sc, 1)));
            extra.push("leftover_failed_batch");
        }
        _ => {
            ops.push(format!("db ins u {} 500 , {} 501", key, c07_key(&sc, 1)));
            extra.push("leftover_failed_stmt");
        }
    }
    if rng.chance(1, 3) {
        ops.push("db sel u".into());
    }
    // (2) two open transactions insert K
    if rng.chance(1, 2) {
        ops.push("s1 begin".into());
        if !early_writer {
            ops.push("s2 begin".into());
        }
    } else {
        if !early_writer {
            ops.push("s2 begin".into());
        }
        ops.push("s1 begin".into());
    }
    if !early_reader && rng.chance(1, 4) {
        ops.push("s3 begin".into());
    }
    let has_reader = early_reader || ops.iter().any(|o| o == "s3 begin");
    let (first, second) = if rng.chance(1, 2) { ("s1", "s2") } else { ("s2", "s1") };
    ops.push(format!("{} ins u {} 601", first, key));
    if has_reader && rng.chance(1, 2) {
        ops.push("s3 sel u".into());
    }
    ops.push(format!("{} ins u {} 602", second, key));
    if rng.chance(1, 3) {
        ops.push(format!("{} sel u ; {} sel u", first, second));
    }
    // (3) both end
    let first_commits_first = rng.chance(1, 2);
    let (e1, e2) = (gen_end(rng), gen_end(rng));
    let (a, ea, b, eb) = if first_commits_first { (first, e1, second, e2) } else { (second, e2, first, e1) };
    ops.push(format!("{} {} ; db sel u", a, ea));
    if has_reader {
        ops.push("s3 sel u".into());
    }
    ops.push(format!("{} {} ; db sel u", b, eb));
    if has_reader {
        ops.push("s3 sel u ; s3 commit".into());
    }
    // (4) the key is taken exactly when one of them committed; probed only where the index entry is the committed row's
    let holder_is_first = !(early_writer && first == "s2"); // an early writer does not take the leftover entry over
    if holder_is_first && first_commits_first && e1 == "commit" {
        ops.push(format!("db ins u {} 700 ; db sel u", key));
        extra.push("dup_key_insert");
    }
    let line = format!("hist {} | {}", setup, ops.join(" ; "));
    let mut c = finish(line, Family::Clean, &extra);
    c.tags.retain(|t| t != "clean" && !t.starts_with("kf:") && t != "kf2" && t != "nt");
    c.tags.push("clean".to_string());
    c.tags.push("nt".to_string());
    out.push(c);
}

impl Engine for HistEngine {
    fn gen_cases(&self, rng: &mut Rng, tier: Tier) -> Vec<Case> {
        let mut out = Vec::new();
        let quick = tier == Tier::Quick;
        if std::env::var("AXH_PROP").as_deref() == Ok("C07") {
            for _ in 0..(if quick { 1500 } else { 15000 }) {
                gen_c07(rng, &mut out);
            }
            for _ in 0..(if quick { 60 } else { 600 }) {
                gen_c07_two_keys(rng, &mut out);
            }
            for _ in 0..(if quick { 120 } else { 1200 }) {
                gen_c07_leftover_concurrent(rng, &mut out);
            }
            return out;
        }
        // (1) program pairs, all interleavings when there are at most 20, else 20 sampled ones
        for _ in 0..(if quick { 40 } else { 150 }) {
            let n = rng.range(1, 2) as usize;
            gen_interleaved(rng, 2, n, Some(20), &mut out);
        }
        // (2) thorough: triples of (begin, statement, end) programs, all 1680 interleavings
        if !quick {
            for _ in 0..20 {
                gen_interleaved(rng, 3, 1, None, &mut out);
            }
        }
        // (3) random histories of 3–4 sessions with 1–3 statements each
        for _ in 0..(if quick { 300 } else { 3000 }) {
            let nsess = rng.range(3, 4) as usize;
            gen_interleaved(rng, nsess, 0, Some(1), &mut out);
        }
        // (3b) old open transaction below the last committed id; concurrent writers of one row
        for _ in 0..(if quick { 120 } else { 1200 }) {
            gen_old_active(rng, &mut out);
        }
        for _ in 0..(if quick { 40 } else { 400 }) {
            gen_concurrent_same_row(rng, &mut out);
        }
        for _ in 0..(if quick { 80 } else { 800 }) {
            gen_rewrite_then_failed_stmt(rng, &mut out);
        }
        // (4) database birth
        for _ in 0..(if quick { 12 } else { 60 }) {
            gen_fresh(rng, &mut out);
        }
        // (5) C03: rollback / drop / failing statements / failing batches
        for _ in 0..(if quick { 400 } else { 4000 }) {
            gen_c03(rng, &mut out);
        }
        out
    }
    fn exec(&mut self, line: &str) -> String {
        run_case(line)
    }
    /// one case creates a database (O_DIRECT files, fsync): generous time-out so that an I/O stall of the machine
    /// (seen once: all 8 workers stalled > 20 s at the same moment while other builds were running) is not taken for a hang
    fn timeout_ms(&self) -> u64 {
        120_000
    }
}

/// Content of `lean/AxVerif/Generated/<Engine>.lean`, if this engine extracts constants from the code.
pub fn generated() -> Option<(&'static str, String)> {
    None
}
