//! An engine = a generator of case lines + an executor that runs one case line against the real code.
use crate::rng::Rng;

pub mod btree;
pub mod cache;
pub mod crash;
pub mod ddl;
pub mod fuzz;
pub mod hist;
pub mod pager;
pub mod parse;
pub mod plan;
pub mod pool;
pub mod reopen;
pub mod sql;
pub mod threads;
pub mod tuple;
pub mod value;
pub mod vacuum;
pub mod wal;
pub mod wire;

#[derive(Clone, Copy, PartialEq, Eq, Debug)]
pub enum Tier {
    Quick,
    Thorough,
}

pub struct Case {
    pub line: String,
    /// free-form coverage tags; the tag `nt` marks a case that is non-trivial by the engine's stated rule
    pub tags: Vec<String>,
}

impl Case {
    pub fn new(line: String, tags: &[&str]) -> Case {
        Case { line, tags: tags.iter().map(|s| s.to_string()).collect() }
    }
}

pub trait Engine {
    fn gen_cases(&self, rng: &mut Rng, tier: Tier) -> Vec<Case>;
    /// Runs one case on the implementation. Must be deterministic and canonicalised.
    fn exec(&mut self, line: &str) -> String;
    /// address-space limit for the child that executes the cases
    fn rlimit_as_mb(&self) -> Option<u64> {
        None
    }
    fn timeout_ms(&self) -> u64 {
        20_000
    }
}

pub fn get(name: &str) -> Option<Box<dyn Engine>> {
    match name {
        "btree" => Some(Box::new(btree::BtreeEngine)),
        "cache" => Some(Box::new(cache::CacheEngine)),
        "crash" => Some(Box::new(crash::CrashEngine)),
        "fuzz" => Some(Box::new(fuzz::FuzzEngine)),
        "hist" => Some(Box::new(hist::HistEngine)),
        "pager" => Some(Box::new(pager::PagerEngine)),
        "parse" => Some(Box::new(parse::ParseEngine)),
        "plan" => Some(Box::new(plan::PlanEngine)),
        "pool" => Some(Box::new(pool::PoolEngine)),
        "sql" => Some(Box::new(sql::SqlEngine)),
        "threads" => Some(Box::new(threads::ThreadsEngine)),
        "tuple" => Some(Box::new(tuple::TupleEngine)),
        "value" => Some(Box::new(value::ValueEngine)),
        "wal" => Some(Box::new(wal::WalEngine)),
        "wire" => Some(Box::new(wire::WireEngine)),
        "vacuum" => Some(Box::new(vacuum::VacuumEngine)),
        "reopen" => Some(Box::new(reopen::ReopenEngine)),
        "ddl" => Some(Box::new(ddl::DdlEngine)),
        _ => None,
    }
}

/// (file name under lean/AxVerif/Generated, content) for every engine that extracts constants.
pub fn all_generated() -> Vec<(&'static str, String)> {
    [
        btree::generated(),
        cache::generated(),
        crash::generated(),
        fuzz::generated(),
        hist::generated(),
        pager::generated(),
        parse::generated(),
        plan::generated(),
        pool::generated(),
        sql::generated(),
        threads::generated(),
        tuple::generated(),
        value::generated(),
        wal::generated(),
        wire::generated(),
        vacuum::generated(),
        reopen::generated(),
        ddl::generated(),
    ]
    .into_iter()
    .flatten()
    .collect()
}
