//! An engine = a generator of case lines + an executor that runs one case line against the real code.
use crate::rng::Rng;

pub mod wire;

#[derive(Clone, Copy, PartialEq, Eq, Debug)]
pub enum Tier {
    Quick,
    Thorough,
}

pub struct Case {
    pub line: String,
    /// free-form coverage tags; the tag `nt` marks a case that is non-trivial by the engine's stated rule
    pub tags: Vec<String>,
}

impl Case {
    pub fn new(line: String, tags: &[&str]) -> Case {
        Case { line, tags: tags.iter().map(|s| s.to_string()).collect() }
    }
}

pub trait Engine {
    fn gen_cases(&self, rng: &mut Rng, tier: Tier) -> Vec<Case>;
    /// Runs one case on the implementation. Must be deterministic and canonicalised.
    fn exec(&mut self, line: &str) -> String;
    /// address-space limit for the child that executes the cases
    fn rlimit_as_mb(&self) -> Option<u64> {
        None
    }
    fn timeout_ms(&self) -> u64 {
        20_000
    }
}

pub fn get(name: &str) -> Option<Box<dyn Engine>> {
    match name {
        "wire" => Some(Box::new(wire::WireEngine)),
        _ => None,
    }
}
