//! Engine `fuzz` (C16): arbitrary strings and hostile statements through the public API
//! (`Database::execute` / `Session::execute`) of a small pre-populated database.
//!
//! Case (one self-contained sequence per line):
//!     `fz <mode> <pool> <schema> | op ; op ; …`
//!   mode   = `db` (every statement through `Database::execute`, autocommit) | `sess` (through one `Session`)
//!   pool   = pool size of the database (1..8)
//!   schema = `t1:id.I,a.i,b.t/t2:…`  tables `/`-separated, columns `name.type`, types i=INT I=BIGINT u=UINT U=BIGUINT
//!            f=FLOAT d=DOUBLE t=TEXT b=BOOLEAN; every table is created and given `ROWS_PER_TABLE` rows
//!   op     = `x:<hex>`      a string offered as SQL (bytes, lossily decoded)
//!          | `q:<tokens>`   a well-formed statement of the small grammar below (comma-separated prefix tokens)
//!
//! Per op the engine runs the statement, notes any panic in any thread (`panic@file:line`), then checks that a probe
//! `SELECT` on the same database (and session) still answers and that, when the statement failed, a dump of all
//! tables is unchanged.  Output: one word per op — `ok-or-error` (the call returned a result or an error and the
//! checks passed), or the outcome class `rows|count|ddl|error` for a `q` op whose class the Lean model predicts —
//! or, as soon as something is wrong, `PROPFAIL <what> op=<k> …`.
use super::pool::scratch_dir;
use super::{Case, Engine, Tier};
use crate::rng::Rng;
use crate::util::{hex_or_dash, unhex};
use axmosdb::runtime::QueryResult;
use axmosdb::tcp::session::Session;
use axmosdb::{DBConfig, Database};
use std::collections::hash_map::DefaultHasher;
use std::hash::{Hash, Hasher};
use std::sync::{Mutex, Once};

pub struct FuzzEngine;

pub const ROWS_PER_TABLE: i64 = 3;
const PROBE_TABLE: &str = "zz_probe";
/// names (besides the schema's tables) whose presence/content is part of the state dump
const EXTRA_TABLES: [&str; 3] = ["t9", "nt", "tmp"];

// ------------------------------------------------------------------------------------------------ panic capture

static PANICS: Mutex<Vec<String>> = Mutex::new(Vec::new());
static HOOK: Once = Once::new();

fn install_hook() {
    HOOK.call_once(|| {
        let prev = std::panic::take_hook();
        std::panic::set_hook(Box::new(move |info| {
            let loc = info
                .location()
                .map(|l| {
                    let f = l.file();
                    let f = f.rsplit_once("/src/").map(|x| x.1).unwrap_or(f);
                    format!("{}:{}", f, l.line())
                })
                .unwrap_or_else(|| "?".into());
            if let Ok(mut p) = PANICS.lock() {
                p.push(loc);
            }
            prev(info);
        }));
    });
}

fn take_panics() -> Vec<String> {
    PANICS.lock().map(|mut p| std::mem::take(&mut *p)).unwrap_or_default()
}

// ------------------------------------------------------------------------------------------------ grammar

#[derive(Clone, Debug, PartialEq)]
pub enum E {
    Col(String),
    Int(i64),
    Str(Vec<u8>),
    /// value = n / 2, printed `k.0` or `k.5`
    Dbl(i64),
    Null,
    Bool(bool),
    Bin(&'static str, Box<E>, Box<E>),
    Un(&'static str, Box<E>),
    Fn(String, Vec<E>),
    Agg(String, Box<E>),
    CountStar,
    /// (when, then)*, else
    Case(Vec<(E, E)>, Option<Box<E>>),
    Between(bool, Box<E>, Box<E>, Box<E>),
    In(bool, Box<E>, Vec<E>),
    Exists(String),
    InSub(String, String, Box<E>),
    SSub(String, String),
}

#[derive(Clone, Debug, PartialEq)]
pub enum Q {
    Sel { tbl: String, items: Vec<E>, wh: Option<E>, group: Option<String>, having: Option<E>, order: Option<String>, limit: Option<u32> },
    Ins { tbl: String, vals: Vec<E> },
    Upd { tbl: String, col: String, val: E, wh: Option<E> },
    Del { tbl: String, wh: Option<E> },
}

const BINOPS: [(&str, &str); 16] = [
    ("add", "+"), ("sub", "-"), ("mul", "*"), ("div", "/"), ("mod", "%"), ("eq", "="), ("ne", "!="), ("lt", "<"),
    ("le", "<="), ("gt", ">"), ("ge", ">="), ("and", "AND"), ("or", "OR"), ("cat", "||"), ("like", "LIKE"),
    ("nlike", "NOT LIKE"),
];
const UNOPS: [&str; 4] = ["not", "neg", "isnull", "notnull"];

fn is_name(s: &str) -> bool {
    let b = s.as_bytes();
    !b.is_empty()
        && b.len() <= 20
        && (b[0].is_ascii_lowercase() || b[0] == b'_')
        && b.iter().all(|c| c.is_ascii_lowercase() || c.is_ascii_digit() || *c == b'_')
}
fn is_upper(s: &str) -> bool {
    !s.is_empty() && s.len() <= 20 && s.bytes().all(|c| c.is_ascii_uppercase())
}
fn parse_int(s: &str) -> Option<i64> {
    let d = s.strip_prefix('-').unwrap_or(s);
    if d.is_empty() || d.len() > 19 || !d.bytes().all(|c| c.is_ascii_digit()) {
        return None;
    }
    s.parse().ok()
}
fn parse_small(s: &str) -> Option<usize> {
    if s.is_empty() || s.len() > 3 || !s.bytes().all(|c| c.is_ascii_digit()) {
        return None;
    }
    s.parse().ok()
}

struct Toks<'a> {
    t: Vec<&'a str>,
    i: usize,
}
impl<'a> Toks<'a> {
    fn next(&mut self) -> Option<&'a str> {
        let r = self.t.get(self.i).copied();
        self.i += 1;
        r
    }
}

fn parse_e(ts: &mut Toks, depth: usize) -> Option<E> {
    if depth > 64 {
        return None;
    }
    let t = ts.next()?;
    if let Some((_, _)) = BINOPS.iter().find(|(n, _)| *n == t) {
        let name = BINOPS.iter().find(|(n, _)| *n == t).unwrap().0;
        let a = parse_e(ts, depth + 1)?;
        let b = parse_e(ts, depth + 1)?;
        return Some(E::Bin(name, Box::new(a), Box::new(b)));
    }
    if let Some(name) = UNOPS.iter().find(|n| **n == t) {
        let a = parse_e(ts, depth + 1)?;
        return Some(E::Un(name, Box::new(a)));
    }
    match t {
        "n" => return Some(E::Null),
        "t" => return Some(E::Bool(true)),
        "f" => return Some(E::Bool(false)),
        "cntstar" => return Some(E::CountStar),
        "btw" | "nbtw" => {
            let a = parse_e(ts, depth + 1)?;
            let b = parse_e(ts, depth + 1)?;
            let c = parse_e(ts, depth + 1)?;
            return Some(E::Between(t == "nbtw", Box::new(a), Box::new(b), Box::new(c)));
        }
        _ => {}
    }
    let parts: Vec<&str> = t.split('.').collect();
    match parts.as_slice() {
        ["c", n] if is_name(n) => Some(E::Col(n.to_string())),
        ["i", v] => parse_int(v).map(E::Int),
        ["d", v] => parse_int(v).map(E::Dbl),
        ["s", h] => unhex(h).map(E::Str),
        ["fn", name, k] if is_upper(name) => {
            let k = parse_small(k)?;
            let mut args = Vec::new();
            for _ in 0..k {
                args.push(parse_e(ts, depth + 1)?);
            }
            Some(E::Fn(name.to_string(), args))
        }
        ["agg", name] if is_upper(name) => Some(E::Agg(name.to_string(), Box::new(parse_e(ts, depth + 1)?))),
        ["case", k] | ["casex", k] => {
            let k = parse_small(k)?;
            let mut arms = Vec::new();
            for _ in 0..k {
                let w = parse_e(ts, depth + 1)?;
                let th = parse_e(ts, depth + 1)?;
                arms.push((w, th));
            }
            let els = if parts[0] == "case" { Some(Box::new(parse_e(ts, depth + 1)?)) } else { None };
            Some(E::Case(arms, els))
        }
        ["in", k] | ["nin", k] => {
            let k = parse_small(k)?;
            let a = parse_e(ts, depth + 1)?;
            let mut xs = Vec::new();
            for _ in 0..k {
                xs.push(parse_e(ts, depth + 1)?);
            }
            Some(E::In(parts[0] == "nin", Box::new(a), xs))
        }
        ["ex", tb] if is_name(tb) => Some(E::Exists(tb.to_string())),
        ["insub", tb, c] if is_name(tb) && is_name(c) => {
            Some(E::InSub(tb.to_string(), c.to_string(), Box::new(parse_e(ts, depth + 1)?)))
        }
        ["ssub", tb, c] if is_name(tb) && is_name(c) => Some(E::SSub(tb.to_string(), c.to_string())),
        _ => None,
    }
}

fn parse_where(ts: &mut Toks) -> Option<Option<E>> {
    match ts.next()? {
        "nw" => Some(None),
        "w" => Some(Some(parse_e(ts, 0)?)),
        _ => None,
    }
}

pub fn parse_q(s: &str) -> Option<Q> {
    let mut ts = Toks { t: s.split(',').collect(), i: 0 };
    let q = match ts.next()? {
        "sel" => {
            let tbl = ts.next().filter(|n| is_name(n))?.to_string();
            let k = parse_small(ts.next()?)?;
            if k == 0 {
                return None;
            }
            let mut items = Vec::new();
            for _ in 0..k {
                items.push(parse_e(&mut ts, 0)?);
            }
            let wh = parse_where(&mut ts)?;
            let group = match ts.next()? {
                "ng" => None,
                g => Some(g.strip_prefix("g.").filter(|n| is_name(n))?.to_string()),
            };
            let having = match ts.next()? {
                "nh" => None,
                "h" => Some(parse_e(&mut ts, 0)?),
                _ => return None,
            };
            let order = match ts.next()? {
                "no" => None,
                o => Some(o.strip_prefix("o.").filter(|n| is_name(n))?.to_string()),
            };
            let limit = match ts.next()? {
                "nl" => None,
                l => Some(parse_small(l.strip_prefix("l.")?)? as u32),
            };
            Q::Sel { tbl, items, wh, group, having, order, limit }
        }
        "ins" => {
            let tbl = ts.next().filter(|n| is_name(n))?.to_string();
            let k = parse_small(ts.next()?)?;
            if k == 0 {
                return None;
            }
            let mut vals = Vec::new();
            for _ in 0..k {
                vals.push(parse_e(&mut ts, 0)?);
            }
            Q::Ins { tbl, vals }
        }
        "upd" => {
            let tbl = ts.next().filter(|n| is_name(n))?.to_string();
            let col = ts.next().filter(|n| is_name(n))?.to_string();
            let val = parse_e(&mut ts, 0)?;
            let wh = parse_where(&mut ts)?;
            Q::Upd { tbl, col, val, wh }
        }
        "del" => {
            let tbl = ts.next().filter(|n| is_name(n))?.to_string();
            let wh = parse_where(&mut ts)?;
            Q::Del { tbl, wh }
        }
        _ => return None,
    };
    if ts.i != ts.t.len() {
        return None;
    }
    Some(q)
}

// ---- printing: tokens (for the case line) and SQL (for the database)

fn tok_e(e: &E, out: &mut Vec<String>) {
    match e {
        E::Col(n) => out.push(format!("c.{n}")),
        E::Int(v) => out.push(format!("i.{v}")),
        E::Dbl(v) => out.push(format!("d.{v}")),
        E::Str(b) => out.push(format!("s.{}", hex_or_dash(b))),
        E::Null => out.push("n".into()),
        E::Bool(b) => out.push(if *b { "t" } else { "f" }.into()),
        E::Bin(op, a, b) => {
            out.push(op.to_string());
            tok_e(a, out);
            tok_e(b, out);
        }
        E::Un(op, a) => {
            out.push(op.to_string());
            tok_e(a, out);
        }
        E::Fn(n, args) => {
            out.push(format!("fn.{}.{}", n, args.len()));
            for a in args {
                tok_e(a, out);
            }
        }
        E::Agg(n, a) => {
            out.push(format!("agg.{n}"));
            tok_e(a, out);
        }
        E::CountStar => out.push("cntstar".into()),
        E::Case(arms, els) => {
            out.push(format!("{}.{}", if els.is_some() { "case" } else { "casex" }, arms.len()));
            for (w, t) in arms {
                tok_e(w, out);
                tok_e(t, out);
            }
            if let Some(e) = els {
                tok_e(e, out);
            }
        }
        E::Between(neg, a, b, c) => {
            out.push(if *neg { "nbtw" } else { "btw" }.into());
            tok_e(a, out);
            tok_e(b, out);
            tok_e(c, out);
        }
        E::In(neg, a, xs) => {
            out.push(format!("{}.{}", if *neg { "nin" } else { "in" }, xs.len()));
            tok_e(a, out);
            for x in xs {
                tok_e(x, out);
            }
        }
        E::Exists(t) => out.push(format!("ex.{t}")),
        E::InSub(t, c, a) => {
            out.push(format!("insub.{t}.{c}"));
            tok_e(a, out);
        }
        E::SSub(t, c) => out.push(format!("ssub.{t}.{c}")),
    }
}

fn tok_where(w: &Option<E>, out: &mut Vec<String>) {
    match w {
        None => out.push("nw".into()),
        Some(e) => {
            out.push("w".into());
            tok_e(e, out);
        }
    }
}

pub fn tok_q(q: &Q) -> String {
    let mut out = Vec::new();
    match q {
        Q::Sel { tbl, items, wh, group, having, order, limit } => {
            out.push("sel".into());
            out.push(tbl.clone());
            out.push(items.len().to_string());
            for e in items {
                tok_e(e, &mut out);
            }
            tok_where(wh, &mut out);
            out.push(group.as_ref().map(|g| format!("g.{g}")).unwrap_or("ng".into()));
            match having {
                None => out.push("nh".into()),
                Some(e) => {
                    out.push("h".into());
                    tok_e(e, &mut out);
                }
            }
            out.push(order.as_ref().map(|g| format!("o.{g}")).unwrap_or("no".into()));
            out.push(limit.map(|l| format!("l.{l}")).unwrap_or("nl".into()));
        }
        Q::Ins { tbl, vals } => {
            out.push("ins".into());
            out.push(tbl.clone());
            out.push(vals.len().to_string());
            for e in vals {
                tok_e(e, &mut out);
            }
        }
        Q::Upd { tbl, col, val, wh } => {
            out.push("upd".into());
            out.push(tbl.clone());
            out.push(col.clone());
            tok_e(val, &mut out);
            tok_where(wh, &mut out);
        }
        Q::Del { tbl, wh } => {
            out.push("del".into());
            out.push(tbl.clone());
            tok_where(wh, &mut out);
        }
    }
    out.join(",")
}

fn sql_str(b: &[u8]) -> String {
    format!("'{}'", String::from_utf8_lossy(b).replace('\'', "''"))
}

fn sql_e(e: &E) -> String {
    match e {
        E::Col(n) => n.clone(),
        E::Int(v) => v.to_string(),
        E::Dbl(v) => format!("{}{}.{}", if *v < 0 { "-" } else { "" }, v.unsigned_abs() / 2, if v % 2 == 0 { 0 } else { 5 }),
        E::Str(b) => sql_str(b),
        E::Null => "NULL".into(),
        E::Bool(b) => if *b { "TRUE" } else { "FALSE" }.into(),
        E::Bin(op, a, b) => {
            let s = BINOPS.iter().find(|(n, _)| n == op).unwrap().1;
            format!("({} {} {})", sql_e(a), s, sql_e(b))
        }
        E::Un(op, a) => match *op {
            "not" => format!("(NOT {})", sql_e(a)),
            "neg" => format!("(- {})", sql_e(a)),
            "isnull" => format!("({} IS NULL)", sql_e(a)),
            _ => format!("({} IS NOT NULL)", sql_e(a)),
        },
        E::Fn(n, args) => format!("{}({})", n, args.iter().map(sql_e).collect::<Vec<_>>().join(", ")),
        E::Agg(n, a) => format!("{}({})", n, sql_e(a)),
        E::CountStar => "COUNT(*)".into(),
        E::Case(arms, els) => {
            let mut s = "CASE".to_string();
            for (w, t) in arms {
                s.push_str(&format!(" WHEN {} THEN {}", sql_e(w), sql_e(t)));
            }
            if let Some(e) = els {
                s.push_str(&format!(" ELSE {}", sql_e(e)));
            }
            s + " END"
        }
        E::Between(neg, a, b, c) => {
            format!("({} {}BETWEEN {} AND {})", sql_e(a), if *neg { "NOT " } else { "" }, sql_e(b), sql_e(c))
        }
        E::In(neg, a, xs) => format!(
            "({} {}IN ({}))",
            sql_e(a),
            if *neg { "NOT " } else { "" },
            xs.iter().map(sql_e).collect::<Vec<_>>().join(", ")
        ),
        E::Exists(t) => format!("EXISTS (SELECT * FROM {t})"),
        E::InSub(t, c, a) => format!("({} IN (SELECT {c} FROM {t}))", sql_e(a)),
        E::SSub(t, c) => format!("(SELECT {c} FROM {t})"),
    }
}

pub fn sql_q(q: &Q) -> String {
    match q {
        Q::Sel { tbl, items, wh, group, having, order, limit } => {
            let mut s = format!("SELECT {} FROM {}", items.iter().map(sql_e).collect::<Vec<_>>().join(", "), tbl);
            if let Some(w) = wh {
                s.push_str(&format!(" WHERE {}", sql_e(w)));
            }
            if let Some(g) = group {
                s.push_str(&format!(" GROUP BY {g}"));
            }
            if let Some(h) = having {
                s.push_str(&format!(" HAVING {}", sql_e(h)));
            }
            if let Some(o) = order {
                s.push_str(&format!(" ORDER BY {o}"));
            }
            if let Some(l) = limit {
                s.push_str(&format!(" LIMIT {l}"));
            }
            s
        }
        Q::Ins { tbl, vals } => format!("INSERT INTO {} VALUES ({})", tbl, vals.iter().map(sql_e).collect::<Vec<_>>().join(", ")),
        Q::Upd { tbl, col, val, wh } => {
            let mut s = format!("UPDATE {} SET {} = {}", tbl, col, sql_e(val));
            if let Some(w) = wh {
                s.push_str(&format!(" WHERE {}", sql_e(w)));
            }
            s
        }
        Q::Del { tbl, wh } => {
            let mut s = format!("DELETE FROM {tbl}");
            if let Some(w) = wh {
                s.push_str(&format!(" WHERE {}", sql_e(w)));
            }
            s
        }
    }
}

// ---- schema

#[derive(Clone, Debug)]
pub struct Table {
    pub name: String,
    pub cols: Vec<(String, char)>,
}

const TYPES: [(char, &str); 8] = [
    ('i', "INT"), ('I', "BIGINT"), ('u', "UINT"), ('U', "BIGUINT"), ('f', "FLOAT"), ('d', "DOUBLE"), ('t', "TEXT"), ('b', "BOOLEAN"),
];

pub fn parse_schema(s: &str) -> Option<Vec<Table>> {
    let mut out: Vec<Table> = Vec::new();
    for t in s.split('/') {
        let (name, cols) = t.split_once(':')?;
        if !is_name(name) || name == PROBE_TABLE || out.iter().any(|x| x.name == name) {
            return None;
        }
        let mut cs: Vec<(String, char)> = Vec::new();
        for c in cols.split(',') {
            let (cn, ty) = c.split_once('.')?;
            let mut it = ty.chars();
            let tc = it.next()?;
            if it.next().is_some() || !is_name(cn) || !TYPES.iter().any(|(k, _)| *k == tc) || cs.iter().any(|x| x.0 == cn) {
                return None;
            }
            cs.push((cn.to_string(), tc));
        }
        if cs.is_empty() || cs.len() > 8 {
            return None;
        }
        out.push(Table { name: name.to_string(), cols: cs });
    }
    if out.is_empty() || out.len() > 4 {
        return None;
    }
    Some(out)
}

fn show_schema(ts: &[Table]) -> String {
    ts.iter()
        .map(|t| format!("{}:{}", t.name, t.cols.iter().map(|(n, c)| format!("{n}.{c}")).collect::<Vec<_>>().join(",")))
        .collect::<Vec<_>>()
        .join("/")
}

fn lit_for(ty: char, row: i64, col: usize) -> String {
    match ty {
        'i' | 'I' | 'u' | 'U' => if col == 0 { row.to_string() } else { (row * 10 + col as i64).to_string() },
        'f' | 'd' => format!("{}.5", row + col as i64),
        't' => format!("'r{}c{}'", row, col),
        _ => if (row + col as i64) % 2 == 0 { "TRUE" } else { "FALSE" }.to_string(),
    }
}

// ---- classification shared with the Lean model (`Model/Fuzz.lean`: `classify`)

#[derive(Clone, Copy, PartialEq, Debug)]
pub enum Class {
    Rows,
    Error,
}

fn cols_of_e<'a>(e: &'a E, out: &mut Vec<&'a str>, subs: &mut Vec<(&'a str, Option<&'a str>)>) {
    match e {
        E::Col(n) => out.push(n),
        E::Bin(_, a, b) => {
            cols_of_e(a, out, subs);
            cols_of_e(b, out, subs);
        }
        E::Un(_, a) | E::Agg(_, a) => cols_of_e(a, out, subs),
        E::Fn(_, xs) => xs.iter().for_each(|x| cols_of_e(x, out, subs)),
        E::Case(arms, els) => {
            for (w, t) in arms {
                cols_of_e(w, out, subs);
                cols_of_e(t, out, subs);
            }
            if let Some(x) = els {
                cols_of_e(x, out, subs);
            }
        }
        E::Between(_, a, b, c) => {
            cols_of_e(a, out, subs);
            cols_of_e(b, out, subs);
            cols_of_e(c, out, subs);
        }
        E::In(_, a, xs) => {
            cols_of_e(a, out, subs);
            xs.iter().for_each(|x| cols_of_e(x, out, subs));
        }
        E::Exists(t) => subs.push((t, None)),
        E::InSub(t, c, a) => {
            subs.push((t, Some(c)));
            cols_of_e(a, out, subs);
        }
        E::SSub(t, c) => subs.push((t, Some(c))),
        _ => {}
    }
}

/// only integer arithmetic over integer literals and integer columns: evaluated strictly, for every row
fn strict_arith(e: &E, t: &Table) -> bool {
    match e {
        E::Int(_) => true,
        E::Col(n) => t.cols.iter().any(|(c, ty)| c == n && matches!(ty, 'i' | 'I')),
        E::Bin(op, a, b) => matches!(*op, "add" | "sub" | "mul" | "div" | "mod") && strict_arith(a, t) && strict_arith(b, t),
        _ => false,
    }
}
fn has_div0(e: &E) -> bool {
    match e {
        E::Bin(op, a, b) => (matches!(*op, "div" | "mod") && **b == E::Int(0)) || has_div0(a) || has_div0(b),
        _ => false,
    }
}
fn plain_item(e: &E) -> bool {
    matches!(e, E::Col(_) | E::Int(_) | E::Str(_) | E::Null | E::Bool(_))
}
fn plain_where(e: &E, t: &Table) -> bool {
    match e {
        E::Bin(op, a, b) if matches!(*op, "eq" | "ne" | "lt" | "le" | "gt" | "ge") => match (&**a, &**b) {
            (E::Col(n), lit) => match t.cols.iter().find(|(c, _)| c == n).map(|x| x.1) {
                Some('i') | Some('I') => matches!(lit, E::Int(v) if v.unsigned_abs() < 1_000_000),
                Some('t') => matches!(lit, E::Str(_)),
                _ => false,
            },
            _ => false,
        },
        _ => false,
    }
}

/// `Some(class)` when the outcome class of `q` is determined by the schema alone; `tainted` = an `x` op ran before.
pub fn classify(schema: &[Table], q: &Q, tainted: bool, touched: &[String]) -> Option<Class> {
    if tainted {
        return None;
    }
    let tbl = match q {
        Q::Sel { tbl, .. } | Q::Ins { tbl, .. } | Q::Upd { tbl, .. } | Q::Del { tbl, .. } => tbl,
    };
    let Some(t) = schema.iter().find(|t| &t.name == tbl) else { return Some(Class::Error) };
    let mut cols = Vec::new();
    let mut subs = Vec::new();
    match q {
        Q::Sel { items, wh, group, having, order, .. } => {
            items.iter().for_each(|e| cols_of_e(e, &mut cols, &mut subs));
            if let Some(w) = wh {
                cols_of_e(w, &mut cols, &mut subs);
            }
            if let Some(h) = having {
                cols_of_e(h, &mut cols, &mut subs);
            }
            if let Some(g) = group {
                cols.push(g);
            }
            if let Some(o) = order {
                cols.push(o);
            }
        }
        Q::Ins { vals, .. } => vals.iter().for_each(|e| cols_of_e(e, &mut cols, &mut subs)),
        Q::Upd { col, val, wh, .. } => {
            cols.push(col);
            cols_of_e(val, &mut cols, &mut subs);
            if let Some(w) = wh {
                cols_of_e(w, &mut cols, &mut subs);
            }
        }
        Q::Del { wh, .. } => {
            if let Some(w) = wh {
                cols_of_e(w, &mut cols, &mut subs);
            }
        }
    }
    if cols.iter().any(|c| !t.cols.iter().any(|(n, _)| n == c)) {
        return Some(Class::Error);
    }
    for (st, sc) in &subs {
        match schema.iter().find(|t| t.name == *st) {
            None => return Some(Class::Error),
            Some(t2) => {
                if let Some(c) = sc {
                    if !t2.cols.iter().any(|(n, _)| n == c) {
                        return Some(Class::Error);
                    }
                }
            }
        }
    }
    match q {
        Q::Ins { vals, .. } => {
            if vals.len() != t.cols.len() {
                Some(Class::Error)
            } else {
                None
            }
        }
        Q::Sel { items, wh, group, having, limit, .. } => {
            if !subs.is_empty() || group.is_some() || having.is_some() || limit.is_some() {
                return None;
            }
            if wh.is_none() && !touched.contains(tbl) && items.iter().all(|e| strict_arith(e, t)) && items.iter().any(has_div0) {
                return Some(Class::Error);
            }
            if items.iter().all(plain_item) && wh.as_ref().is_none_or(|w| plain_where(w, t)) {
                return Some(Class::Rows);
            }
            None
        }
        _ => None,
    }
}

// ------------------------------------------------------------------------------------------------ case lines

pub enum Op {
    X(Vec<u8>),
    Q(Q),
}

pub struct Parsed {
    pub sess: bool,
    pub pool: usize,
    pub schema: Vec<Table>,
    pub ops: Vec<Op>,
}

pub fn parse_line(line: &str) -> Option<Parsed> {
    let (head, body) = line.split_once('|')?;
    let hs: Vec<&str> = head.split_whitespace().collect();
    let (mode, pool, schema) = match hs.as_slice() {
        ["fz", m, p, s] => (*m, parse_small(p)?, parse_schema(s)?),
        _ => return None,
    };
    let sess = match mode {
        "db" => false,
        "sess" => true,
        _ => return None,
    };
    if pool == 0 || pool > 8 {
        return None;
    }
    let mut ops = Vec::new();
    for o in body.split(';') {
        let o = o.trim();
        if let Some(h) = o.strip_prefix("x:") {
            ops.push(Op::X(unhex(h)?));
        } else if let Some(t) = o.strip_prefix("q:") {
            ops.push(Op::Q(parse_q(t)?));
        } else {
            return None;
        }
    }
    if ops.len() > 2000 {
        return None;
    }
    Some(Parsed { sess, pool, schema, ops })
}

// ------------------------------------------------------------------------------------------------ execution

struct Env {
    db: Database,
    sess: Option<Session>,
    tables: Vec<String>,
    /// text of the last result (only kept when AXH_FUZZ_TRACE is set; for triage by hand)
    last: String,
    trace: bool,
}

#[derive(PartialEq, Debug, Clone, Copy)]
enum Outcome {
    Rows,
    Count,
    Ddl,
    Error,
}

impl Env {
    fn run(&mut self, sql: &str) -> (Outcome, Option<u64>) {
        let r: Result<QueryResult, String> = match self.sess.as_mut() {
            Some(s) => s.execute(sql).map_err(|e| e.to_string()),
            None => self.db.execute(sql).map_err(|e| e.to_string()),
        };
        match r {
            Ok(QueryResult::Rows(rows)) => {
                let mut h = DefaultHasher::new();
                let mut lines: Vec<String> = rows.iterrows().map(|r| format!("{:?}", r)).collect();
                lines.sort();
                lines.hash(&mut h);
                if self.trace {
                    self.last = format!("rows {:?}", lines);
                }
                (Outcome::Rows, Some(h.finish()))
            }
            Ok(QueryResult::RowsAffected(n)) => {
                if self.trace {
                    self.last = format!("count {n}");
                }
                (Outcome::Count, None)
            }
            Ok(QueryResult::Ddl(d)) => {
                if self.trace {
                    self.last = format!("ddl {:?}", d);
                }
                (Outcome::Ddl, None)
            }
            Err(e) => {
                if self.trace {
                    self.last = format!("error {e}");
                }
                (Outcome::Error, None)
            }
        }
    }

    /// hash of the content of every table of interest, through the path the statements take
    fn dump(&mut self) -> u64 {
        let mut h = DefaultHasher::new();
        let names = self.tables.clone();
        for t in names {
            let (o, d) = self.run(&format!("SELECT * FROM {t}"));
            (t, o == Outcome::Rows, d).hash(&mut h);
        }
        h.finish()
    }

    /// the probe table must answer with its two rows, through the session (if any) and through the database
    fn probe(&mut self, expect: u64) -> Result<(), String> {
        let q = format!("SELECT id, v FROM {PROBE_TABLE}");
        let r: Result<QueryResult, String> = match self.sess.as_mut() {
            Some(s) => s.execute(&q).map_err(|e| e.to_string()),
            None => self.db.execute(&q).map_err(|e| e.to_string()),
        };
        match r {
            Ok(QueryResult::Rows(rows)) => {
                let mut h = DefaultHasher::new();
                let mut lines: Vec<String> = rows.iterrows().map(|r| format!("{:?}", r)).collect();
                lines.sort();
                lines.hash(&mut h);
                if h.finish() != expect {
                    return Err(format!("probe rows differ: {:?}", lines));
                }
            }
            Ok(_) => return Err("probe returned no rows result".into()),
            Err(e) => return Err(format!("probe error: {e}")),
        }
        if self.sess.is_some() {
            match self.db.execute(&q) {
                Ok(QueryResult::Rows(r)) if r.len() == 2 => Ok(()),
                Ok(QueryResult::Rows(r)) => Err(format!("db probe: {} rows", r.len())),
                Ok(_) => Err("db probe: no rows result".into()),
                Err(e) => Err(format!("db probe error: {e}")),
            }
        } else {
            Ok(())
        }
    }
}

fn run_case(p: &Parsed, dir: &std::path::Path) -> String {
    let cfg = DBConfig { pool_size: p.pool, ..DBConfig::default() };
    let db = match Database::create(dir.join("f.db"), cfg) {
        Ok(db) => db,
        Err(_) => return "PROPFAIL cannot-create-database".into(),
    };
    let mut setup: Vec<String> = vec![
        format!("CREATE TABLE {PROBE_TABLE} (id BIGINT, v INT)"),
        format!("INSERT INTO {PROBE_TABLE} VALUES (1, 10)"),
        format!("INSERT INTO {PROBE_TABLE} VALUES (2, 20)"),
    ];
    for t in &p.schema {
        let cols: Vec<String> =
            t.cols.iter().map(|(n, c)| format!("{} {}", n, TYPES.iter().find(|(k, _)| k == c).unwrap().1)).collect();
        setup.push(format!("CREATE TABLE {} ({})", t.name, cols.join(", ")));
        for r in 1..=ROWS_PER_TABLE {
            let vals: Vec<String> = t.cols.iter().enumerate().map(|(i, (_, c))| lit_for(*c, r, i)).collect();
            setup.push(format!("INSERT INTO {} VALUES ({})", t.name, vals.join(", ")));
        }
    }
    take_panics();
    for s in &setup {
        if db.execute(s).is_err() {
            let ps = take_panics();
            return format!("PROPFAIL setup-failed {} ## {}", ps.first().map(|p| format!("panic@{p}")).unwrap_or_default(), s);
        }
    }
    let sess = if p.sess {
        match db.session() {
            Ok(s) => Some(s),
            Err(_) => return "PROPFAIL cannot-open-session".into(),
        }
    } else {
        None
    };
    let mut tables: Vec<String> = p.schema.iter().map(|t| t.name.clone()).collect();
    for e in EXTRA_TABLES {
        if !tables.iter().any(|t| t == e) {
            tables.push(e.to_string());
        }
    }
    let mut env = Env { db, sess, tables, last: String::new(), trace: std::env::var("AXH_FUZZ_TRACE").is_ok() };
    let (o, probe_hash) = env.run(&format!("SELECT id, v FROM {PROBE_TABLE}"));
    let Some(probe_hash) = probe_hash.filter(|_| o == Outcome::Rows) else {
        return "PROPFAIL setup-probe-failed".into();
    };
    let mut before = env.dump();
    let ps = take_panics();
    if let Some(pn) = ps.first() {
        return format!("PROPFAIL panic@{pn} op=setup");
    }
    let mut words: Vec<String> = Vec::new();
    let mut fails: Vec<String> = Vec::new();
    let mut diag: Vec<String> = Vec::new();
    let mut tally = [0usize; 4];
    let mut tainted = false;
    let mut touched: Vec<String> = Vec::new();
    for (k, op) in p.ops.iter().enumerate() {
        let (sql, pred) = match op {
            Op::X(b) => {
                tainted = true;
                (String::from_utf8_lossy(b).into_owned(), None)
            }
            Op::Q(q) => {
                let c = classify(&p.schema, q, tainted, &touched);
                if let Q::Ins { tbl, .. } | Q::Upd { tbl, .. } | Q::Del { tbl, .. } = q {
                    if !touched.contains(tbl) {
                        touched.push(tbl.clone());
                    }
                }
                (sql_q(q), Some(c))
            }
        };
        let (outcome, _) = env.run(&sql);
        tally[outcome as usize] += 1;
        if env.trace {
            diag.push(format!("[{}] {}", k, env.last.chars().take(300).collect::<String>()));
        }
        let panics = take_panics();
        let probe_res = env.probe(probe_hash);
        let probe_ok = probe_res.is_ok();
        let after = env.dump();
        let late = take_panics();
        let mut what: Vec<String> = Vec::new();
        if let Some(pn) = panics.first() {
            what.push(format!("panic@{pn}"));
        }
        if !probe_ok {
            what.push("probe-failed".into());
            diag.push(format!("op {}: outcome {:?}; {}", k, outcome, probe_res.clone().unwrap_err()));
        }
        if outcome == Outcome::Error && after != before {
            what.push("state-changed-on-error".into());
        }
        if let Some(pn) = late.first() {
            what.push(format!("late-panic@{pn}"));
        }
        before = after;
        if !what.is_empty() {
            fails.push(format!("{} op={}", what.join(" "), k));
            if !probe_ok || fails.len() >= 8 {
                break;
            }
            words.push("failed".into());
            continue;
        }
        words.push(match pred {
            Some(Some(_)) => match outcome {
                Outcome::Rows => "rows",
                Outcome::Count => "count",
                Outcome::Ddl => "ddl",
                Outcome::Error => "error",
            }
            .to_string(),
            _ => "ok-or-error".to_string(),
        });
    }
    diag.insert(0, format!("rows={} count={} ddl={} error={}", tally[0], tally[1], tally[2], tally[3]));
    if fails.is_empty() {
        format!("{} ## {}", words.join(" "), diag.join(" | "))
    } else {
        format!("PROPFAIL {} ## {}", fails.join(" ; "), diag.join(" | ").replace('\n', " "))
    }
}

fn clean_stale_dirs() {
    let Ok(rd) = std::fs::read_dir(std::env::temp_dir()) else { return };
    for e in rd.flatten() {
        let name = e.file_name().to_string_lossy().into_owned();
        if let Some(rest) = name.strip_prefix("axh-c16-") {
            let mut it = rest.split('-');
            let _tag = it.next();
            if let Some(pid) = it.next().and_then(|p| p.parse::<u32>().ok()) {
                if !std::path::Path::new(&format!("/proc/{pid}")).exists() {
                    let _ = std::fs::remove_dir_all(e.path());
                }
            }
        }
    }
}

static CLEAN: Once = Once::new();

use crate::util::StdoutSilencer;

impl Engine for FuzzEngine {
    fn exec(&mut self, line: &str) -> String {
        install_hook();
        CLEAN.call_once(clean_stale_dirs);
        let Some(p) = parse_line(line) else { return "bad-op".into() };
        let dir = scratch_dir("fuzz");
        // the library prints to stdout on some paths (CREATE INDEX): keep that out of the line protocol
        let guard = StdoutSilencer::new();
        let out = run_case(&p, &dir);
        drop(guard);
        let _ = std::fs::remove_dir_all(&dir);
        out
    }

    fn gen_cases(&self, rng: &mut Rng, tier: Tier) -> Vec<Case> {
        generator::gen_cases(rng, tier)
    }

    fn timeout_ms(&self) -> u64 {
        // a case is one whole sequence (up to ~300 statements); the supervisor retries a time-out once, so a busy
        // machine does not turn into `hang`, and a real hang costs two time-outs
        45_000
    }
}

/// Content of `lean/AxVerif/Generated/<Engine>.lean`, if this engine extracts constants from the code.
pub fn generated() -> Option<(&'static str, String)> {
    None
}

// ------------------------------------------------------------------------------------------------ generators

#[path = "fuzz_gen.rs"]
mod generator;
