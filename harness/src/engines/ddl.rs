//! Engine `ddl` — not built yet (stub).
use super::{Case, Engine, Tier};
use crate::rng::Rng;

pub struct DdlEngine;

impl Engine for DdlEngine {
    fn gen_cases(&self, _rng: &mut Rng, _tier: Tier) -> Vec<Case> {
        Vec::new()
    }
    fn exec(&mut self, _line: &str) -> String {
        "unimplemented".into()
    }
}

/// Content of `lean/AxVerif/Generated/<Engine>.lean`, if this engine extracts constants from the code.
pub fn generated() -> Option<(&'static str, String)> {
    None
}
