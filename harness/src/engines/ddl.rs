//! Engine `ddl` (C15): DDL interleaved with DML through the public API (`Database`, `Session`), with reopen, against the
//! dynamic-catalog model `Model/Ddl.lean`.  Case syntax: see `cfg/C15.py`.
use super::hist::{self, Stmt};
use super::{Case, Engine, Tier};
use crate::rng::Rng;
use axmosdb::tcp::session::Session;
use axmosdb::{DBConfig, Database};
use std::collections::BTreeMap;
use std::sync::atomic::Ordering;

pub struct DdlEngine;

#[derive(Clone, Debug)]
pub struct ColSpec {
    pub name: String,
    pub ty: String,
    pub not_null: bool,
    pub unique: bool,
    pub default: Option<hist::Val>,
}

#[derive(Clone, Debug)]
pub enum DStmt {
    Dml(Stmt),
    CreateTable { name: String, cols: Vec<ColSpec>, keys: Vec<(bool, Vec<String>)> },
    /// `name` = None: the index is called ix<table><cols>
    CreateIndex { table: String, cols: Vec<String>, name: Option<String> },
    AddColumn { table: String, col: ColSpec },
    DropColumn { table: String, col: String },
    AddKey { table: String, pk: bool, cols: Vec<String> },
    SetNotNull { table: String, col: String },
    DropNotNull { table: String, col: String },
    DropTable { table: String, cascade: bool },
}

#[derive(Clone, Debug)]
pub enum DOp {
    Begin(String),
    Commit(String),
    Rollback(String),
    Drop(String),
    Exec(String, DStmt),
    Auto(DStmt),
    Reopen,
    /// VACUUM (generated only while no session is open)
    Vacuum,
    /// last op of a case: the final observation also reports the number of live index relations in the catalog
    Audit,
}

fn parse_colspec(c: &str) -> Option<ColSpec> {
    // name:type[!][*][=default]
    let (head, default) = match c.split_once('=') {
        Some((h, d)) => (h, Some(hist::parse_val(d)?)),
        None => (c, None),
    };
    let parts: Vec<&str> = head.split(':').collect();
    if parts.len() != 2 {
        return None;
    }
    let mut ty = parts[1].to_string();
    let (mut not_null, mut unique) = (false, false);
    loop {
        if let Some(t) = ty.strip_suffix('!') {
            not_null = true;
            ty = t.to_string();
        } else if let Some(t) = ty.strip_suffix('*') {
            unique = true;
            ty = t.to_string();
        } else {
            break;
        }
    }
    if !hist::ident(parts[0]) || !matches!(ty.as_str(), "big" | "int" | "text") {
        return None;
    }
    Some(ColSpec { name: parts[0].to_string(), ty, not_null, unique, default })
}

fn parse_group(g: &str) -> Option<(bool, Vec<String>)> {
    let (pk, body) = match g.strip_prefix('^') {
        Some(r) => (true, r),
        None => (false, g),
    };
    let names: Vec<String> = body.split('+').map(|x| x.to_string()).collect();
    if names.is_empty() || !names.iter().all(|n| hist::ident(n)) {
        return None;
    }
    Some((pk, names))
}

fn parse_dstmt(ws: &[&str]) -> Option<DStmt> {
    match ws {
        ["ct", spec] => {
            let parts: Vec<&str> = spec.split('(').collect();
            if parts.len() != 2 || !hist::ident(parts[0]) {
                return None;
            }
            let rest = parts[1].strip_suffix(')')?;
            let mut groups = rest.split('/');
            let cols: Option<Vec<ColSpec>> = groups.next()?.split(',').map(parse_colspec).collect();
            let cols = cols?;
            if cols.is_empty() {
                return None;
            }
            let keys: Option<Vec<(bool, Vec<String>)>> = groups.map(parse_group).collect();
            Some(DStmt::CreateTable { name: parts[0].to_string(), cols, keys: keys? })
        }
        ["ci", t, g] if hist::ident(t) => {
            let (pk, cols) = parse_group(g)?;
            if pk {
                return None;
            }
            Some(DStmt::CreateIndex { table: t.to_string(), cols, name: None })
        }
        ["cin", n, t, g] if hist::ident(n) && hist::ident(t) => {
            let (pk, cols) = parse_group(g)?;
            if pk {
                return None;
            }
            Some(DStmt::CreateIndex { table: t.to_string(), cols, name: Some(n.to_string()) })
        }
        ["ac", t, c] if hist::ident(t) => Some(DStmt::AddColumn { table: t.to_string(), col: parse_colspec(c)? }),
        ["dc", t, c] if hist::ident(t) && hist::ident(c) => Some(DStmt::DropColumn { table: t.to_string(), col: c.to_string() }),
        ["ak", t, g] if hist::ident(t) => {
            let (pk, cols) = parse_group(g)?;
            Some(DStmt::AddKey { table: t.to_string(), pk, cols })
        }
        ["sn", t, c] if hist::ident(t) && hist::ident(c) => Some(DStmt::SetNotNull { table: t.to_string(), col: c.to_string() }),
        ["dn", t, c] if hist::ident(t) && hist::ident(c) => Some(DStmt::DropNotNull { table: t.to_string(), col: c.to_string() }),
        ["dt", t] if hist::ident(t) => Some(DStmt::DropTable { table: t.to_string(), cascade: false }),
        ["dtc", t] if hist::ident(t) => Some(DStmt::DropTable { table: t.to_string(), cascade: true }),
        _ => hist::parse_stmt(ws).map(DStmt::Dml),
    }
}

fn parse_dop(s: &str) -> Option<DOp> {
    let ws: Vec<&str> = s.split_whitespace().collect();
    match ws.as_slice() {
        ["reopen"] => Some(DOp::Reopen),
        ["vacuum"] => Some(DOp::Vacuum),
        ["audit"] => Some(DOp::Audit),
        ["db", rest @ ..] => Some(DOp::Auto(parse_dstmt(rest)?)),
        [s, "begin"] if hist::sess_name(s) => Some(DOp::Begin(s.to_string())),
        [s, "commit"] if hist::sess_name(s) => Some(DOp::Commit(s.to_string())),
        [s, "rollback"] if hist::sess_name(s) => Some(DOp::Rollback(s.to_string())),
        [s, "drop"] if hist::sess_name(s) => Some(DOp::Drop(s.to_string())),
        [s, rest @ ..] if hist::sess_name(s) => Some(DOp::Exec(s.to_string(), parse_dstmt(rest)?)),
        _ => None,
    }
}

/// The model does not know index NAMES (an index is a key of its table), the code refuses a CREATE UNIQUE INDEX whose name
/// is taken.  Well-formed cases therefore use an index name (explicit, or the implicit ix<table><cols> of `ci`) again only
/// after the table it was created on has been dropped by an autocommit DROP TABLE or by a session that then commits
/// (purely textual; the same rule in `Driver/Ddl.lean`).  Anything else is `bad-op` on both sides.
fn index_names_well_formed(ops: &[DOp]) -> bool {
    let mut live: Vec<(String, String)> = Vec::new(); // (index name, table)
    let mut pending: BTreeMap<String, Vec<String>> = BTreeMap::new(); // session → tables it dropped
    for op in ops {
        match op {
            DOp::Begin(s) | DOp::Rollback(s) | DOp::Drop(s) => {
                pending.remove(s);
            }
            DOp::Commit(s) => {
                for t in pending.remove(s).unwrap_or_default() {
                    live.retain(|(_, tt)| *tt != t);
                }
            }
            DOp::Reopen => pending.clear(),
            DOp::Exec(_, DStmt::CreateIndex { table, cols, name }) | DOp::Auto(DStmt::CreateIndex { table, cols, name }) => {
                let n = name.clone().unwrap_or_else(|| format!("ix{}{}", table, cols.join("")));
                if live.iter().any(|(x, _)| *x == n) {
                    return false;
                }
                live.push((n, table.clone()));
            }
            DOp::Exec(s, DStmt::DropTable { table, .. }) => pending.entry(s.clone()).or_default().push(table.clone()),
            DOp::Auto(DStmt::DropTable { table, .. }) => live.retain(|(_, tt)| tt != table),
            _ => {}
        }
    }
    true
}

pub fn parse_case(line: &str) -> Option<Vec<DOp>> {
    let body = line.trim().strip_prefix("ddl |")?;
    let body = body.trim();
    let mut out = Vec::new();
    if !body.is_empty() {
        for o in body.split(" ; ") {
            out.push(parse_dop(o)?);
        }
    }
    if !index_names_well_formed(&out) {
        return None;
    }
    // `audit` only as the last op
    let n = out.len();
    if out.iter().enumerate().any(|(i, o)| matches!(o, DOp::Audit) && i + 1 != n) {
        return None;
    }
    Some(out)
}

fn sql_type(ty: &str) -> &'static str {
    match ty {
        "big" => "BIGINT",
        "int" => "INT",
        _ => "TEXT",
    }
}

fn sql_col(c: &ColSpec) -> String {
    let mut s = format!("{} {}", c.name, sql_type(&c.ty));
    if c.not_null {
        s.push_str(" NOT NULL");
    }
    if let Some(d) = &c.default {
        s.push_str(&format!(" DEFAULT {}", hist::sql_val(d)));
    }
    s
}

pub fn sql_of(st: &DStmt) -> String {
    match st {
        DStmt::Dml(s) => hist::sql_of(s),
        DStmt::CreateTable { name, cols, keys } => {
            let mut parts: Vec<String> = cols.iter().map(sql_col).collect();
            for c in cols {
                if c.unique {
                    parts.push(format!("UNIQUE({})", c.name));
                }
            }
            for (pk, names) in keys {
                parts.push(format!("{} ({})", if *pk { "PRIMARY KEY" } else { "UNIQUE" }, names.join(", ")));
            }
            format!("CREATE TABLE {} ({})", name, parts.join(", "))
        }
        DStmt::CreateIndex { table, cols, name } => {
            let name = name.clone().unwrap_or_else(|| format!("ix{}{}", table, cols.join("")));
            format!("CREATE UNIQUE INDEX {} ON {} ({})", name, table, cols.join(", "))
        }
        DStmt::AddColumn { table, col } => format!("ALTER TABLE {} ADD COLUMN {}", table, sql_col(col)),
        DStmt::DropColumn { table, col } => format!("ALTER TABLE {} DROP COLUMN {}", table, col),
        DStmt::AddKey { table, pk, cols } => format!(
            "ALTER TABLE {} ADD CONSTRAINT {} ({})",
            table,
            if *pk { "PRIMARY KEY" } else { "UNIQUE" },
            cols.join(", ")
        ),
        DStmt::SetNotNull { table, col } => format!("ALTER TABLE {} ALTER COLUMN {} SET NOT NULL", table, col),
        DStmt::DropNotNull { table, col } => format!("ALTER TABLE {} ALTER COLUMN {} DROP NOT NULL", table, col),
        DStmt::DropTable { table, cascade } => format!("DROP TABLE {}{}", table, if *cascade { " CASCADE" } else { "" }),
    }
}

fn tables_of(ops: &[DOp]) -> Vec<String> {
    let mut out: Vec<String> = Vec::new();
    let mut add = |t: &str| {
        if !out.iter().any(|x| x == t) {
            out.push(t.to_string());
        }
    };
    for op in ops {
        let st = match op {
            DOp::Exec(_, st) | DOp::Auto(st) => st,
            _ => continue,
        };
        match st {
            DStmt::CreateTable { name, .. } => add(name),
            DStmt::CreateIndex { table, .. }
            | DStmt::AddColumn { table, .. }
            | DStmt::DropColumn { table, .. }
            | DStmt::AddKey { table, .. }
            | DStmt::SetNotNull { table, .. }
            | DStmt::DropNotNull { table, .. }
            | DStmt::DropTable { table, .. } => add(table),
            DStmt::Dml(s) => match s {
                Stmt::Sel { table, .. } | Stmt::Ins { table, .. } | Stmt::Upd { table, .. } | Stmt::Del { table, .. } => add(table),
            },
        }
    }
    out
}

pub fn run_case(line: &str) -> String {
    let _quiet = hist::QuietStdout::new();
    let Some(ops) = parse_case(line) else { return "bad-op".into() };
    let dir = std::env::temp_dir().join(format!("axv-ddl-{}-{}", std::process::id(), hist::COUNTER.fetch_add(1, Ordering::SeqCst)));
    let _ = std::fs::remove_dir_all(&dir);
    std::fs::create_dir_all(&dir).unwrap();
    let out = run_in(&dir, &ops);
    let _ = std::fs::remove_dir_all(&dir);
    out
}

fn is_read(st: &DStmt) -> bool {
    matches!(st, DStmt::Dml(Stmt::Sel { .. }))
}

fn run_in(dir: &std::path::Path, ops: &[DOp]) -> String {
    let path = dir.join("db.axm");
    let mut db = match Database::create(&path, DBConfig::default()) {
        Ok(d) => d,
        Err(e) => return format!("create-failed ## {}", e),
    };
    // warm-up: a committed transaction with id > 0 (as engine `hist`)
    let _ = db.execute("CREATE TABLE warmupzz (k BIGINT)");
    let mut diag: Vec<String> = Vec::new();
    let mut sessions: BTreeMap<String, Session> = BTreeMap::new();
    let mut outs: Vec<String> = Vec::new();
    for op in ops {
        let o = match op {
            DOp::Begin(s) => {
                sessions.remove(s);
                match db.session() {
                    Ok(x) => {
                        sessions.insert(s.clone(), x);
                        "ok".to_string()
                    }
                    Err(e) => hist::err_class(&e.to_string()).to_string(),
                }
            }
            DOp::Commit(s) => match sessions.get_mut(s) {
                None => "nosession".into(),
                Some(x) => {
                    let o = match x.commit_transaction() {
                        Ok(()) => "ok".to_string(),
                        Err(e) => {
                            diag.push(e.to_string().chars().take(100).collect());
                            hist::err_class(&e.to_string()).to_string()
                        }
                    };
                    sessions.remove(s);
                    o
                }
            },
            DOp::Rollback(s) => match sessions.get_mut(s) {
                None => "nosession".into(),
                Some(x) => {
                    let o = match x.abort_transaction() {
                        Ok(()) => "ok".to_string(),
                        Err(e) => hist::err_class(&e.to_string()).to_string(),
                    };
                    sessions.remove(s);
                    o
                }
            },
            DOp::Drop(s) => match sessions.remove(s) {
                None => "nosession".into(),
                Some(x) => {
                    drop(x);
                    "ok".into()
                }
            },
            DOp::Exec(s, st) => match sessions.get_mut(s) {
                None => "nosession".into(),
                Some(x) => {
                    let r = x.execute(&sql_of(st)).map_err(|e| e.to_string());
                    hist::show_result(r, is_read(st), &mut diag)
                }
            },
            DOp::Auto(st) => {
                let r = db.execute(&sql_of(st)).map_err(|e| e.to_string());
                hist::show_result(r, is_read(st), &mut diag)
            }
            DOp::Vacuum => {
                let o = match db.vacuum() {
                    Ok(_) => "ok".to_string(),
                    Err(e) => {
                        diag.push(e.to_string().chars().take(100).collect());
                        hist::err_class(&e.to_string()).to_string()
                    }
                };
                // VACUUM has rolled back every open transaction; the session objects are never finished (leaked): nothing
                // but the VACUUM itself and the close may have recorded their rollback
                for (_, s) in std::mem::take(&mut sessions) {
                    std::mem::forget(s);
                }
                o
            }
            DOp::Audit => continue,
            DOp::Reopen => {
                sessions.clear();
                drop(db);
                match Database::open(&path, DBConfig::default()) {
                    Ok(d) => {
                        db = d;
                        "ok".to_string()
                    }
                    Err(e) => return format!("{} open-failed ## {}", outs.join(" "), e),
                }
            }
        };
        outs.push(o);
    }
    drop(sessions);
    let mut fin: Vec<String> = Vec::new();
    for t in tables_of(ops) {
        let r = db.execute(&format!("SELECT * FROM {}", t)).map_err(|e| e.to_string());
        fin.push(format!("{}={}", t, hist::show_result(r, true, &mut diag)));
    }
    if matches!(ops.last(), Some(DOp::Audit)) {
        // live index relations: physical rows of the meta table that stand for an index, whose creator has not rolled
        // back and that carry no delete mark of a transaction that has not rolled back (no transaction is open here)
        match axmosdb::verif::pager::database_roots(&db) {
            Ok(roots) => {
                let n = roots
                    .iter()
                    .filter(|r| r.is_index && r.name != "meta_index" && !r.xmin_aborted && (r.xmax.is_none() || r.xmax_aborted))
                    .count();
                fin.push(format!("ix={}", n));
            }
            Err(e) => fin.push(format!("ix=error:{}", e)),
        }
    }
    drop(db);
    let mut line = format!("{} | {}", outs.join(" "), fin.join(" "));
    if !diag.is_empty() {
        line.push_str(" ## ");
        line.push_str(&diag.join(" // "));
    }
    line
}

// ------------------------------------------------------------------------------------------------ generation
//
// A case is a random walk over two or three table names.  The generator tracks the committed catalog (columns, row
// count) to build valid and deliberately invalid statements.  Clean region: CREATE TABLE anywhere; DROP TABLE,
// constraints, SET / DROP NOT NULL in autocommit or in a session that commits; ADD / DROP COLUMN on empty tables;
// DML around them; reopen.  Finding features (at most one per case):
//   alter_populated       ADD / DROP COLUMN on a table that has rows                      (region)
//   drop_in_open_txn      DROP TABLE inside a session that rolls back, or while another open session reads it   (clean since
//                         main's 3729a46: the tree stays until VACUUM)
//   index_ddl_rollback    CREATE UNIQUE INDEX / ADD CONSTRAINT inside a session that rolls back                   (region)
//   alter_rollback        other ALTER inside a session that rolls back       (flag updateKeepsInserterXmin)
//   concurrent_create     two open sessions create the same name: the second CREATE is refused with a conflict when it
//                         runs (fix e915fd1; the specification refuses the second COMMIT)   (flag createRefusedWhileNameHeld)

#[derive(Clone)]
struct GTable {
    cols: Vec<(String, &'static str)>, // (name, type)
    rows: usize,
    next_key: i64,
    /// some INSERT into the table was ever executed, committed or not: the row is physically in the table
    dirty: bool,
}

fn g_ins(t: &str, g: &mut GTable) -> String {
    let k = g.next_key;
    g.next_key += 1;
    g.rows += 1;
    g.dirty = true;
    let vals: Vec<String> = g
        .cols
        .iter()
        .enumerate()
        .map(|(i, (_, ty))| if *ty == "text" { "'a'".to_string() } else if i == 0 { k.to_string() } else { (10 * k + i as i64).to_string() })
        .collect();
    format!("ins {} {}", t, vals.join(" "))
}

fn g_create(rng: &mut Rng, t: &str) -> (String, GTable) {
    let n = rng.range(2, 3) as usize;
    let names = ["k", "v", "w"];
    let mut cols = Vec::new();
    let mut spec = Vec::new();
    for i in 0..n {
        let ty = if i == 0 { "big" } else { *rng.pick(&["int", "int", "text"]) };
        cols.push((names[i].to_string(), ty));
        let mut c = format!("{}:{}", names[i], ty);
        if i == 0 && rng.chance(1, 8) {
            c.push('*');
        }
        spec.push(c);
    }
    (format!("ct {}({})", t, spec.join(",")), GTable { cols, rows: 0, next_key: 1, dirty: false })
}

fn gen_c15(rng: &mut Rng, out: &mut Vec<Case>) {
    let names = ["t", "u"];
    let mut cat: BTreeMap<String, GTable> = BTreeMap::new();
    let mut ops: Vec<String> = Vec::new();
    let mut tags: Vec<String> = vec!["c15".into()];
    let mut add_tag = |tags: &mut Vec<String>, t: &str| {
        if !tags.iter().any(|x| x == t) {
            tags.push(t.to_string());
        }
    };
    let feature = match rng.below(100) {
        0..=69 => "",
        70..=78 => "alter_populated",
        79..=85 => "drop_in_open_txn",
        86..=91 => "index_ddl_rollback",
        92..=97 => "alter_rollback",
        _ => "concurrent_create",
    };
    let n_steps = rng.range(4, 9);
    // catalog entries created so far (tables, unique indexes, warm-up).  Until main's 9fb3e8e (key-only dividers in
    // the B+tree) a catalog entry growing in a full meta page broke the catalog tree and cases had to stay below six
    // entries; now one case in three may grow the catalog as far as its steps allow.
    let cap: i64 = if rng.chance(1, 3) { 100 } else { 5 };
    let created = |ops: &Vec<String>| -> i64 {
        let mut n = 1;
        for blk in ops {
            for op in blk.split(" ; ") {
                let ws: Vec<&str> = op.split_whitespace().collect();
                if ws.len() >= 3 {
                    match ws[1] {
                        "ct" => n += 1 + ws[2].matches('*').count() as i64 + ws[2].matches('/').count() as i64,
                        "ci" | "ak" => n += 1,
                        _ => {}
                    }
                }
            }
        }
        n
    };
    let feature_at = rng.below(n_steps as u64) as i64;
    let mut nt = false;
    let mut extra_col = 0;
    for step in 0..n_steps {
        // make sure something exists
        if (cat.is_empty() || (cat.len() < 2 && rng.chance(1, 3))) && (cat.is_empty() || created(&ops) + 2 <= cap) {
            let t = names.iter().find(|n| !cat.contains_key(**n)).unwrap();
            let (sql, g) = g_create(rng, t);
            match rng.below(4) {
                0 => {
                    // created and populated inside a session that commits, observed from outside before and after
                    let mut g = g;
                    ops.push(format!("s1 begin ; s1 {} ; s1 {} ; s1 sel {} ; db sel {} ; s1 commit ; db sel {}", sql, g_ins(t, &mut g), t, t, t));
                    cat.insert(t.to_string(), g);
                    add_tag(&mut tags, "create_in_committed_txn");
                }
                1 => {
                    // created inside a session that rolls back: the name must stay free
                    let mut g2 = g.clone();
                    ops.push(format!("s1 begin ; s1 {} ; s1 {} ; s1 sel {} ; s1 {} ; db sel {}", sql, g_ins(t, &mut g2), t, if rng.chance(1, 2) { "rollback" } else { "drop" }, t));
                    add_tag(&mut tags, "create_in_rolled_back_txn");
                    nt = true;
                }
                _ => {
                    ops.push(format!("db {}", sql));
                    cat.insert(t.to_string(), g);
                }
            }
            continue;
        }
        let tnames: Vec<String> = cat.keys().cloned().collect();
        let t = rng.pick(&tnames).clone();
        if step == feature_at && !feature.is_empty() && created(&ops) + 2 <= cap {
            let g = cat.get_mut(&t).unwrap();
            match feature {
                "alter_populated" => {
                    if g.rows == 0 {
                        ops.push(format!("db {}", g_ins(&t, g)));
                    }
                    if rng.chance(1, 2) || g.cols.len() < 2 {
                        extra_col += 1;
                        let cn = format!("x{}", extra_col);
                        ops.push(format!("db ac {} {}:int{}", t, cn, if rng.chance(1, 2) { "=7" } else { "" }));
                        g.cols.push((cn, "int"));
                    } else {
                        let i = rng.range(1, g.cols.len() as i64 - 1) as usize;
                        let cn = g.cols.remove(i).0;
                        ops.push(format!("db dc {} {}", t, cn));
                    }
                    ops.push(format!("db sel {}", t));
                    add_tag(&mut tags, "alter_populated");
                    nt = true;
                }
                "drop_in_open_txn" => {
                    if rng.chance(1, 2) {
                        ops.push(format!("s1 begin ; s1 dt {} ; s1 sel {} ; s1 {} ; db sel {}", t, t, if rng.chance(1, 2) { "rollback" } else { "drop" }, t));
                    } else {
                        ops.push(format!("s2 begin ; s2 sel {} ; s1 begin ; s1 dt {} ; s1 commit ; s2 sel {} ; s2 commit ; db sel {}", t, t, t, t));
                        cat.remove(&t);
                    }
                    add_tag(&mut tags, "drop_in_open_txn");
                    nt = true;
                }
                "index_ddl_rollback" => {
                    let how = if rng.chance(1, 2) { "ci" } else { "ak" };
                    let g = cat.get_mut(&t).unwrap();
                    g.dirty = true;
                    ops.push(format!("s1 begin ; s1 {} {} k ; s1 {} ; s1 rollback ; db {} ; db sel {}", how, t, g_ins(&t, &mut g.clone()), g_ins(&t, g), t));
                    add_tag(&mut tags, "index_ddl_rollback");
                    nt = true;
                }
                "alter_rollback" => {
                    let g = cat.get_mut(&t).unwrap();
                    let end = if rng.chance(1, 2) { "rollback" } else { "drop" };
                    if !g.dirty && rng.chance(1, 2) {
                        // ADD COLUMN rolled back: a row of the old shape must still be accepted
                        extra_col += 1;
                        ops.push(format!("s1 begin ; s1 ac {} y{}:int ; s1 {} ; db sel {} ; db {} ; db sel {}", t, extra_col, end, t, g_ins(&t, g), t));
                    } else if g.cols.len() > 1 && g.cols[1].1 == "int" {
                        // SET NOT NULL rolled back: a NULL must still be accepted
                        let c = g.cols[1].0.clone();
                        let k = g.next_key;
                        g.next_key += 1;
                        g.rows += 1;
                        g.dirty = true;
                        let mut vals: Vec<String> = g.cols.iter().map(|(_, ty)| if *ty == "text" { "'a'".to_string() } else { k.to_string() }).collect();
                        vals[1] = "null".into();
                        ops.push(format!("s1 begin ; s1 sn {} {} ; s1 {} ; db ins {} {} ; db sel {}", t, c, end, t, vals.join(" "), t));
                    } else {
                        let c = g.cols.last().unwrap().0.clone();
                        ops.push(format!("s1 begin ; s1 dn {} {} ; s1 {} ; db {} ; db sel {}", t, c, end, g_ins(&t, g), t));
                    }
                    add_tag(&mut tags, "alter_rollback");
                    nt = true;
                }
                _ => {
                    let free = names.iter().find(|n| !cat.contains_key(**n));
                    if let Some(n) = free {
                        ops.push(format!("s1 begin ; s2 begin ; s1 ct {}(k:big) ; s2 ct {}(k:int) ; s1 commit ; s2 commit ; db sel {}", n, n, n));
                        cat.insert(n.to_string(), GTable { cols: vec![("k".into(), "big")], rows: 0, next_key: 1, dirty: false });
                        add_tag(&mut tags, "concurrent_create");
                    }
                }
            }
            continue;
        }
        let g = cat.get_mut(&t).unwrap();
        let room = cap - created(&ops);
        let mut pick = rng.below(14);
        // steps 4, 5, 8, 12, 13 create catalog entries
        if room < 2 && matches!(pick, 4 | 5 | 8 | 12 | 13) {
            pick = *rng.pick(&[0u64, 1, 3, 7, 9, 10]);
        }
        match pick {
            0 | 1 | 2 => {
                ops.push(format!("db {}", g_ins(&t, g)));
                ops.push(format!("db sel {}", t));
            }
            3 => {
                // session with DML that commits or rolls back, while an observer reads another table (frame)
                let other = tnames.iter().find(|x| **x != t);
                let end = if rng.chance(1, 2) { "commit" } else { "rollback" };
                let mut g2 = g.clone();
                let ins = g_ins(&t, &mut g2);
                g.dirty = true;
                let mut blk = format!("s1 begin ; s1 {}", ins);
                if let Some(o) = other {
                    blk.push_str(&format!(" ; db sel {}", o));
                }
                blk.push_str(&format!(" ; s1 {} ; db sel {}", end, t));
                if end == "commit" {
                    *g = g2;
                }
                ops.push(blk);
            }
            4 => {
                // drop (autocommit), the name is free again; sometimes re-created with another shape at once
                ops.push(format!("db dt {}", t));
                ops.push(format!("db sel {}", t));
                cat.remove(&t);
                add_tag(&mut tags, "drop_table");
                if rng.chance(1, 2) {
                    let (sql, g) = g_create(rng, &t);
                    ops.push(format!("db {}", sql));
                    ops.push(format!("db sel {}", t));
                    cat.insert(t.clone(), g);
                    add_tag(&mut tags, "name_reused");
                }
            }
            5 => {
                // drop + create of the same name inside one committed session
                let (sql, mut g2) = g_create(rng, &t);
                ops.push(format!("s1 begin ; s1 dt {} ; s1 {} ; s1 {} ; s1 sel {} ; s1 commit ; db sel {}", t, sql, g_ins(&t, &mut g2), t, t));
                cat.insert(t.clone(), g2);
                add_tag(&mut tags, "drop_table");
                add_tag(&mut tags, "name_reused");
            }
            6 => {
                // column added / dropped while the table is empty
                if !g.dirty {
                    if rng.chance(1, 2) || g.cols.len() < 2 {
                        extra_col += 1;
                        let cn = format!("x{}", extra_col);
                        ops.push(format!("db ac {} {}:int", t, cn));
                        g.cols.push((cn, "int"));
                        add_tag(&mut tags, "add_column_empty");
                    } else {
                        let cn = g.cols.pop().unwrap().0;
                        ops.push(format!("db dc {} {}", t, cn));
                        add_tag(&mut tags, "drop_column_empty");
                    }
                    ops.push(format!("db {}", g_ins(&t, g)));
                    ops.push(format!("db sel {}", t));
                    nt = true;
                }
            }
            7 => {
                // NOT NULL set / dropped (autocommit or in a committed session), then a NULL is tried
                if g.cols.len() > 1 && g.cols[1].1 == "int" {
                    let c = g.cols[1].0.clone();
                    let which = if rng.chance(1, 2) { "sn" } else { "dn" };
                    if rng.chance(1, 2) {
                        ops.push(format!("db {} {} {}", which, t, c));
                    } else {
                        ops.push(format!("s1 begin ; s1 {} {} {} ; s1 commit", which, t, c));
                    }
                    let k = g.next_key;
                    let mut vals: Vec<String> = g.cols.iter().map(|(_, ty)| if *ty == "text" { "'a'".to_string() } else { k.to_string() }).collect();
                    vals[1] = "null".into();
                    ops.push(format!("db ins {} {}", t, vals.join(" ")));
                    ops.push(format!("db sel {}", t));
                    // the model decides whether the NULL row went in; the generator only needs the key to stay fresh
                    g.next_key += 1;
                    g.rows += 1;
                    g.dirty = true;
                    add_tag(&mut tags, "not_null_ddl");
                    nt = true;
                }
            }
            8 => {
                // unique key added by CREATE UNIQUE INDEX / ALTER (autocommit), then a duplicate is tried
                if g.cols[0].1 == "big" && !tags.iter().any(|x| x == "key_added") {
                    ops.push(format!("db {} {} k", if rng.chance(1, 2) { "ci" } else { "ak" }, t));
                    ops.push(format!("db {}", g_ins(&t, g)));
                    let dup = g.next_key - 1;
                    let vals: Vec<String> = g.cols.iter().enumerate().map(|(i, (_, ty))| if *ty == "text" { "'a'".to_string() } else if i == 0 { dup.to_string() } else { "1".to_string() }).collect();
                    ops.push(format!("db ins {} {}", t, vals.join(" ")));
                    ops.push(format!("db sel {}", t));
                    add_tag(&mut tags, "key_added");
                    nt = true;
                }
            }
            9 => {
                // statements on names that do not exist, on existing names that must be refused
                let missing = names.iter().find(|n| !cat.contains_key(**n)).copied().unwrap_or("zz");
                match rng.below(4) {
                    0 => ops.push(format!("db sel {}", missing)),
                    1 => ops.push(format!("db dt {}", missing)),
                    2 => ops.push(format!("db ct {}(k:big)", t)),
                    _ => ops.push(format!("db dc {} qq", t)),
                }
                add_tag(&mut tags, "refused_ddl");
            }
            10 | 11 => {
                ops.push("reopen".into());
                for n in &tnames {
                    ops.push(format!("db sel {}", n));
                }
                add_tag(&mut tags, "reopen");
            }
            12 => {
                // an open session loses its work at reopen
                let mut g2 = g.clone();
                g.dirty = true;
                ops.push(format!("s1 begin ; s1 {} ; s1 ct zz(k:big) ; reopen ; db sel {} ; db sel zz", g_ins(&t, &mut g2), t));
                add_tag(&mut tags, "reopen");
                add_tag(&mut tags, "reopen_with_open_session");
                nt = true;
            }
            _ => {
                // a reader that began before a CREATE commits does not resolve the name; a later one does
                let free = names.iter().find(|n| !cat.contains_key(**n));
                if let Some(n) = free {
                    ops.push(format!("s2 begin ; db ct {}(k:big,v:int) ; db ins {} 1 2 ; s2 sel {} ; s2 commit ; db sel {}", n, n, n, n));
                    cat.insert(n.to_string(), GTable { cols: vec![("k".into(), "big"), ("v".into(), "int")], rows: 1, next_key: 2, dirty: true });
                    add_tag(&mut tags, "name_visibility");
                }
            }
        }
    }
    // descriptive tag `catalog_pressure` (clean since 9fb3e8e): six or more catalog entries (tables, unique indexes, the
    // warm-up table) were alive in the case, i.e. catalog entries grow in a full meta page
    let line = ops.join(" ; ");
    let mut alive: i64 = 1;
    let mut peak: i64 = 1;
    for op in line.split(" ; ") {
        let ws: Vec<&str> = op.split_whitespace().collect();
        if ws.len() >= 3 {
            match ws[1] {
                "ct" => alive += 1 + ws[2].matches('*').count() as i64 + ws[2].matches('/').count() as i64,
                "ci" | "ak" => alive += 1,
                // dropped entries stay in the meta page as dead tuples: nothing is subtracted
                _ => {}
            }
        }
        peak = peak.max(alive);
    }
    if peak >= 6 {
        tags.push("catalog_pressure".into());
    }
    let kf = ["alter_populated", "index_ddl_rollback", "alter_rollback", "concurrent_create"]
        .iter()
        .find(|f| tags.iter().any(|t| t == *f));
    match kf {
        Some(f) => tags.push(format!("kf:{}", f)),
        None => tags.push("clean".into()),
    }
    if nt {
        tags.push("nt".into());
    }
    out.push(Case { line: format!("ddl | {}", line), tags });
}

/// DROP COLUMN (last / middle / first) then ADD COLUMN (same name / new name) on a table that never held a row, rows
/// inserted afterwards, and every column name — dropped, re-added, new, surviving — resolved by a later statement;
/// in autocommit or inside a committed session, sometimes followed by reopen.  (A stale name → position map in the
/// stored schema shows only through these follow-ups.)
fn gen_drop_then_add(rng: &mut Rng, out: &mut Vec<Case>) {
    let t = "t";
    let n = rng.range(2, 4) as usize;
    let names = ["a", "b", "c", "d"];
    let mut cols: Vec<String> = names[..n].iter().map(|x| x.to_string()).collect();
    let mut ops: Vec<String> = Vec::new();
    ops.push(format!("db ct {}({})", t, cols.iter().map(|c| format!("{}:int", c)).collect::<Vec<_>>().join(",")));
    let mut ever: Vec<String> = cols.clone();
    let in_session = rng.chance(1, 3);
    let pfx = if in_session { "s1" } else { "db" };
    if in_session {
        ops.push("s1 begin".into());
    }
    let rounds = rng.range(1, 2);
    let mut fresh = 0;
    for _ in 0..rounds {
        if cols.len() < 2 {
            break;
        }
        let which = match rng.below(3) {
            0 => cols.len() - 1,
            1 => cols.len() / 2,
            _ => 0,
        };
        let gone = cols.remove(which);
        ops.push(format!("{} dc {} {}", pfx, t, gone));
        ops.push(format!("{} sel {} where {} ge 0", pfx, t, gone));
        let newname = if rng.chance(1, 2) {
            gone.clone()
        } else {
            fresh += 1;
            format!("n{}", fresh)
        };
        ops.push(format!("{} ac {} {}:int", pfx, t, newname));
        cols.push(newname.clone());
        if !ever.contains(&newname) {
            ever.push(newname);
        }
    }
    // an existing column name must be refused (the table is still empty: no schema change, no populated ALTER)
    ops.push(format!("{} ac {} {}:int", pfx, t, cols[0]));
    if in_session {
        ops.push("s1 commit".into());
    }
    // rows after all ALTERs: value of column i of row r is 10*r + i
    for r in 1..=2 {
        let vals: Vec<String> = (0..cols.len()).map(|i| (10 * r + i as i64).to_string()).collect();
        ops.push(format!("db ins {} {}", t, vals.join(" ")));
    }
    let probe = |ops: &mut Vec<String>| {
        ops.push(format!("db sel {}", t));
        for c in &ever {
            ops.push(format!("db sel {} where {} ge 0", t, c));
        }
    };
    probe(&mut ops);
    if rng.chance(1, 2) {
        ops.push("reopen".into());
        probe(&mut ops);
    }
    let tags: Vec<String> = vec!["c15".into(), "drop_then_add_column".into(), "nt".into(), "clean".into()];
    out.push(Case { line: format!("ddl | {}", ops.join(" ; ")), tags });
}

/// DROP TABLE in a session that rolls back (or is dropped), later — with nothing but reads, inserts or a reopen in
/// between — a DROP TABLE that commits, then the name is probed, created again with another shape, filled and read,
/// sometimes across a reopen.  (The rolled-back DROP leaves its mark on the catalog row; the committed DROP must not
/// take that mark for its own work.)  Clean region.
fn gen_drop_after_rolled_back_drop(rng: &mut Rng, out: &mut Vec<Case>) {
    let t = "t";
    let mut ops: Vec<String> = Vec::new();
    let unique = rng.chance(1, 3);
    ops.push(format!("db ct {}(k:big{},v:int)", t, if unique { "*" } else { "" }));
    let n = rng.range(0, 2);
    for i in 1..=n {
        ops.push(format!("db ins {} {} {}", t, i, 10 * i));
    }
    if rng.chance(1, 3) {
        ops.push("db ct u(k:big)".into());
    }
    // the DROP that does not happen, once or twice
    for _ in 0..rng.range(1, 2) {
        let end = if rng.chance(1, 2) { "rollback" } else { "drop" };
        if rng.chance(1, 2) {
            ops.push(format!("s1 begin ; s1 dt {} ; s1 sel {} ; s1 {}", t, t, end));
        } else {
            ops.push(format!("s1 begin ; s1 ins {} 7 70 ; s1 dt {} ; s1 {}", t, t, end));
        }
        ops.push(format!("db sel {}", t));
    }
    match rng.below(3) {
        0 => ops.push(format!("db ins {} 8 80 ; db sel {}", t, t)),
        1 => ops.push(format!("reopen ; db sel {}", t)),
        _ => {}
    }
    // the DROP that happens
    match rng.below(3) {
        0 => ops.push(format!("s1 begin ; s1 dt {} ; s1 commit", t)),
        1 => ops.push(format!("s2 begin ; s1 begin ; s1 dt {} ; s1 commit ; s2 sel {} ; s2 commit", t, t)),
        _ => ops.push(format!("db dt {}", t)),
    }
    let probe = |ops: &mut Vec<String>| {
        ops.push(format!("db sel {}", t));
        ops.push(format!("db ins {} 9 90", t));
        ops.push(format!("db dt {}", t));
    };
    probe(&mut ops);
    if rng.chance(1, 3) {
        ops.push("reopen".into());
        probe(&mut ops);
    }
    // the name is free: another shape
    ops.push(format!("db ct {}(a:int,b:int,c:int)", t));
    ops.push(format!("db ins {} 1 2 3 ; db sel {}", t, t));
    if rng.chance(1, 2) {
        ops.push(format!("reopen ; db sel {} ; db ins {} 4 5 6 ; db sel {}", t, t, t));
    }
    let tags: Vec<String> = vec!["c15".into(), "drop_after_rolled_back_drop".into(), "nt".into(), "clean".into()];
    out.push(Case { line: format!("ddl | {}", ops.join(" ; ")), tags });
}

/// Tables with named and unnamed unique indexes and declared keys, dropped by plain DROP TABLE or DROP TABLE … CASCADE
/// (autocommit, in a committed session, or first in a session that rolls back), VACUUM and reopen in between, then the
/// table name AND the index names are used again (same table, or the index name on another table), rows inserted
/// against the new indexes; the case ends with the audit of the catalog: as many live index relations as the live
/// tables have keys — an index must go with its table, whatever the CASCADE flag says.  Clean region.
fn gen_drop_with_indexes(rng: &mut Rng, out: &mut Vec<Case>) {
    let mut ops: Vec<String> = Vec::new();
    let decl_unique = rng.chance(1, 2);
    ops.push(format!("db ct t(k:big{},v:int,w:int)", if decl_unique { "*" } else { "" }));
    // one or two indexes created afterwards: a named one, an unnamed one (ix<t><cols>), or a constraint
    match rng.below(3) {
        0 => ops.push("db cin ixa t v".into()),
        1 => ops.push("db ci t v".into()),
        _ => ops.push("db ak t v".into()),
    }
    if rng.chance(1, 2) {
        ops.push("db cin ixb t v+w".into());
    }
    ops.push("db ins t 1 10 100 ; db ins t 2 20 200".into());
    if rng.chance(1, 2) {
        ops.push("db ct u(a:int*,b:int)".into());
        ops.push("db ins u 1 1".into());
    }
    // a DROP that does not happen
    if rng.chance(1, 3) {
        let d = if rng.chance(1, 2) { "dt" } else { "dtc" };
        ops.push(format!("s1 begin ; s1 {} t ; s1 rollback ; db ins t 3 30 300 ; db ins t 4 30 400 ; db sel t", d));
    }
    // the DROP
    let d = if rng.chance(1, 2) { "dt" } else { "dtc" };
    match rng.below(3) {
        0 => ops.push(format!("s1 begin ; s1 {} t ; s1 commit", d)),
        _ => ops.push(format!("db {} t", d)),
    }
    ops.push("db sel t".into());
    match rng.below(4) {
        0 => ops.push("vacuum".into()),
        1 => ops.push("reopen".into()),
        2 => ops.push("vacuum ; reopen".into()),
        _ => {}
    }
    // the names come back
    if rng.chance(2, 3) {
        ops.push(format!("db ct t(k:big{},v:int,w:int)", if rng.chance(1, 2) { "*" } else { "" }));
        match rng.below(3) {
            0 => ops.push("db ci t v".into()),
            1 => ops.push("db ak t v".into()),
            _ => ops.push("db cin ixa t v".into()),
        }
        if rng.chance(1, 2) {
            // `ixb` belonged to the dropped table, or to nobody
            ops.push("db cin ixb t k+w".into());
        }
        ops.push("db ins t 5 50 500 ; db ins t 6 50 600 ; db ins t 7 70 700 ; db sel t".into());
    } else {
        // the index names on another table
        ops.push("db ct x(a:int,b:int)".into());
        ops.push("db cin ixa x a".into());
        if rng.chance(1, 2) {
            ops.push("db cin ixb x a+b".into());
        }
        ops.push("db ins x 1 1 ; db ins x 1 2 ; db ins x 2 1 ; db sel x".into());
    }
    if rng.chance(1, 2) {
        ops.push("reopen".into());
    }
    if rng.chance(1, 3) {
        ops.push("vacuum".into());
    }
    ops.push("audit".into());
    let tags: Vec<String> = vec!["c15".into(), "drop_with_indexes".into(), "nt".into(), "clean".into()];
    out.push(Case { line: format!("ddl | {}", ops.join(" ; ")), tags });
}

/// A transaction REFUSED at commit stays rolled back across a reopen, all three kinds of write-set conflict: the same row
/// (both delete it; the loser is the first deleter), the same unique key (the loser is the second inserter), the same
/// table NAME (the loser created the name and dropped it again, the winner created it meanwhile — the name stays in the
/// loser's write set, finding commitChecksInsertedKeysOnly).  The loser also inserts into another table and creates a
/// table of its own; after the refused COMMIT more work is committed, then reopen and reads.
fn gen_refused_commit_reopen(rng: &mut Rng, out: &mut Vec<Case>) {
    let mut ops: Vec<String> = vec!["db ct u(k:big*,v:int)".into(), "db ins u 1 10 ; db ins u 2 20".into()];
    let kind = rng.below(3);
    let (lo, wi) = if rng.chance(1, 2) { ("s1", "s2") } else { ("s2", "s1") };
    ops.push(format!("{} begin ; {} begin", lo, wi));
    let mut tags: Vec<String> = vec!["c15".into(), "refused_commit_reopen".into(), "reopen".into(), "nt".into()];
    match kind {
        0 => {
            ops.push(format!("{} del u where v eq 10 ; {} del u where v eq 10", lo, wi));
            tags.push("refused_same_row".into());
            tags.push("clean".into());
        }
        1 => {
            ops.push(format!("{} ins u 5 50 ; {} ins u 5 51", wi, lo));
            tags.push("refused_same_key".into());
            tags.push("clean".into());
        }
        _ => {
            ops.push(format!("{} ct t(k:big) ; {} dt t ; {} ct t(k:int,v:int)", lo, lo, wi));
            tags.push("refused_same_name".into());
            tags.push("kf:refused_same_name".into());
        }
    }
    // the loser's other work
    ops.push(format!("{} ins u 7 70", lo));
    if rng.chance(1, 2) {
        ops.push(format!("{} ct w(a:int) ; {} ins w 1", lo, lo));
    }
    ops.push(format!("{} commit ; {} commit", wi, lo));
    match rng.below(3) {
        0 => ops.push("db ins u 8 80".into()),
        1 => ops.push("s3 begin ; s3 ins u 8 80 ; s3 commit".into()),
        _ => {}
    }
    if rng.chance(1, 3) {
        ops.push("db sel u".into());
    }
    ops.push("reopen".into());
    ops.push("db sel u ; db sel w ; db sel t".into());
    // what only the loser had inserted is free
    ops.push("db ins u 7 71 ; db ct w(a:int,b:int) ; db ins w 1 2 ; db sel w".into());
    if rng.chance(1, 2) {
        ops.push("reopen ; db sel u ; db sel w".into());
    }
    out.push(Case { line: format!("ddl | {}", ops.join(" ; ")), tags });
}

/// VACUUM while a session holds uncommitted work — rows, and a table it created: VACUUM rolls the transaction back and
/// the session object is never finished; after close and reopen (once or twice) nothing of it may be there.  With and
/// without a commit between the session's begin and the VACUUM.  Clean region.
fn gen_vacuum_open_session(rng: &mut Rng, out: &mut Vec<Case>) {
    let mut ops: Vec<String> = vec!["db ct u(k:big*,v:int)".into(), "db ins u 1 10 ; db ins u 2 20".into()];
    ops.push("s1 begin".into());
    ops.push("s1 ins u 7 70".into());
    if rng.chance(2, 3) {
        ops.push("s1 ct w(a:int,b:int) ; s1 ins w 1 2".into());
    }
    if rng.chance(1, 3) {
        ops.push("s1 del u where v eq 10".into());
    }
    if rng.chance(1, 3) {
        ops.push("s2 begin ; s2 ins u 8 80".into());
    }
    if rng.chance(1, 3) {
        // a commit after the session began moves the horizon past it
        ops.push("db ins u 3 30".into());
    }
    ops.push("vacuum".into());
    if rng.chance(1, 2) {
        ops.push("db sel u ; db sel w".into());
    }
    if rng.chance(1, 3) {
        ops.push("db ins u 4 40".into());
    }
    ops.push("reopen".into());
    ops.push("db sel u ; db sel w ; db ins u 7 71 ; db ct w(a:int) ; db ins w 5 ; db sel w".into());
    if rng.chance(1, 2) {
        ops.push("reopen ; db sel u ; db sel w".into());
    }
    ops.push("audit".into());
    let tags: Vec<String> = vec!["c15".into(), "vacuum_open_session".into(), "reopen".into(), "nt".into(), "clean".into()];
    out.push(Case { line: format!("ddl | {}", ops.join(" ; ")), tags });
}

/// CREATE UNIQUE INDEX / ADD CONSTRAINT UNIQUE over rows that collide: refused, and the table must stay usable (rows
/// inserted and read afterwards, duplicates still accepted); then the duplicates are deleted, the same DDL succeeds
/// and a duplicate is refused; in autocommit or inside a session that goes on and commits, sometimes with a reopen.
/// Clean region.
fn gen_index_over_duplicates(rng: &mut Rng, out: &mut Vec<Case>) {
    let t = "t";
    let mut ops: Vec<String> = Vec::new();
    ops.push(format!("db ct {}(k:big,v:int)", t));
    ops.push(format!("db ins {} 1 10 ; db ins {} 2 20 ; db ins {} 1 30", t, t, t));
    if rng.chance(1, 2) {
        ops.push(format!("db ins {} null 40 ; db ins {} null 50", t, t));
    }
    // (index names: a well-formed case does not use a name twice on a live table, see `index_names_well_formed`;
    // the attempt that fails and the one that succeeds therefore carry different names)
    let how = if rng.chance(1, 2) { "cin ixf" } else { "ak" };
    match rng.below(3) {
        0 => ops.push(format!("db {} {} k", how, t)),
        1 => ops.push(format!("s1 begin ; s1 {} {} k ; s1 ins {} 3 60 ; s1 commit", how, t, t)),
        _ => ops.push(format!("s1 begin ; s1 ins {} 3 60 ; s1 {} {} k ; s1 rollback", t, how, t)),
    }
    ops.push(format!("db sel {}", t));
    // the table is as it was: no constraint
    ops.push(format!("db ins {} 4 70 ; db ins {} 2 80 ; db sel {}", t, t, t));
    if rng.chance(1, 3) {
        ops.push(format!("reopen ; db ins {} 5 90 ; db sel {}", t, t));
    }
    // remove the duplicates (rows are addressed through v), try again
    ops.push(format!("db del {} where v eq 30 ; db del {} where v eq 80", t, t));
    let how2 = if rng.chance(1, 2) { "ci" } else { "ak" };
    let _ = how;
    ops.push(format!("db {} {} k ; db sel {}", how2, t, t));
    ops.push(format!("db ins {} 1 11 ; db ins {} 6 12 ; db ins {} null 13 ; db sel {}", t, t, t, t));
    if rng.chance(1, 2) {
        ops.push(format!("reopen ; db ins {} 2 14 ; db ins {} 7 15 ; db sel {}", t, t, t));
    }
    // PRIMARY KEY over a column that holds NULL: refused until the NULLs are gone
    if rng.chance(1, 2) {
        ops.push(format!("db ct p(k:big,v:int) ; db ins p null 1 ; db ins p 2 2 ; db ak p ^k ; db ins p null 3 ; db sel p"));
        ops.push("db del p where v eq 1 ; db del p where v eq 3 ; db ak p ^k ; db ins p null 4 ; db ins p 2 5 ; db ins p 3 6 ; db sel p".into());
    }
    let tags: Vec<String> = vec!["c15".into(), "index_over_duplicates".into(), "nt".into(), "clean".into()];
    out.push(Case { line: format!("ddl | {}", ops.join(" ; ")), tags });
}

impl Engine for DdlEngine {
    fn gen_cases(&self, rng: &mut Rng, tier: Tier) -> Vec<Case> {
        let mut out = Vec::new();
        for _ in 0..(if tier == Tier::Quick { 150 } else { 1500 }) {
            gen_drop_then_add(rng, &mut out);
        }
        for _ in 0..(if tier == Tier::Quick { 60 } else { 600 }) {
            gen_drop_after_rolled_back_drop(rng, &mut out);
        }
        for _ in 0..(if tier == Tier::Quick { 40 } else { 400 }) {
            gen_index_over_duplicates(rng, &mut out);
        }
        for _ in 0..(if tier == Tier::Quick { 60 } else { 600 }) {
            gen_drop_with_indexes(rng, &mut out);
        }
        for _ in 0..(if tier == Tier::Quick { 30 } else { 300 }) {
            gen_refused_commit_reopen(rng, &mut out);
        }
        for _ in 0..(if tier == Tier::Quick { 30 } else { 300 }) {
            gen_vacuum_open_session(rng, &mut out);
        }
        let want = if tier == Tier::Quick { 600 } else { 6000 };
        let want = want + out.len();
        while out.len() < want {
            gen_c15(rng, &mut out);
        }
        out
    }
    fn exec(&mut self, line: &str) -> String {
        run_case(line)
    }
    fn timeout_ms(&self) -> u64 {
        120_000
    }
}

/// Content of `lean/AxVerif/Generated/<Engine>.lean`, if this engine extracts constants from the code.
pub fn generated() -> Option<(&'static str, String)> {
    None
}
