//! Engine `sql` (C05, reused by C06): whole statements through the public `Database` API against the Lean
//! reference evaluator.  The case syntax is documented in `lean/AxVerif/Driver/Sql.lean`.
//!
//! A case line carries a database (tables + rows) and a list of statements as prefix ASTs.  `exec` creates a
//! fresh database in a temporary directory, loads the rows, prints every statement as SQL text with *minimal
//! parentheses* under the documented precedence (so the real parser's precedence is exercised), runs it and
//! prints the canonical outcome.
use super::{Case, Engine, Tier};
use crate::rng::Rng;
use crate::util::{hex_or_dash, unhex};
use axmosdb::{DBConfig, DataType, Database, runtime::QueryResult};
use std::collections::BTreeSet;

pub struct SqlEngine;

// ------------------------------------------------------------------------------------------------ AST

#[derive(Clone, Debug, PartialEq)]
pub enum Val {
    Null,
    Int(i128),
    Bool(bool),
    Text(Vec<u8>),
    /// a double that is not an integer, by bit pattern
    F64(u64),
}

#[derive(Clone, Copy, Debug, PartialEq, Eq)]
pub enum Ty {
    Int,
    BigInt,
    Bool,
    Text,
    /// DOUBLE: stored, compared and shown, never computed with
    Double,
    /// UINT (32 bits), BIGUINT (64 bits)
    UInt,
    BigUInt,
    /// FLOAT: like DOUBLE
    Float,
}

#[derive(Clone, Debug)]
pub struct Table {
    pub tys: Vec<Ty>,
    pub rows: Vec<Vec<Val>>,
}

#[derive(Clone, Debug, PartialEq)]
pub enum E {
    Lit(Val),
    Col(usize),
    Not(Box<E>),
    Neg(Box<E>),
    Pos(Box<E>),
    And(Box<E>, Box<E>),
    Or(Box<E>, Box<E>),
    Cmp(&'static str, Box<E>, Box<E>),
    Arith(&'static str, Box<E>, Box<E>),
    Like(bool, Box<E>, Box<E>),
    IsNull(bool, Box<E>),
    Between(bool, Box<E>, Box<E>, Box<E>),
    InList(bool, Box<E>, Vec<E>),
    /// CASE [operand] WHEN .. THEN .. [ELSE ..] END: operand (simple CASE) or none (searched), arms, else
    Case(Option<Box<E>>, Vec<(E, E)>, Option<Box<E>>),
    /// UPPER / LOWER / LENGTH / LTRIM / RTRIM (the word of the case syntax: upper, lower, length, ltrim, rtrim)
    StrFn(&'static str, Box<E>),
    /// `a || b`
    Concat(Box<E>, Box<E>),
    /// NULLIF(a, b)
    NullIf(Box<E>, Box<E>),
    /// COALESCE(x1, …, xn)
    Coalesce(Vec<E>),
}

/// functions of one argument: the string functions, then ABS / CEIL / FLOOR / ROUND (DOUBLE results)
pub const STR_FNS: [&str; 9] = ["upper", "lower", "length", "ltrim", "rtrim", "abs", "ceil", "floor", "round"];

#[derive(Clone, Debug)]
pub enum From {
    Table(usize),
    Join(&'static str, Box<From>, Box<From>, Option<E>),
    /// derived table `(SELECT items FROM inner [WHERE w]) AS r`; its columns are c0, c1, …; written in place, or as a
    /// common table expression `WITH w AS (SELECT …) … FROM w AS r`
    Derived(Box<From>, Option<E>, Vec<E>, Cte),
}

/// how a derived table is written
#[derive(Clone, Copy, Debug, PartialEq)]
pub enum Cte {
    /// in place
    No,
    /// WITH w<i> AS (…)
    Named,
    /// WITH t<j> AS (…): the name of a table of the database (which the statement does not use otherwise)
    Shadow(usize),
}

#[derive(Clone, Debug)]
pub struct Agg {
    pub f: &'static str, // cnt* cnt sum avg min max
    pub arg: Option<E>,
}

#[derive(Clone, Debug)]
pub struct Select {
    pub distinct: bool,
    pub from: From,
    pub where_: Option<E>,
    pub group_by: Vec<E>,
    pub aggs: Vec<Agg>,
    pub items: Option<Vec<E>>,
    pub order_by: Vec<(usize, bool)>,
    pub limit: Option<u64>,
    pub offset: Option<u64>,
    /// HAVING, over the aggregate row (keys, then aggregates) — like `items` in an aggregate query
    pub having: Option<E>,
}

#[derive(Clone, Debug)]
pub enum Stmt {
    Select(Select),
    Insert(usize, Vec<Vec<E>>),
    /// INSERT with an optional column list and rows of any width (`insx`): also the ill-formed ones
    InsertX(usize, Option<Vec<usize>>, Vec<Vec<E>>),
    Update(usize, Vec<(usize, E)>, Option<E>),
    Delete(usize, Option<E>),
}

// ------------------------------------------------------------------------------------------------ case text

pub fn show_val(v: &Val) -> String {
    match v {
        Val::Null => "n".into(),
        Val::Int(i) => format!("i{}", i),
        Val::Bool(b) => if *b { "b1".into() } else { "b0".into() },
        Val::Text(s) => format!("t{}", hex_or_dash(s)),
        Val::F64(b) => format!("f{}", b),
    }
}

fn val_of_word(w: &str) -> Option<Val> {
    if w == "n" {
        return Some(Val::Null);
    }
    if w == "b0" {
        return Some(Val::Bool(false));
    }
    if w == "b1" {
        return Some(Val::Bool(true));
    }
    if let Some(r) = w.strip_prefix('i') {
        if r.starts_with('+') {
            return None;
        }
        return r.parse::<i128>().ok().map(Val::Int);
    }
    if let Some(r) = w.strip_prefix('t') {
        return unhex(r).map(Val::Text);
    }
    if let Some(r) = w.strip_prefix('f') {
        // the bit pattern of a double; NaNs are not values of the case syntax
        if r.is_empty() || !r.bytes().all(|c| c.is_ascii_digit()) {
            return None;
        }
        return r.parse::<u64>().ok().filter(|b| !f64::from_bits(*b).is_nan()).map(Val::F64);
    }
    None
}

fn ty_char(t: Ty) -> char {
    match t {
        Ty::Int => 'I',
        Ty::BigInt => 'B',
        Ty::Bool => 'O',
        Ty::Text => 'S',
        Ty::Double => 'D',
        Ty::UInt => 'U',
        Ty::BigUInt => 'W',
        Ty::Float => 'F',
    }
}

pub fn show_db(db: &[Table]) -> String {
    db.iter()
        .map(|t| {
            let tys: String = t.tys.iter().map(|t| ty_char(*t)).collect();
            let rows: Vec<String> =
                t.rows.iter().map(|r| r.iter().map(show_val).collect::<Vec<_>>().join(",")).collect();
            format!("{}={}", tys, rows.join("|"))
        })
        .collect::<Vec<_>>()
        .join("/")
}

fn parse_db(w: &str) -> Option<Vec<Table>> {
    let mut db = Vec::new();
    for tw in w.split('/') {
        let (tys, rows) = tw.split_once('=')?;
        if rows.contains('=') || tys.is_empty() {
            return None;
        }
        let tys: Option<Vec<Ty>> = tys
            .chars()
            .map(|c| match c {
                'I' => Some(Ty::Int),
                'B' => Some(Ty::BigInt),
                'O' => Some(Ty::Bool),
                'S' => Some(Ty::Text),
                'D' => Some(Ty::Double),
                'U' => Some(Ty::UInt),
                'W' => Some(Ty::BigUInt),
                'F' => Some(Ty::Float),
                _ => None,
            })
            .collect();
        let tys = tys?;
        let mut rs = Vec::new();
        if !rows.is_empty() {
            for r in rows.split('|') {
                let vs: Option<Vec<Val>> = r.split(',').map(val_of_word).collect();
                let vs = vs?;
                // a double lives in a DOUBLE column and nothing else does
                if vs.len() != tys.len()
                    || vs.iter().zip(&tys).any(|(v, t)| {
                        matches!(v, Val::F64(_)) != matches!(t, Ty::Double | Ty::Float) && *v != Val::Null
                    })
                {
                    return None;
                }
                rs.push(vs);
            }
        }
        db.push(Table { tys, rows: rs });
    }
    Some(db)
}

pub fn show_expr(e: &E, out: &mut Vec<String>) {
    match e {
        E::Lit(v) => out.push(show_val(v)),
        E::Col(i) => out.push(format!("c{}", i)),
        E::Not(a) => {
            out.push("not".into());
            show_expr(a, out)
        }
        E::Neg(a) => {
            out.push("neg".into());
            show_expr(a, out)
        }
        E::Pos(a) => {
            out.push("pos".into());
            show_expr(a, out)
        }
        E::And(a, b) => {
            out.push("and".into());
            show_expr(a, out);
            show_expr(b, out)
        }
        E::Or(a, b) => {
            out.push("or".into());
            show_expr(a, out);
            show_expr(b, out)
        }
        E::Cmp(op, a, b) | E::Arith(op, a, b) => {
            out.push(op.to_string());
            show_expr(a, out);
            show_expr(b, out)
        }
        E::Like(neg, a, b) => {
            out.push(if *neg { "nlike" } else { "like" }.into());
            show_expr(a, out);
            show_expr(b, out)
        }
        E::IsNull(neg, a) => {
            out.push(if *neg { "notnull" } else { "isnull" }.into());
            show_expr(a, out)
        }
        E::StrFn(f, a) => {
            out.push(f.to_string());
            show_expr(a, out)
        }
        E::Concat(a, b) => {
            out.push("cat".into());
            show_expr(a, out);
            show_expr(b, out)
        }
        E::NullIf(a, b) => {
            out.push("nullif".into());
            show_expr(a, out);
            show_expr(b, out)
        }
        E::Coalesce(xs) => {
            out.push(format!("coal{}", xs.len()));
            for x in xs {
                show_expr(x, out);
            }
        }
        E::Between(neg, a, b, c) => {
            out.push(if *neg { "nbtw" } else { "btw" }.into());
            show_expr(a, out);
            show_expr(b, out);
            show_expr(c, out)
        }
        E::InList(neg, a, xs) => {
            out.push(format!("{}{}", if *neg { "nin" } else { "in" }, xs.len()));
            show_expr(a, out);
            for x in xs {
                show_expr(x, out)
            }
        }
        E::Case(x, arms, els) => {
            out.push(format!("{}{}", if x.is_some() { "casex" } else { "case" }, arms.len()));
            if let Some(x) = x {
                show_expr(x, out)
            }
            for (c, r) in arms {
                show_expr(c, out);
                show_expr(r, out)
            }
            match els {
                Some(e) => {
                    out.push("else".into());
                    show_expr(e, out)
                }
                None => out.push("noelse".into()),
            }
        }
    }
}

fn show_from(f: &From, out: &mut Vec<String>) {
    match f {
        From::Table(t) => out.push(format!("t{}", t)),
        From::Join(k, l, r, on) => {
            out.push("j".into());
            out.push(k.to_string());
            show_from(l, out);
            show_from(r, out);
            match on {
                None => out.push("-".into()),
                Some(e) => {
                    out.push("on".into());
                    show_expr(e, out)
                }
            }
        }
        From::Derived(inner, w, items, cte) => {
            out.push(match cte {
                Cte::No => "d".into(),
                Cte::Named => "cte".into(),
                Cte::Shadow(j) => format!("ctes{}", j),
            });
            show_from(inner, out);
            show_where(w, out);
            out.push(format!("p{}", items.len()));
            for e in items {
                show_expr(e, out);
            }
        }
    }
}

fn show_where(w: &Option<E>, out: &mut Vec<String>) {
    match w {
        None => out.push("-".into()),
        Some(e) => {
            out.push("w".into());
            show_expr(e, out)
        }
    }
}

pub fn show_stmt(s: &Stmt) -> String {
    let mut out: Vec<String> = Vec::new();
    match s {
        Stmt::Select(q) => {
            out.push("sel".into());
            out.push(if q.distinct { "distinct" } else { "all" }.into());
            show_from(&q.from, &mut out);
            show_where(&q.where_, &mut out);
            out.push(format!("g{}", q.group_by.len()));
            for e in &q.group_by {
                show_expr(e, &mut out)
            }
            out.push(format!("a{}", q.aggs.len()));
            for a in &q.aggs {
                out.push(a.f.to_string());
                if let Some(e) = &a.arg {
                    show_expr(e, &mut out)
                }
            }
            if let Some(h) = &q.having {
                out.push("hv".into());
                show_expr(h, &mut out);
            }
            match &q.items {
                None => out.push("star".into()),
                Some(es) => {
                    out.push(format!("p{}", es.len()));
                    for e in es {
                        show_expr(e, &mut out)
                    }
                }
            }
            out.push(format!("o{}", q.order_by.len()));
            for (p, asc) in &q.order_by {
                out.push(format!("{}{}", if *asc { "a" } else { "d" }, p))
            }
            out.push(match q.limit {
                Some(l) => format!("lim{}", l),
                None => "lim-".into(),
            });
            out.push(match q.offset {
                Some(l) => format!("off{}", l),
                None => "off-".into(),
            });
        }
        Stmt::Insert(t, rows) => {
            out.push("ins".into());
            out.push(format!("t{}", t));
            out.push(format!("r{}", rows.len()));
            for r in rows {
                for e in r {
                    show_expr(e, &mut out)
                }
            }
        }
        Stmt::InsertX(t, cols, rows) => {
            out.push("insx".into());
            out.push(format!("t{}", t));
            match cols {
                None => out.push("nolist".into()),
                Some(cs) => {
                    out.push(format!("l{}", cs.len()));
                    for c in cs {
                        out.push(format!("c{}", c));
                    }
                }
            }
            out.push(format!("r{}", rows.len()));
            out.push(format!("v{}", rows.first().map(|r| r.len()).unwrap_or(0)));
            for r in rows {
                for e in r {
                    show_expr(e, &mut out)
                }
            }
        }
        Stmt::Update(t, sets, w) => {
            out.push("upd".into());
            out.push(format!("t{}", t));
            out.push(format!("s{}", sets.len()));
            for (c, e) in sets {
                out.push(format!("c{}", c));
                show_expr(e, &mut out)
            }
            show_where(w, &mut out);
        }
        Stmt::Delete(t, w) => {
            out.push("del".into());
            out.push(format!("t{}", t));
            show_where(w, &mut out);
        }
    }
    out.join(" ")
}

struct Toks<'a> {
    ws: Vec<&'a str>,
    pos: usize,
}

impl<'a> Toks<'a> {
    fn next(&mut self) -> Option<&'a str> {
        let w = self.ws.get(self.pos).copied();
        self.pos += 1;
        w
    }
    fn done(&self) -> bool {
        self.pos == self.ws.len()
    }
}

fn num_after(pre: &str, w: &str) -> Option<usize> {
    let r = w.strip_prefix(pre)?;
    if r.is_empty() || !r.bytes().all(|b| b.is_ascii_digit()) {
        return None;
    }
    r.parse().ok()
}

/// aggregate functions of the case syntax; the `…d` forms are AGG(DISTINCT …)
pub const AGG_FNS: [&str; 11] = ["cnt*", "cnt", "sum", "avg", "min", "max", "cntd", "sumd", "avgd", "mind", "maxd"];

const CMP_OPS: [&str; 6] = ["eq", "ne", "lt", "le", "gt", "ge"];
const ARITH_OPS: [&str; 5] = ["add", "sub", "mul", "div", "mod"];

fn p_expr(t: &mut Toks) -> Option<E> {
    let w = t.next()?;
    if let Some(v) = val_of_word(w) {
        return Some(E::Lit(v));
    }
    if let Some(k) = num_after("c", w) {
        return Some(E::Col(k));
    }
    if let Some(op) = CMP_OPS.iter().find(|o| **o == w) {
        let a = p_expr(t)?;
        let b = p_expr(t)?;
        return Some(E::Cmp(op, Box::new(a), Box::new(b)));
    }
    if let Some(op) = ARITH_OPS.iter().find(|o| **o == w) {
        let a = p_expr(t)?;
        let b = p_expr(t)?;
        return Some(E::Arith(op, Box::new(a), Box::new(b)));
    }
    match w {
        "not" => Some(E::Not(Box::new(p_expr(t)?))),
        "neg" => Some(E::Neg(Box::new(p_expr(t)?))),
        "pos" => Some(E::Pos(Box::new(p_expr(t)?))),
        "and" => {
            let a = p_expr(t)?;
            let b = p_expr(t)?;
            Some(E::And(Box::new(a), Box::new(b)))
        }
        "or" => {
            let a = p_expr(t)?;
            let b = p_expr(t)?;
            Some(E::Or(Box::new(a), Box::new(b)))
        }
        "like" | "nlike" => {
            let a = p_expr(t)?;
            let b = p_expr(t)?;
            Some(E::Like(w == "nlike", Box::new(a), Box::new(b)))
        }
        "isnull" | "notnull" => Some(E::IsNull(w == "notnull", Box::new(p_expr(t)?))),
        "nullif" => {
            let a = p_expr(t)?;
            let b = p_expr(t)?;
            Some(E::NullIf(Box::new(a), Box::new(b)))
        }
        "upper" | "lower" | "length" | "ltrim" | "rtrim" | "abs" | "ceil" | "floor" | "round" => {
            let f = STR_FNS.iter().find(|x| **x == w)?;
            Some(E::StrFn(f, Box::new(p_expr(t)?)))
        }
        "cat" => {
            let a = p_expr(t)?;
            let b = p_expr(t)?;
            Some(E::Concat(Box::new(a), Box::new(b)))
        }
        "btw" | "nbtw" => {
            let a = p_expr(t)?;
            let b = p_expr(t)?;
            let c = p_expr(t)?;
            Some(E::Between(w == "nbtw", Box::new(a), Box::new(b), Box::new(c)))
        }
        _ if num_after("coal", w).is_some() => {
            let k = num_after("coal", w)?;
            let mut xs = Vec::new();
            for _ in 0..k {
                xs.push(p_expr(t)?);
            }
            Some(E::Coalesce(xs))
        }
        _ if num_after("casex", w).is_some() || num_after("case", w).is_some() => {
            let (simple, k) = match num_after("casex", w) {
                Some(k) => (true, k),
                None => (false, num_after("case", w)?),
            };
            let x = if simple { Some(Box::new(p_expr(t)?)) } else { None };
            let mut arms = Vec::new();
            for _ in 0..k {
                let c = p_expr(t)?;
                let r = p_expr(t)?;
                arms.push((c, r));
            }
            let els = match t.next()? {
                "else" => Some(Box::new(p_expr(t)?)),
                "noelse" => None,
                _ => return None,
            };
            Some(E::Case(x, arms, els))
        }
        _ => {
            let (neg, k) = if let Some(k) = num_after("nin", w) {
                (true, k)
            } else if let Some(k) = num_after("in", w) {
                (false, k)
            } else {
                return None;
            };
            let a = p_expr(t)?;
            let mut xs = Vec::new();
            for _ in 0..k {
                xs.push(p_expr(t)?);
            }
            Some(E::InList(neg, Box::new(a), xs))
        }
    }
}

fn p_from(t: &mut Toks) -> Option<From> {
    let w = t.next()?;
    if w == "j" {
        let k = t.next()?;
        let k = ["inner", "left", "right", "full", "cross"].iter().find(|x| **x == k)?;
        let l = p_from(t)?;
        let r = p_from(t)?;
        let on = match t.next()? {
            "-" => None,
            "on" => Some(p_expr(t)?),
            _ => return None,
        };
        Some(From::Join(k, Box::new(l), Box::new(r), on))
    } else if w == "d" || w == "cte" || num_after("ctes", w).is_some() {
        let cte = if w == "d" {
            Cte::No
        } else if w == "cte" {
            Cte::Named
        } else {
            Cte::Shadow(num_after("ctes", w)?)
        };
        let inner = p_from(t)?;
        let wh = p_where(t)?;
        let n = num_after("p", t.next()?)?;
        let mut items = Vec::new();
        for _ in 0..n {
            items.push(p_expr(t)?);
        }
        Some(From::Derived(Box::new(inner), wh, items, cte))
    } else {
        Some(From::Table(num_after("t", w)?))
    }
}

fn p_where(t: &mut Toks) -> Option<Option<E>> {
    match t.next()? {
        "-" => Some(None),
        "w" => Some(Some(p_expr(t)?)),
        _ => None,
    }
}

fn p_opt_nat(pre: &str, t: &mut Toks) -> Option<Option<u64>> {
    let w = t.next()?;
    if w.strip_prefix(pre) == Some("-") {
        return Some(None);
    }
    Some(Some(num_after(pre, w)? as u64))
}

fn p_stmt(db: &[Table], ws: &[&str]) -> Option<Stmt> {
    let mut t = Toks { ws: ws.to_vec(), pos: 0 };
    let s = match t.next()? {
        "sel" => {
            let distinct = match t.next()? {
                "all" => false,
                "distinct" => true,
                _ => return None,
            };
            let from = p_from(&mut t)?;
            let where_ = p_where(&mut t)?;
            let ng = num_after("g", t.next()?)?;
            let mut group_by = Vec::new();
            for _ in 0..ng {
                group_by.push(p_expr(&mut t)?);
            }
            let na = num_after("a", t.next()?)?;
            let mut aggs = Vec::new();
            for _ in 0..na {
                let f = t.next()?;
                let f = AGG_FNS.iter().find(|x| **x == f)?;
                let arg = if *f == "cnt*" { None } else { Some(p_expr(&mut t)?) };
                aggs.push(Agg { f, arg });
            }
            let mut p = t.next()?;
            let mut having = None;
            if p == "hv" {
                having = Some(p_expr(&mut t)?);
                p = t.next()?;
            }
            let items = if p == "star" {
                None
            } else {
                let np = num_after("p", p)?;
                let mut es = Vec::new();
                for _ in 0..np {
                    es.push(p_expr(&mut t)?);
                }
                Some(es)
            };
            let no = num_after("o", t.next()?)?;
            let mut order_by = Vec::new();
            for _ in 0..no {
                let w = t.next()?;
                if let Some(k) = num_after("a", w) {
                    order_by.push((k, true));
                } else {
                    order_by.push((num_after("d", w)?, false));
                }
            }
            let limit = p_opt_nat("lim", &mut t)?;
            let offset = p_opt_nat("off", &mut t)?;
            Stmt::Select(Select { distinct, from, where_, group_by, aggs, items, order_by, limit, offset, having })
        }
        "ins" => {
            let tb = num_after("t", t.next()?)?;
            let n = num_after("r", t.next()?)?;
            let ncols = db.get(tb).map(|t| t.tys.len()).unwrap_or(0);
            let mut rows = Vec::new();
            for _ in 0..n {
                let mut r = Vec::new();
                for _ in 0..ncols {
                    r.push(p_expr(&mut t)?);
                }
                rows.push(r);
            }
            Stmt::Insert(tb, rows)
        }
        "insx" => {
            let tb = num_after("t", t.next()?)?;
            let l = t.next()?;
            let cols = if l == "nolist" {
                None
            } else {
                let m = num_after("l", l)?;
                let mut cs = Vec::new();
                for _ in 0..m {
                    cs.push(num_after("c", t.next()?)?);
                }
                Some(cs)
            };
            let n = num_after("r", t.next()?)?;
            let w = num_after("v", t.next()?)?;
            if w == 0 {
                return None;
            }
            let mut rows = Vec::new();
            for _ in 0..n {
                let mut r = Vec::new();
                for _ in 0..w {
                    r.push(p_expr(&mut t)?);
                }
                rows.push(r);
            }
            Stmt::InsertX(tb, cols, rows)
        }
        "upd" => {
            let tb = num_after("t", t.next()?)?;
            let m = num_after("s", t.next()?)?;
            let mut sets = Vec::new();
            for _ in 0..m {
                let c = num_after("c", t.next()?)?;
                sets.push((c, p_expr(&mut t)?));
            }
            Stmt::Update(tb, sets, p_where(&mut t)?)
        }
        "del" => {
            let tb = num_after("t", t.next()?)?;
            Stmt::Delete(tb, p_where(&mut t)?)
        }
        _ => return None,
    };
    if t.done() { Some(s) } else { None }
}

pub fn parse_case(line: &str) -> Option<(Vec<Table>, Vec<Stmt>)> {
    let ws: Vec<&str> = line.split_whitespace().collect();
    if ws.len() < 3 || ws[0] != "sql" || ws[2] != ";" {
        return None;
    }
    let db = parse_db(ws[1])?;
    let mut stmts = Vec::new();
    for part in ws[3..].split(|w| *w == ";") {
        stmts.push(p_stmt(&db, part)?);
    }
    Some((db, stmts))
}

// ------------------------------------------------------------------------------------------------ SQL text

/// Precedence levels of the documented grammar:
/// OR(1) < AND(2) < NOT(3) < comparison / LIKE / IN / BETWEEN / IS (4) < + - (5) < * / % (6) < unary(7) < atom(8)
fn level(e: &E) -> u8 {
    match e {
        E::Or(..) => 1,
        E::And(..) => 2,
        E::Not(..) => 3,
        E::Cmp(..) | E::Like(..) | E::IsNull(..) | E::Between(..) | E::InList(..) => 4,
        E::Arith(op, ..) => {
            if *op == "add" || *op == "sub" {
                5
            } else {
                6
            }
        }
        E::Neg(..) | E::Pos(..) => 7,
        // a negative literal is written with a leading minus sign: it is a unary expression for the printer
        E::Lit(Val::Int(i)) if *i < 0 => 7,
        E::Lit(Val::F64(b)) if f64::from_bits(*b).is_sign_negative() => 7,
        E::Lit(..) | E::Col(..) | E::Case(..) | E::StrFn(..) | E::NullIf(..) | E::Coalesce(..) => 8,
        // `||` binds like + and -
        E::Concat(..) => 5,
    }
}

fn sql_lit(v: &Val) -> String {
    match v {
        Val::Null => "NULL".into(),
        Val::Int(i) => i.to_string(),
        Val::Bool(b) => if *b { "TRUE".into() } else { "FALSE".into() },
        Val::Text(s) => format!("'{}'", String::from_utf8_lossy(s).replace('\'', "''")),
        // decimal notation with a fractional part (`2.0`, not `2`): a DOUBLE literal for the binder
        Val::F64(b) => format!("{:?}", f64::from_bits(*b)),
    }
}

/// minimal parentheses: an operand is parenthesised only if its level is below what the position requires
pub fn sql_expr(e: &E, min: u8, col: &dyn Fn(usize) -> String) -> String {
    let s = match e {
        E::Lit(v) => sql_lit(v),
        E::Col(i) => col(*i),
        E::Or(a, b) => format!("{} OR {}", sql_expr(a, 1, col), sql_expr(b, 2, col)),
        E::And(a, b) => format!("{} AND {}", sql_expr(a, 2, col), sql_expr(b, 3, col)),
        E::Not(a) => format!("NOT {}", sql_expr(a, 3, col)),
        E::Cmp(op, a, b) => {
            let o = match *op {
                "eq" => "=",
                "ne" => "<>",
                "lt" => "<",
                "le" => "<=",
                "gt" => ">",
                _ => ">=",
            };
            format!("{} {} {}", sql_expr(a, 5, col), o, sql_expr(b, 5, col))
        }
        E::Like(neg, a, b) => {
            format!("{} {}LIKE {}", sql_expr(a, 5, col), if *neg { "NOT " } else { "" }, sql_expr(b, 5, col))
        }
        E::IsNull(neg, a) => format!("{} IS {}NULL", sql_expr(a, 5, col), if *neg { "NOT " } else { "" }),
        E::StrFn(f, a) => format!("{}({})", f.to_uppercase(), sql_expr(a, 1, col)),
        E::Concat(a, b) => format!("{} || {}", sql_expr(a, 5, col), sql_expr(b, 6, col)),
        E::NullIf(a, b) => format!("NULLIF({}, {})", sql_expr(a, 1, col), sql_expr(b, 1, col)),
        E::Coalesce(xs) => format!("COALESCE({})", xs.iter().map(|x| sql_expr(x, 1, col)).collect::<Vec<_>>().join(", ")),
        E::Between(neg, a, lo, hi) => format!(
            "{} {}BETWEEN {} AND {}",
            sql_expr(a, 5, col),
            if *neg { "NOT " } else { "" },
            // minimal parentheses: a bound is read with binding power 4, it may be a comparison
            sql_expr(lo, if matches!(**lo, E::Cmp(..)) { 4 } else { 5 }, col),
            sql_expr(hi, if matches!(**hi, E::Cmp(..)) { 4 } else { 5 }, col)
        ),
        E::InList(neg, a, xs) => format!(
            "{} {}IN ({})",
            sql_expr(a, 5, col),
            if *neg { "NOT " } else { "" },
            xs.iter().map(|x| sql_expr(x, 1, col)).collect::<Vec<_>>().join(", ")
        ),
        E::Arith(op, a, b) => {
            let (o, l) = match *op {
                "add" => ("+", 5),
                "sub" => ("-", 5),
                "mul" => ("*", 6),
                "div" => ("/", 6),
                _ => ("%", 6),
            };
            format!("{} {} {}", sql_expr(a, l, col), o, sql_expr(b, l + 1, col))
        }
        E::Case(x, arms, els) => {
            let mut t = String::from("CASE");
            if let Some(x) = x {
                t += &format!(" {}", sql_expr(x, 1, col));
            }
            for (c, r) in arms {
                t += &format!(" WHEN {} THEN {}", sql_expr(c, 1, col), sql_expr(r, 1, col));
            }
            if let Some(e) = els {
                t += &format!(" ELSE {}", sql_expr(e, 1, col));
            }
            t + " END"
        }
        // `- -x` needs the blank: `--` starts a comment
        E::Neg(a) => format!("- {}", sql_expr(a, 7, col)),
        E::Pos(a) => format!("+ {}", sql_expr(a, 7, col)),
    };
    if level(e) < min { format!("({})", s) } else { s }
}

fn sql_ty(t: Ty) -> &'static str {
    match t {
        Ty::Int => "INT",
        Ty::BigInt => "BIGINT",
        Ty::Bool => "BOOLEAN",
        Ty::Text => "TEXT",
        Ty::Double => "DOUBLE",
        Ty::UInt => "UINT",
        Ty::BigUInt => "BIGUINT",
        Ty::Float => "FLOAT",
    }
}

/// the table of a leaf that is a derived table (no such table: lookups in the database find nothing)
pub const DERIVED_LEAF: usize = usize::MAX;

/// leaves of a FROM tree, left to right: (table, first column index in the joined row); a derived table is one leaf
pub fn leaves(f: &From, db: &[Table], out: &mut Vec<(usize, usize)>, width: &mut usize) {
    match f {
        From::Table(t) => {
            out.push((*t, *width));
            *width += db.get(*t).map(|t| t.tys.len()).unwrap_or(0);
        }
        From::Join(_, l, r, _) => {
            leaves(l, db, out, width);
            leaves(r, db, out, width);
        }
        From::Derived(_, _, items, _) => {
            out.push((DERIVED_LEAF, *width));
            *width += items.len();
        }
    }
}

fn wider(a: Ty, b: Ty) -> Ty {
    match (a, b) {
        (Ty::BigInt, _) | (_, Ty::BigInt) => Ty::BigInt,
        (Ty::Int, _) | (_, Ty::Int) => Ty::Int,
        _ => a,
    }
}

/// static type of an expression as the reference infers it (`inferTyO`); `None` for an untyped NULL
pub fn expr_ty(e: &E, tys: &[Ty]) -> Option<Ty> {
    match e {
        E::Lit(Val::Int(v)) => Some(if (I32_MIN..=I32_MAX).contains(v) { Ty::Int } else { Ty::BigInt }),
        E::Lit(Val::Text(_)) => Some(Ty::Text),
        E::Lit(Val::Bool(_)) => Some(Ty::Bool),
        E::Lit(Val::F64(_)) => Some(Ty::Double),
        E::Lit(_) => None,
        E::Col(i) => Some(tys.get(*i).copied().unwrap_or(Ty::BigInt)),
        E::Neg(a) | E::Pos(a) => expr_ty(a, tys),
        E::StrFn("length", _) => Some(Ty::Int),
        E::StrFn("abs" | "ceil" | "floor" | "round", _) => Some(Ty::Double),
        E::StrFn(..) | E::Concat(..) => Some(Ty::Text),
        E::NullIf(a, _) => expr_ty(a, tys),
        E::Coalesce(xs) => xs.iter().find_map(|x| expr_ty(x, tys)),
        E::Arith(_, a, b) => match (expr_ty(a, tys), expr_ty(b, tys)) {
            (None, None) => None,
            (ta, tb) => Some(wider(ta.or(tb).unwrap_or(Ty::Bool), tb.or(ta).unwrap_or(Ty::Bool))),
        },
        E::Case(_, arms, els) => {
            let mut t: Option<Ty> = None;
            for r in arms.iter().map(|(_, r)| r).chain(els.iter().map(|b| &**b)) {
                t = match (t, expr_ty(r, tys)) {
                    (None, b) => b,
                    (a, None) => a,
                    (Some(a), Some(b)) if a != b && matches!(a, Ty::Int | Ty::BigInt) && matches!(b, Ty::Int | Ty::BigInt) => {
                        Some(Ty::BigInt)
                    }
                    (a, _) => a,
                };
            }
            t
        }
        _ => Some(Ty::Bool),
    }
}

pub fn from_tys(f: &From, db: &[Table]) -> Vec<Ty> {
    match f {
        From::Table(t) => db.get(*t).map(|t| t.tys.clone()).unwrap_or_default(),
        From::Join(_, l, r, _) => {
            let mut tys = from_tys(l, db);
            tys.extend(from_tys(r, db));
            tys
        }
        From::Derived(inner, _, items, _) => {
            let tys = from_tys(inner, db);
            items.iter().map(|e| expr_ty(e, &tys).unwrap_or(Ty::Bool)).collect()
        }
    }
}

/// every base table a FROM tree reads (at any depth)
pub fn all_tables(f: &From, out: &mut Vec<usize>) {
    match f {
        From::Table(t) => out.push(*t),
        From::Join(_, l, r, _) => {
            all_tables(l, out);
            all_tables(r, out)
        }
        From::Derived(inner, ..) => all_tables(inner, out),
    }
}

fn unshadow(f: &mut From, used: &[usize]) {
    match f {
        From::Table(_) => {}
        From::Join(_, l, r, _) => {
            unshadow(l, used);
            unshadow(r, used)
        }
        From::Derived(inner, _, _, cte) => {
            if matches!(cte, Cte::Shadow(j) if used.contains(j)) {
                *cte = Cte::Named;
            }
            unshadow(inner, used)
        }
    }
}

/// does the FROM tree contain a join (at any depth)?
pub fn has_join(f: &From) -> bool {
    match f {
        From::Table(_) => false,
        From::Join(..) => true,
        From::Derived(inner, ..) => has_join(inner),
    }
}

/// does a derived table of the FROM tree have a WHERE of its own?
pub fn has_derived_where(f: &From) -> bool {
    match f {
        From::Table(_) => false,
        From::Join(_, l, r, _) => has_derived_where(l) || has_derived_where(r),
        From::Derived(inner, w, ..) => w.is_some() || has_derived_where(inner),
    }
}

/// The alias of the k-th operand of FROM.  Identifiers may hold non-ASCII letters, underscores, digits and both cases
/// (and are case sensitive): the aliases go through these forms.
pub fn alias(k: usize) -> String {
    match k % 5 {
        0 => format!("r{}", k),
        1 => format!("Ré{}", k),
        2 => format!("_r{}", k),
        3 => format!("r_é{}x", k),
        _ => format!("R{}", k),
    }
}

/// column naming of a FROM tree: column i of the joined row is `r<k>.c<j>` (k-th leaf, its j-th column)
pub fn col_namer(f: &From, db: &[Table]) -> impl Fn(usize) -> String + 'static {
    let mut ls = Vec::new();
    let mut w = 0;
    leaves(f, db, &mut ls, &mut w);
    move |i: usize| -> String {
        for (k, (_, start)) in ls.iter().enumerate().rev() {
            if i >= *start {
                return format!("{}.c{}", alias(k), i - start);
            }
        }
        format!("{}.c{}", alias(0), i)
    }
}

/// `(SELECT e0 AS c0, … FROM inner [WHERE w]) AS r<k>`; the inner query has its own scope (aliases r0, r1, … again)
pub fn sql_derived(inner: &From, w: &Option<E>, items: &[E], k: usize, db: &[Table]) -> String {
    format!("({}) AS {}", sql_derived_body(inner, w, items, db), alias(k))
}

/// `SELECT e0 AS c0, … FROM inner [WHERE w]`; the query has its own scope (aliases r0, r1, … again)
pub fn sql_derived_body(inner: &From, w: &Option<E>, items: &[E], db: &[Table]) -> String {
    let col = col_namer(inner, db);
    let mut next = 0;
    let list: Vec<String> = items.iter().enumerate().map(|(i, e)| format!("{} AS c{}", sql_expr(e, 1, &col), i)).collect();
    let mut s = format!("SELECT {} FROM {}", list.join(", "), sql_from(inner, db, &mut next, &col, None));
    if let Some(w) = w {
        s += &format!(" WHERE {}", sql_expr(w, 1, &col));
    }
    s
}

/// the common table expressions of a statement: (name, body)
pub type Ctes = Vec<(String, String)>;

/// `ctes`: where the common table expressions of the statement are collected (`None` inside a derived table: there a
/// CTE is written in place).  Two CTEs with the same text are one CTE used twice.
fn sql_from(f: &From, db: &[Table], next: &mut usize, col: &dyn Fn(usize) -> String, mut ctes: Option<&mut Ctes>) -> String {
    match f {
        From::Table(t) => {
            let s = format!("t{} AS {}", t, alias(*next));
            *next += 1;
            s
        }
        From::Derived(inner, w, items, cte) => {
            let s = match (cte, ctes.as_deref_mut()) {
                (Cte::No, _) | (_, None) => sql_derived(inner, w, items, *next, db),
                (c, Some(list)) => {
                    let body = sql_derived_body(inner, w, items, db);
                    let name = match list.iter().find(|(_, b)| *b == body) {
                        Some((n, _)) => n.clone(),
                        None => {
                            let n = match c {
                                Cte::Shadow(j) if !list.iter().any(|(n, _)| *n == format!("t{}", j)) => format!("t{}", j),
                                _ => format!("w{}", list.len()),
                            };
                            list.push((n.clone(), body));
                            n
                        }
                    };
                    format!("{} AS {}", name, alias(*next))
                }
            };
            *next += 1;
            s
        }
        From::Join(k, l, r, on) => {
            let ls = sql_from(l, db, next, col, ctes.as_deref_mut());
            // a join on the right-hand side would need parentheses the grammar does not have: the generator only
            // builds left-deep trees; a right-nested tree is printed flat (and then means something else)
            let rs = sql_from(r, db, next, col, ctes.as_deref_mut());
            let kw = match *k {
                "inner" => "INNER JOIN",
                "left" => "LEFT JOIN",
                "right" => "RIGHT JOIN",
                "full" => "FULL JOIN",
                _ => "CROSS JOIN",
            };
            match on {
                Some(e) => format!("{} {} {} ON {}", ls, kw, rs, sql_expr(e, 1, col)),
                None => format!("{} {} {}", ls, kw, rs),
            }
        }
    }
}

/// ` WHERE `, in a third of the statements (chosen by the text so far) after a comment that runs to the end of its line:
/// a lexer that does not end the comment there loses the rest of the statement
fn where_kw(sql_so_far: &str) -> &'static str {
    match sql_so_far.len() % 6 {
        0 => " -- only the rows that qualify\n WHERE ",
        1 => " --\n WHERE ",
        _ => " WHERE ",
    }
}

pub fn sql_stmt(s: &Stmt, db: &[Table]) -> String {
    match s {
        Stmt::Select(q) => {
            let col = col_namer(&q.from, db);
            let mut out_exprs: Vec<String> = Vec::new();
            let is_agg = !q.aggs.is_empty() || !q.group_by.is_empty();
            // the aggregate row: group keys (in parentheses unless a bare column), then the aggregate calls
            let mut agg_row: Vec<String> = Vec::new();
            if is_agg {
                for k in &q.group_by {
                    let t = sql_expr(k, 1, &col);
                    agg_row.push(if matches!(k, E::Col(_) | E::Lit(_)) { t } else { format!("({})", t) });
                }
                for a in &q.aggs {
                    let (name, distinct) = match a.f {
                        "cnt*" | "cnt" => ("COUNT", false),
                        "cntd" => ("COUNT", true),
                        "sum" => ("SUM", false),
                        "sumd" => ("SUM", true),
                        "avg" => ("AVG", false),
                        "avgd" => ("AVG", true),
                        "min" => ("MIN", false),
                        "mind" => ("MIN", true),
                        "max" => ("MAX", false),
                        _ => ("MAX", true),
                    };
                    agg_row.push(match &a.arg {
                        None => "COUNT(*)".to_string(),
                        Some(e) => format!("{}({}{})", name, if distinct { "DISTINCT " } else { "" }, sql_expr(e, 1, &col)),
                    });
                }
            }
            let agg_row2 = agg_row.clone();
            let agg_col = move |i: usize| -> String { agg_row2.get(i).cloned().unwrap_or_else(|| "NULL".into()) };
            let items: String = if is_agg {
                out_exprs = match &q.items {
                    None => q
                        .group_by
                        .iter()
                        .map(|k| sql_expr(k, 1, &col))
                        .chain(agg_row[q.group_by.len()..].iter().cloned())
                        .collect(),
                    Some(es) => es.iter().map(|e| sql_expr(e, 1, &agg_col)).collect(),
                };
                out_exprs.join(", ")
            } else {
                match &q.items {
                    None => {
                        out_exprs = (0..from_tys(&q.from, db).len()).map(&col).collect();
                        "*".to_string()
                    }
                    Some(es) => {
                        out_exprs = es.iter().map(|e| sql_expr(e, 1, &col)).collect();
                        out_exprs.join(", ")
                    }
                }
            };
            let mut next = 0;
            let mut ctes: Ctes = Vec::new();
            let from_sql = sql_from(&q.from, db, &mut next, &col, Some(&mut ctes));
            let with = if ctes.is_empty() {
                String::new()
            } else {
                format!("WITH {} ", ctes.iter().map(|(n, b)| format!("{} AS ({})", n, b)).collect::<Vec<_>>().join(", "))
            };
            let mut sql = format!("{}SELECT {}{} FROM {}", with, if q.distinct { "DISTINCT " } else { "" }, items, from_sql);
            if let Some(wh) = &q.where_ {
                sql += &format!("{}{}", where_kw(&sql), sql_expr(wh, 1, &col));
            }
            if !q.group_by.is_empty() {
                sql += &format!(
                    " GROUP BY {}",
                    q.group_by.iter().map(|e| sql_expr(e, 1, &col)).collect::<Vec<_>>().join(", ")
                );
            }
            if let (true, Some(h)) = (is_agg, &q.having) {
                sql += &format!(" HAVING {}", sql_expr(h, 1, &agg_col));
            }
            if !q.order_by.is_empty() {
                let parts: Vec<String> = q
                    .order_by
                    .iter()
                    .map(|(p, asc)| {
                        format!(
                            "{}{}",
                            out_exprs.get(*p).cloned().unwrap_or_else(|| "NULL".into()),
                            if *asc { "" } else { " DESC" }
                        )
                    })
                    .collect();
                sql += &format!(" ORDER BY {}", parts.join(", "));
            }
            if let Some(l) = q.limit {
                sql += &format!(" LIMIT {}", l);
            }
            if let Some(o) = q.offset {
                sql += &format!(" OFFSET {}", o);
            }
            sql
        }
        Stmt::Insert(t, rows) => {
            let col = |i: usize| format!("c{}", i);
            let rs: Vec<String> = rows
                .iter()
                .map(|r| format!("({})", r.iter().map(|e| sql_expr(e, 1, &col)).collect::<Vec<_>>().join(", ")))
                .collect();
            format!("INSERT INTO t{} VALUES {}", t, rs.join(", "))
        }
        Stmt::InsertX(t, cols, rows) => {
            let col = |i: usize| format!("c{}", i);
            let rs: Vec<String> = rows
                .iter()
                .map(|r| format!("({})", r.iter().map(|e| sql_expr(e, 1, &col)).collect::<Vec<_>>().join(", ")))
                .collect();
            let list = match cols {
                None => String::new(),
                Some(cs) => format!(" ({})", cs.iter().map(|c| format!("c{}", c)).collect::<Vec<_>>().join(", ")),
            };
            format!("INSERT INTO t{}{} VALUES {}", t, list, rs.join(", "))
        }
        Stmt::Update(t, sets, w) => {
            let col = |i: usize| format!("c{}", i);
            let ss: Vec<String> = sets.iter().map(|(c, e)| format!("c{} = {}", c, sql_expr(e, 1, &col))).collect();
            let mut sql = format!("UPDATE t{} SET {}", t, ss.join(", "));
            if let Some(w) = w {
                sql += &format!("{}{}", where_kw(&sql), sql_expr(w, 1, &col));
            }
            sql
        }
        Stmt::Delete(t, w) => {
            let col = |i: usize| format!("c{}", i);
            let mut sql = format!("DELETE FROM t{}", t);
            if let Some(w) = w {
                sql += &format!("{}{}", where_kw(&sql), sql_expr(w, 1, &col));
            }
            sql
        }
    }
}

// ------------------------------------------------------------------------------------------------ running

/// Error classes. The public API hands errors out as text (`TaskError::TaskFailed(String)`), so the class is
/// read from the prefixes the error enums' `Display` implementations produce — never from the detail text.
fn err_class(msg: &str) -> &'static str {
    if msg.contains("Task channel closed") {
        "panic"
    } else if msg.contains("preparation error parse error") {
        "parse"
    } else if msg.contains("preparation error binder error") {
        "bind"
    } else if msg.contains("division by zero") {
        "divzero"
    } else if msg.contains("integer overflow") {
        "overflow"
    } else if msg.contains("column index out of bounds") {
        "eval"
    } else if msg.contains("runtime error: type error") || msg.contains("Type error:") {
        "type"
    } else if msg.contains("constraint validation error") {
        "constraint"
    } else {
        "other"
    }
}

fn canon_val(v: &DataType) -> Val {
    match v {
        DataType::Null => Val::Null,
        DataType::Bool(b) => Val::Bool(b.0),
        DataType::Int(i) => Val::Int(i.0 as i128),
        DataType::BigInt(i) => Val::Int(i.0 as i128),
        DataType::UInt(i) => Val::Int(i.0 as i128),
        DataType::BigUInt(i) => Val::Int(i.0 as i128),
        DataType::Float(f) => canon_f64(f.0 as f64),
        DataType::Double(f) => canon_f64(f.0),
        DataType::Blob(b) => Val::Text(b.data().map(|d| d.to_vec()).unwrap_or_default()),
    }
}

/// a double holding an integer below 2^63 in magnitude is printed as that integer (SUM returns DOUBLE)
fn canon_f64(f: f64) -> Val {
    if f.fract() == 0.0 && f.abs() < 9.2e18 { Val::Int(f as i128) } else { Val::F64(f.to_bits()) }
}

fn rank(v: &Val) -> u8 {
    match v {
        Val::Bool(_) => 0,
        Val::Int(_) | Val::F64(_) => 1,
        Val::Text(_) => 2,
        Val::Null => 3,
    }
}

/// the spec comparator of ORDER BY keys: NULL is the largest value; DESC reverses
fn cmp_key(asc: bool, a: &Val, b: &Val) -> std::cmp::Ordering {
    use std::cmp::Ordering::*;
    let o = match (a, b) {
        (Val::Null, Val::Null) => Equal,
        (Val::Null, _) => Greater,
        (_, Val::Null) => Less,
        (Val::Int(x), Val::Int(y)) => x.cmp(y),
        // values of a DOUBLE column: the integral ones are shown as integers (all far below 2^53)
        (Val::Int(x), Val::F64(y)) => (*x as f64).partial_cmp(&f64::from_bits(*y)).unwrap_or(Equal),
        (Val::F64(x), Val::Int(y)) => f64::from_bits(*x).partial_cmp(&(*y as f64)).unwrap_or(Equal),
        (Val::F64(x), Val::F64(y)) => f64::from_bits(*x).partial_cmp(&f64::from_bits(*y)).unwrap_or(Equal),
        (Val::Bool(x), Val::Bool(y)) => x.cmp(y),
        (Val::Text(x), Val::Text(y)) => x.cmp(y),
        (x, y) => rank(x).cmp(&rank(y)),
    };
    if asc { o } else { o.reverse() }
}

fn is_sorted(rows: &[Vec<Val>], order: &[(usize, bool)]) -> bool {
    rows.windows(2).all(|w| {
        for (p, asc) in order {
            let (a, b) = (w[0].get(*p).unwrap_or(&Val::Null), w[1].get(*p).unwrap_or(&Val::Null));
            match cmp_key(*asc, a, b) {
                std::cmp::Ordering::Less => return true,
                std::cmp::Ordering::Greater => return false,
                _ => {}
            }
        }
        true
    })
}

fn show_rows(rows: &[Vec<Val>], canonical: bool) -> String {
    let mut ss: Vec<String> = rows.iter().map(|r| r.iter().map(show_val).collect::<Vec<_>>().join(",")).collect();
    if canonical {
        ss.sort();
    }
    ss.join("|")
}

static SEQ: std::sync::atomic::AtomicU64 = std::sync::atomic::AtomicU64::new(0);

/// Panics of the database's worker threads reach the caller only as "Task channel closed"; their location is
/// recorded here (diagnostics after ` ## `), chained in front of the harness' own hook.
static WORKER_PANIC: std::sync::Mutex<Option<String>> = std::sync::Mutex::new(None);
static HOOK: std::sync::Once = std::sync::Once::new();

pub fn install_worker_panic_recorder() {
    HOOK.call_once(|| {
        let prev = std::panic::take_hook();
        std::panic::set_hook(Box::new(move |info| {
            let loc = info
                .location()
                .map(|l| {
                    let f = l.file();
                    let f = f.rsplit_once("/src/").map(|x| x.1).unwrap_or(f);
                    format!("{}:{}", f, l.line())
                })
                .unwrap_or_else(|| "?".into());
            if let Ok(mut g) = WORKER_PANIC.lock() {
                *g = Some(loc);
            }
            prev(info);
        }));
    });
}

pub fn take_worker_panic() -> Option<String> {
    WORKER_PANIC.lock().ok().and_then(|mut g| g.take())
}

pub struct TempDb {
    pub db: Option<Database>,
    dir: std::path::PathBuf,
}

impl TempDb {
    pub fn new() -> TempDb {
        let n = SEQ.fetch_add(1, std::sync::atomic::Ordering::Relaxed);
        let dir = std::env::temp_dir().join(format!("axh-sql-{}-{}", std::process::id(), n));
        let _ = std::fs::remove_dir_all(&dir);
        std::fs::create_dir_all(&dir).unwrap();
        let db = Database::create(dir.join("db"), DBConfig::default()).expect("create database");
        TempDb { db: Some(db), dir }
    }
}

impl Drop for TempDb {
    fn drop(&mut self) {
        self.db.take();
        let _ = std::fs::remove_dir_all(&self.dir);
    }
}

pub fn load(db: &Database, tables: &[Table]) -> Result<(), String> {
    for (k, t) in tables.iter().enumerate() {
        let cols: Vec<String> = t.tys.iter().enumerate().map(|(i, ty)| format!("c{} {}", i, sql_ty(*ty))).collect();
        db.execute(&format!("CREATE TABLE t{} ({})", k, cols.join(", "))).map_err(|e| format!("create: {}", e))?;
        for chunk in t.rows.chunks(20) {
            let rs: Vec<String> = chunk
                .iter()
                .map(|r| format!("({})", r.iter().map(sql_lit).collect::<Vec<_>>().join(", ")))
                .collect();
            db.execute(&format!("INSERT INTO t{} VALUES {}", k, rs.join(", "))).map_err(|e| format!("load: {}", e))?;
        }
    }
    Ok(())
}

pub fn run_stmt(db: &Database, tables: &[Table], s: &Stmt) -> String {
    let sql = sql_stmt(s, tables);
    match db.execute(&sql) {
        Err(e) => format!("E{}", err_class(&e.to_string())),
        Ok(QueryResult::RowsAffected(n)) => format!("A{}", n),
        Ok(QueryResult::Ddl(_)) => "Eother".into(),
        Ok(QueryResult::Rows(rows)) => {
            let rs: Vec<Vec<Val>> = rows.iterrows().map(|r| r.iter().map(canon_val).collect()).collect();
            match s {
                Stmt::Select(q) if q.limit.is_some() || q.offset.is_some() => format!("Rlist:{}", show_rows(&rs, false)),
                Stmt::Select(q) if !q.order_by.is_empty() => {
                    if is_sorted(&rs, &q.order_by) {
                        format!("Rord:{}", show_rows(&rs, true))
                    } else {
                        format!("Runsorted:{}", show_rows(&rs, false))
                    }
                }
                _ => format!("Rset:{}", show_rows(&rs, true)),
            }
        }
    }
}

fn raw(sqls: &str) -> String {
    let t = TempDb::new();
    let db = t.db.as_ref().unwrap();
    let mut out = Vec::new();
    for s in sqls.split(';') {
        let s = s.trim();
        if s.is_empty() {
            continue;
        }
        if let Some(q) = s.strip_prefix("EXPLAIN ") {
            out.push(format!("PLAN {:?}", db.explain(q)));
            continue;
        }
        match db.execute(s) {
            Err(e) => out.push(format!("ERR[{}] {}", err_class(&e.to_string()), e)),
            Ok(QueryResult::Rows(rows)) => {
                let rs: Vec<Vec<Val>> = rows.iterrows().map(|r| r.iter().map(canon_val).collect()).collect();
                out.push(format!("ROWS[{}] {}", rs.len(), show_rows(&rs, false)));
            }
            Ok(QueryResult::RowsAffected(n)) => out.push(format!("AFFECTED {}", n)),
            Ok(QueryResult::Ddl(_)) => out.push("DDL".into()),
        }
    }
    out.join(" || ")
}

// ------------------------------------------------------------------------------------------------ generation

/// One item of a LIKE pattern.
#[derive(Clone, Debug, PartialEq)]
pub enum LikeItem {
    /// `%`
    Pct,
    /// `_`
    Und,
    /// an ordinary character (its bytes)
    Lit(Vec<u8>),
    /// backslash + character
    Esc(Vec<u8>),
}

/// the characters LIKE subjects are made of: two letters, the three special characters, now and then a character of three
/// bytes (one that UPPER / LOWER leave alone)
fn like_char(rng: &mut Rng) -> Vec<u8> {
    match rng.below(16) {
        0..=4 => b"a".to_vec(),
        5..=8 => b"b".to_vec(),
        9 | 10 => b"%".to_vec(),
        11 | 12 => b"_".to_vec(),
        13 | 14 => b"\\".to_vec(),
        _ => "€".as_bytes().to_vec(),
    }
}

/// a subject of 0–8 characters over the small alphabet
pub fn like_subject(rng: &mut Rng) -> Vec<u8> {
    let n = rng.below(9);
    (0..n).flat_map(|_| like_char(rng)).collect()
}

/// A pattern of 1–8 items over {a, b, %, _, \%, \_, \\} (now and then a three-byte character, an escaped letter, and —
/// rarely — a lone trailing backslash).  A third of the patterns are forced to have an escape somewhere after a `%`.
pub fn like_pattern(rng: &mut Rng) -> Vec<LikeItem> {
    let item = |rng: &mut Rng| match rng.below(20) {
        0..=3 => LikeItem::Lit(b"a".to_vec()),
        4..=6 => LikeItem::Lit(b"b".to_vec()),
        7..=10 => LikeItem::Pct,
        11..=13 => LikeItem::Und,
        14 => LikeItem::Esc(b"%".to_vec()),
        15 | 16 => LikeItem::Esc(b"_".to_vec()),
        17 => LikeItem::Esc(b"\\".to_vec()),
        18 => LikeItem::Esc(b"a".to_vec()),
        _ => LikeItem::Lit("€".as_bytes().to_vec()),
    };
    let n = 1 + rng.below(8) as usize;
    let mut items: Vec<LikeItem> = (0..n).map(|_| item(rng)).collect();
    if rng.chance(1, 3) {
        // % … \x …
        let at = rng.below(items.len() as u64) as usize;
        items[at] = LikeItem::Pct;
        let esc = LikeItem::Esc(rng.pick(&[b"_".to_vec(), b"%".to_vec(), b"\\".to_vec()]).clone());
        let pos = at + 1 + rng.below((items.len() - at) as u64) as usize;
        items.insert(pos.min(items.len()), esc);
        items.truncate(8);
    }
    items
}

pub fn like_pattern_bytes(items: &[LikeItem], trailing_escape: bool) -> Vec<u8> {
    let mut out = Vec::new();
    for it in items {
        match it {
            LikeItem::Pct => out.push(b'%'),
            LikeItem::Und => out.push(b'_'),
            LikeItem::Lit(c) => out.extend(c),
            LikeItem::Esc(c) => {
                out.push(b'\\');
                out.extend(c)
            }
        }
    }
    if trailing_escape {
        out.push(b'\\');
    }
    out
}

/// a subject the pattern matches (every `_` a character, every `%` 0–3 characters), now and then with one character
/// changed, dropped or added: true and nearly-true instances, which is where a matcher has to backtrack
pub fn like_subject_for(rng: &mut Rng, items: &[LikeItem], trailing_escape: bool) -> Vec<u8> {
    let mut chars: Vec<Vec<u8>> = Vec::new();
    for it in items {
        match it {
            LikeItem::Pct => {
                for _ in 0..rng.below(4) {
                    chars.push(like_char(rng));
                }
            }
            LikeItem::Und => chars.push(like_char(rng)),
            LikeItem::Lit(c) | LikeItem::Esc(c) => chars.push(c.clone()),
        }
    }
    if rng.chance(1, 3) {
        let at = rng.below(chars.len() as u64 + 1) as usize;
        match rng.below(3) {
            0 if at < chars.len() => chars[at] = like_char(rng),
            1 if at < chars.len() => {
                chars.remove(at);
            }
            _ => chars.insert(at, like_char(rng)),
        }
    }
    chars.truncate(10);
    // (a pattern that ends in a lone backslash matches nothing, not even a text that ends in one)
    if trailing_escape && rng.chance(1, 2) {
        chars.push(b"\\".to_vec());
    }
    chars.concat()
}

/// coverage tags of a pattern
pub fn like_tags(items: &[LikeItem], trailing_escape: bool) -> Vec<&'static str> {
    let mut t = vec!["like.fam"];
    let first_pct = items.iter().position(|i| *i == LikeItem::Pct);
    if items.iter().any(|i| matches!(i, LikeItem::Esc(_))) {
        t.push("like.escape");
    }
    if let Some(k) = first_pct {
        if items[k + 1..].iter().any(|i| matches!(i, LikeItem::Esc(_))) {
            t.push("like.escape-after-wildcard");
        }
        if items[k + 1..].iter().any(|i| *i != LikeItem::Pct) {
            t.push("like.backtrack");
        }
    }
    t.push(match items.iter().filter(|i| **i == LikeItem::Pct).count() {
        0 => "like.pct.0",
        1 => "like.pct.1",
        _ => "like.pct.many",
    });
    if items.iter().any(|i| *i == LikeItem::Und) {
        t.push("like.underscore");
    }
    if items.iter().any(|i| matches!(i, LikeItem::Lit(c) | LikeItem::Esc(c) if c.len() > 1)) {
        t.push("like.multibyte-pattern");
    }
    if trailing_escape {
        t.push("like.trailing-escape");
    }
    t
}

const I32_MIN: i128 = -2147483648;
const I32_MAX: i128 = 2147483647;
const I64_MIN: i128 = -9223372036854775808;
const I64_MAX: i128 = 9223372036854775807;

struct Gen<'a> {
    rng: &'a mut Rng,
    tags: BTreeSet<String>,
    /// When set, generated integer expressions cannot raise an error (no division by a column, products only of
    /// leaves, no arithmetic on boundary values).  Which of several failing sub-expressions is reported, and
    /// whether a row that is joined away or cut off by LIMIT is evaluated at all, depends on the plan and on
    /// pipelining (SQL leaves the evaluation order open).  So an error outcome is comparable only if at most one
    /// clause of a single-table statement can fail: every other clause is generated in safe mode.
    safe_arith: bool,
    /// no CASE below a unary minus: the 32/64-bit kind of `- CASE …` depends on the branch taken
    no_case: bool,
    /// no INSERT/UPDATE/DELETE has been generated in this case yet: the tables still hold their initial rows
    pristine: bool,
    /// no unsigned columns below a unary minus (there is no unary minus on UINT / BIGUINT: a type error)
    no_unsigned: bool,
}

#[derive(Clone, Copy, PartialEq)]
enum Profile {
    Small,
    Boundary,
    Sparse,
    Dups,
    Text,
    Nulls,
    /// BIGINT / BIGUINT values beyond 32 bits (2^31 … 2^35), INT values small: 64-bit arithmetic away from its limits
    Wide,
}

/// arithmetic on the values of these populations can overflow: in safe mode integer expressions are leaves
fn big_values(p: Profile) -> bool {
    matches!(p, Profile::Boundary | Profile::Wide)
}

/// (the last three hold characters of several bytes that UPPER / LOWER leave alone: LENGTH counts characters)
/// (the last eight are longer than eight bytes — the comparator takes such texts in aligned 8-byte groups — and differ from
/// one another in several places of one group, or start a group with a byte ≥ 0x80)
const WORDS: [&str; 28] = [
    "", "a", "ab", "abc", "b", "ba", "B", "x", "xy", "a%", "a_c", "zz", " a", "b  ", "  ", " Ab ", "\tq\t ", "€", "a€b", "中文x",
    "anderson, zoe", "brown, alice", "anderson, amy", "€mile zola, paris", "zebra crossing 12", "abcdefgh€x", "abcdefghzz",
    "abcdefghzy",
];
const PATTERNS: [&str; 14] = ["%", "a%", "%b", "%b%", "_", "a_", "_b%", "abc", "", "%%", "a_c", "__", "x%y", "%a%b%"];

impl<'a> Gen<'a> {
    fn tag(&mut self, t: &str) {
        self.tags.insert(t.to_string());
    }

    fn int_val(&mut self, ty: Ty, p: Profile) -> i128 {
        let r = &mut *self.rng;
        match p {
            Profile::Boundary => {
                if ty == Ty::Int {
                    *r.pick(&[I32_MIN, I32_MAX, I32_MIN + 1, I32_MAX - 1, 0, -1, 1, 65536, -65536, 46341])
                } else if ty == Ty::UInt {
                    *r.pick(&[0, 1, 2, 4294967295, 4294967294, 2147483648, 2147483647, 65536, 65535])
                } else if ty == Ty::BigUInt {
                    // (literals above 2^63 cannot be written: numbers are lexed as f64 and cast to a signed integer)
                    *r.pick(&[0, 1, 2, 4294967295, 4294967296, 1 << 53, 1 << 62, 3037000500, 9223372036854775807])
                } else {
                    *r.pick(&[
                        I64_MIN,
                        I64_MAX,
                        I32_MIN - 1,
                        I32_MAX + 1,
                        1 << 53,
                        -(1 << 53),
                        0,
                        -1,
                        1,
                        3037000500,
                        -3037000500,
                        1 << 62,
                    ])
                }
            }
            Profile::Dups => r.range(0, 2) as i128,
            Profile::Wide if ty == Ty::BigInt || ty == Ty::BigUInt => {
                let m = (1i128 << 31) + r.below(1 << 35) as i128;
                if ty == Ty::BigInt && r.chance(1, 2) { -m } else { m }
            }
            _ => {
                let unsigned = ty == Ty::UInt || ty == Ty::BigUInt;
                if r.chance(1, 8) {
                    r.range(if unsigned { 0 } else { -1000 }, 1000) as i128
                } else {
                    r.range(if unsigned { 0 } else { -4 }, 9) as i128
                }
            }
        }
    }

    fn val(&mut self, ty: Ty, p: Profile, nullable: bool) -> Val {
        let null_num = match p {
            Profile::Nulls => 5,
            Profile::Sparse => 3,
            _ => 2,
        };
        if nullable && self.rng.chance(null_num, 10) {
            return Val::Null;
        }
        match ty {
            Ty::Int | Ty::BigInt | Ty::UInt | Ty::BigUInt => Val::Int(self.int_val(ty, p)),
            Ty::Bool => Val::Bool(self.rng.chance(1, 2)),
            Ty::Text => {
                if p != Profile::Dups && self.rng.chance(1, 4) {
                    // subjects for the LIKE family
                    return Val::Text(like_subject(self.rng));
                }
                let n = if p == Profile::Dups { 3 } else { WORDS.len() };
                Val::Text(WORDS[self.rng.below(n as u64) as usize].as_bytes().to_vec())
            }
            // eighths: exactly representable (also as f32), printed exactly in decimal notation
            Ty::Double | Ty::Float => {
                let k = match p {
                    Profile::Dups => self.rng.range(3, 6),
                    _ => {
                        if self.rng.chance(1, 8) { self.rng.range(-800000, 800000) } else { self.rng.range(-12, 30) }
                    }
                };
                Val::F64((k as f64 / 8.0).to_bits())
            }
        }
    }

    fn table(&mut self, p: Profile, first: bool) -> Table {
        let ncols = self.rng.range(2, 5) as usize;
        let mut tys = vec![Ty::Int];
        for _ in 1..ncols {
            let t = match p {
                Profile::Text => *self.rng.pick(&[Ty::Text, Ty::Text, Ty::Int]),
                Profile::Boundary => *self.rng.pick(&[Ty::Int, Ty::BigInt, Ty::BigInt, Ty::UInt, Ty::BigUInt]),
                Profile::Wide => *self.rng.pick(&[Ty::Int, Ty::BigInt, Ty::BigInt, Ty::BigUInt, Ty::UInt]),
                _ => *self.rng.pick(&[
                    Ty::Int, Ty::Int, Ty::Int, Ty::BigInt, Ty::BigInt, Ty::Text, Ty::Text, Ty::Bool, Ty::Bool, Ty::Double, Ty::UInt,
                    Ty::UInt, Ty::BigUInt, Ty::Float,
                ]),
            };
            tys.push(t);
        }
        let nrows = match p {
            Profile::Sparse => {
                if first {
                    0
                } else {
                    self.rng.range(0, 2) as usize
                }
            }
            Profile::Dups => self.rng.range(5, 10) as usize,
            _ => self.rng.range(3, 8) as usize,
        };
        let mut rows = Vec::new();
        for _ in 0..nrows {
            let row: Vec<Val> = (0..ncols).map(|c| self.val(tys[c], p, c > 0 || p == Profile::Nulls)).collect();
            rows.push(row);
        }
        Table { tys, rows }
    }

    fn lit(&mut self, ty: Ty, p: Profile) -> E {
        if self.rng.chance(1, 12) {
            self.tag("lit.null");
            return E::Lit(Val::Null);
        }
        // 2^63 - 1 is not an f64: as a literal it only works through the saturating cast of the binder, and
        // `- 9223372036854775807` is folded to -2^63 by the parser (numbers are lexed as f64: documented assumption)
        match self.val(ty, p, false) {
            Val::Int(v) if v == I64_MAX => E::Lit(Val::Int(1 << 62)),
            v => E::Lit(v),
        }
    }

    fn cols_of(&self, tys: &[Ty], want: &[Ty]) -> Vec<usize> {
        tys.iter().enumerate().filter(|(_, t)| want.contains(t)).map(|(i, _)| i).collect()
    }

    fn int_expr(&mut self, tys: &[Ty], p: Profile, depth: u32) -> E {
        let cols = self.cols_of(tys, &[Ty::Int, Ty::BigInt]);
        // (wide values: sums and differences of a few of them stay far inside 64 bits, products do not)
        let leaf = depth == 0 || self.rng.chance(1, 2) || (self.safe_arith && p == Profile::Boundary);
        if leaf {
            if !self.cols_of(tys, &[Ty::Text]).is_empty() && self.rng.chance(1, 8) {
                self.tag("strfn.length");
                let saved = self.no_case;
                self.no_case = true;
                let t = if self.rng.chance(1, 4) {
                    self.tag("strfn.length.multibyte-literal");
                    let mut s = like_subject(self.rng);
                    s.extend("€".as_bytes());
                    E::Lit(Val::Text(s))
                } else {
                    self.text_expr(tys, p)
                };
                self.no_case = saved;
                return E::StrFn("length", Box::new(t));
            }
            if !cols.is_empty() && self.rng.chance(2, 3) {
                return E::Col(*self.rng.pick(&cols));
            }
            let ty = *self.rng.pick(&[Ty::Int, Ty::BigInt]);
            return self.lit(ty, p);
        }
        if !self.no_case && self.rng.chance(1, 9) {
            return self.case_expr(tys, p, 'i', depth - 1);
        }
        if !self.no_unsigned && !self.cols_of(tys, &[Ty::UInt, Ty::BigUInt]).is_empty() && self.rng.chance(1, 3) {
            return self.mixed_arith(tys, p);
        }
        if self.rng.chance(1, 8) {
            return self.int_fn_expr(tys, p);
        }
        match self.rng.below(8) {
            0 => {
                self.tag("op.neg");
                let saved = (self.no_case, self.no_unsigned);
                self.no_case = true;
                self.no_unsigned = true;
                let e = self.int_expr(tys, p, depth - 1);
                (self.no_case, self.no_unsigned) = saved;
                E::Neg(Box::new(e))
            }
            1 => {
                self.tag("op.pos");
                E::Pos(Box::new(self.int_expr(tys, p, depth - 1)))
            }
            k => {
                let op = ["add", "sub", "mul", "div", "mod", "add"][(k - 2) as usize];
                let op = if self.safe_arith && p == Profile::Wide && op == "mul" { "sub" } else { op };
                self.tag(&format!("op.{}", op));
                let sub = if self.safe_arith && op == "mul" { 0 } else { depth - 1 };
                let a = self.int_expr(tys, p, sub);
                let b = if self.safe_arith && (op == "div" || op == "mod") {
                    E::Lit(Val::Int(*self.rng.pick(&[1, 2, 3, -1, -2, 7])))
                } else {
                    self.int_expr(tys, p, sub)
                };
                if !self.safe_arith {
                    self.tag("arith.may-fail");
                }
                E::Arith(op, Box::new(a), Box::new(b))
            }
        }
    }

    /// Arithmetic that involves an unsigned column: unsigned (op) unsigned is BIGUINT, every other pair BIGINT; a signed
    /// minus an unsigned operand gives negative results.  In safe mode the combinations that can fail are left out:
    /// unsigned - unsigned (a negative result is an overflow), unary minus on an unsigned value (a type error), and any
    /// arithmetic on boundary values.
    fn mixed_arith(&mut self, tys: &[Ty], p: Profile) -> E {
        let ucols = self.cols_of(tys, &[Ty::UInt, Ty::BigUInt]);
        let scols = self.cols_of(tys, &[Ty::Int, Ty::BigInt]);
        let u = E::Col(*self.rng.pick(&ucols));
        if self.safe_arith && big_values(p) {
            self.tag("arith.unsigned.col");
            return u;
        }
        // the other operand: (expression, is it of an unsigned kind)
        let other = |g: &mut Self| -> (E, bool) {
            match g.rng.below(4) {
                0 => (E::Col(*g.rng.pick(&ucols)), true),
                1 if !scols.is_empty() => (E::Col(*g.rng.pick(&scols)), false),
                2 => (E::Arith("add", Box::new(E::Col(*g.rng.pick(&ucols))), Box::new(E::Col(*g.rng.pick(&ucols)))), true),
                _ => (E::Lit(Val::Int(g.rng.range(0, 12) as i128)), false),
            }
        };
        let (o, o_unsigned) = other(self);
        if !self.safe_arith && self.rng.chance(1, 10) {
            self.tag("arith.unsigned.neg");
            self.tag("arith.may-fail");
            return E::Neg(Box::new(u));
        }
        let op = *self.rng.pick(&["add", "sub", "sub", "mul", "div", "mod"]);
        let u_first = self.rng.chance(1, 2);
        let fails = o_unsigned && op == "sub" || op == "div" || op == "mod";
        if self.safe_arith && fails {
            // signed - unsigned instead: negative results, no error
            self.tag("arith.mixed.sub");
            let lit = E::Lit(Val::Int(self.rng.range(-3, 9) as i128));
            return E::Arith("sub", Box::new(lit), Box::new(u));
        }
        self.tag(if o_unsigned { "arith.unsigned" } else { "arith.mixed" });
        self.tag(&format!("{}.{}", if o_unsigned { "arith.unsigned" } else { "arith.mixed" }, op));
        if !self.safe_arith {
            self.tag("arith.may-fail");
        }
        if u_first { E::Arith(op, Box::new(u), Box::new(o)) } else { E::Arith(op, Box::new(o), Box::new(u)) }
    }

    /// COALESCE / NULLIF with integer arguments.  In safe mode the arguments are columns of one type (the result is cast
    /// to the type of the first typed argument), small literals and NULLs.
    fn int_fn_expr(&mut self, tys: &[Ty], p: Profile) -> E {
        let all: Vec<Ty> =
            if self.no_unsigned { vec![Ty::Int, Ty::BigInt] } else { vec![Ty::Int, Ty::BigInt, Ty::UInt, Ty::BigUInt] };
        let ty = *self.rng.pick(&all);
        let cols = if self.safe_arith { self.cols_of(tys, &[ty]) } else { self.cols_of(tys, &all) };
        let arg = |g: &mut Self| -> E {
            match g.rng.below(6) {
                0 => E::Lit(Val::Null),
                1 if !(g.safe_arith && big_values(p)) => E::Lit(Val::Int(g.rng.range(0, 9) as i128)),
                2 if !g.safe_arith => g.int_expr(tys, p, 0),
                _ if !cols.is_empty() => E::Col(*g.rng.pick(&cols)),
                _ => E::Lit(Val::Null),
            }
        };
        if self.rng.chance(1, 3) {
            self.tag("fn.nullif");
            let a = arg(self);
            let b = arg(self);
            E::NullIf(Box::new(a), Box::new(b))
        } else {
            let n = 1 + self.rng.below(4) as usize;
            self.tag(&format!("fn.coalesce.{}", n));
            E::Coalesce((0..n).map(|_| arg(self)).collect())
        }
    }

    /// ABS / CEIL / FLOOR / ROUND: DOUBLE results (compared with decimal literals and DOUBLE columns, shown, sorted)
    fn num_fn_expr(&mut self, tys: &[Ty], p: Profile) -> E {
        let f = *self.rng.pick(&["abs", "abs", "ceil", "floor", "round"]);
        let dcols = self.cols_of(tys, &[Ty::Double, Ty::Float]);
        let arg = if !dcols.is_empty() && self.rng.chance(1, 2) {
            self.tag(&format!("fn.{}.double", f));
            E::Col(*self.rng.pick(&dcols))
        } else if self.rng.chance(1, 4) {
            self.tag(&format!("fn.{}.double", f));
            self.lit(Ty::Double, p)
        } else {
            self.tag(&format!("fn.{}.int", f));
            let saved = self.no_case;
            self.no_case = true;
            let e = self.int_expr(tys, p, 1);
            self.no_case = saved;
            e
        };
        E::StrFn(f, Box::new(arg))
    }

    /// CASE with results of kind `k` ('i' integer, 't' text, 'b' boolean): searched, simple, or the guarded division
    fn case_expr(&mut self, tys: &[Ty], p: Profile, k: char, depth: u32) -> E {
        let saved = self.no_case;
        self.no_case = true; // no CASE inside CASE: keeps the texts short
        let result = |g: &mut Self| -> E {
            if g.rng.chance(1, 6) {
                return E::Lit(Val::Null);
            }
            match k {
                'i' => g.int_expr(tys, p, 0),
                't' => g.text_expr(tys, p),
                _ => {
                    let cols = g.cols_of(tys, &[Ty::Bool]);
                    if !cols.is_empty() && g.rng.chance(1, 2) { E::Col(*g.rng.pick(&cols)) } else { E::Lit(Val::Bool(g.rng.chance(1, 2))) }
                }
            }
        };
        let icols = self.cols_of(tys, &[Ty::Int, Ty::BigInt]);
        let e = if k == 'i' && !big_values(p) && !icols.is_empty() && self.rng.chance(1, 4) {
            // CASE WHEN c = 0 THEN r ELSE a / c END never divides by zero: only the chosen branch is evaluated
            self.tag("case.guarded-div");
            let c = *self.rng.pick(&icols);
            let op = *self.rng.pick(&["div", "mod"]);
            let a = self.int_expr(tys, p, 0);
            E::Case(
                None,
                vec![(E::Cmp("eq", Box::new(E::Col(c)), Box::new(E::Lit(Val::Int(0)))), result(self))],
                Some(Box::new(E::Arith(op, Box::new(a), Box::new(E::Col(c))))),
            )
        } else if self.rng.chance(1, 3) {
            self.tag("case.simple");
            let tcols = self.cols_of(tys, &[Ty::Text]);
            let text = !tcols.is_empty() && self.rng.chance(1, 3);
            let x = if text {
                E::Col(*self.rng.pick(&tcols))
            } else if !icols.is_empty() {
                E::Col(*self.rng.pick(&icols))
            } else {
                E::Lit(Val::Int(self.rng.range(0, 3) as i128))
            };
            let n = 1 + self.rng.below(3) as usize;
            let arms = (0..n)
                .map(|_| {
                    let v = if text { self.lit(Ty::Text, p) } else { self.lit(Ty::Int, p) };
                    (v, result(self))
                })
                .collect();
            let els = if self.rng.chance(2, 3) { Some(Box::new(result(self))) } else { None };
            E::Case(Some(Box::new(x)), arms, els)
        } else {
            self.tag("case.searched");
            let n = 1 + self.rng.below(3) as usize;
            let arms = (0..n).map(|_| (self.bool_expr(tys, p, depth.min(1)), result(self))).collect();
            let els = if self.rng.chance(2, 3) { Some(Box::new(result(self))) } else { None };
            E::Case(None, arms, els)
        };
        self.no_case = saved;
        e
    }

    fn text_expr(&mut self, tys: &[Ty], p: Profile) -> E {
        if !self.no_case && self.rng.chance(1, 10) {
            return self.case_expr(tys, p, 't', 0);
        }
        if self.rng.chance(1, 5) {
            return self.str_fn_expr(tys, p);
        }
        if self.rng.chance(1, 10) {
            // COALESCE / NULLIF over texts
            let arg = |g: &mut Self| if g.rng.chance(1, 4) { E::Lit(Val::Null) } else { g.text_atom(tys, p) };
            return if self.rng.chance(1, 3) {
                self.tag("fn.nullif.text");
                let a = arg(self);
                let b = arg(self);
                E::NullIf(Box::new(a), Box::new(b))
            } else {
                let n = 1 + self.rng.below(3) as usize;
                self.tag(&format!("fn.coalesce.text.{}", n));
                E::Coalesce((0..n).map(|_| arg(self)).collect())
            };
        }
        self.text_atom(tys, p)
    }

    /// UPPER / LOWER / LTRIM / RTRIM of a text (now and then of another such call), or a concatenation
    fn str_fn_expr(&mut self, tys: &[Ty], p: Profile) -> E {
        let a = self.text_atom(tys, p);
        let k = self.rng.below(6) as usize;
        if k < 4 {
            let f = STR_FNS[[0, 1, 3, 4][k]];
            self.tag(&format!("strfn.{}", f));
            let inner = if self.rng.chance(1, 4) {
                let g = *self.rng.pick(&["upper", "lower", "ltrim", "rtrim"]);
                self.tag("strfn.nested");
                E::StrFn(g, Box::new(a))
            } else {
                a
            };
            E::StrFn(f, Box::new(inner))
        } else {
            self.tag("strfn.concat");
            let b = self.text_atom(tys, p);
            let ab = E::Concat(Box::new(a), Box::new(b));
            if self.rng.chance(1, 4) {
                let c = self.text_atom(tys, p);
                if self.rng.chance(1, 2) { E::Concat(Box::new(ab), Box::new(c)) } else { E::Concat(Box::new(c), Box::new(ab)) }
            } else {
                ab
            }
        }
    }

    fn text_atom(&mut self, tys: &[Ty], p: Profile) -> E {
        let cols = self.cols_of(tys, &[Ty::Text]);
        if !cols.is_empty() && self.rng.chance(2, 3) {
            E::Col(*self.rng.pick(&cols))
        } else {
            self.lit(Ty::Text, p)
        }
    }

    /// a DOUBLE column or a decimal literal
    fn dbl_operand(&mut self, tys: &[Ty], p: Profile) -> E {
        let dcols = self.cols_of(tys, &[Ty::Double, Ty::Float]);
        if !dcols.is_empty() && self.rng.chance(1, 3) { E::Col(*self.rng.pick(&dcols)) } else { self.lit(Ty::Double, p) }
    }

    /// a scalar of a random comparable type with a second scalar of the same type
    fn same_type_pair(&mut self, tys: &[Ty], p: Profile, depth: u32) -> (E, E, &'static str) {
        let has_text = !self.cols_of(tys, &[Ty::Text]).is_empty();
        let has_bool = !self.cols_of(tys, &[Ty::Bool]).is_empty();
        let k = self.rng.below(10);
        let dcols = self.cols_of(tys, &[Ty::Double, Ty::Float]);
        if self.rng.chance(1, 12) {
            // a numeric function (DOUBLE result) against a decimal literal or a DOUBLE column
            let a = self.num_fn_expr(tys, p);
            (a, self.dbl_operand(tys, p), "dbl")
        } else if !dcols.is_empty() && self.rng.chance(1, 4) {
            // DOUBLE values are only compared, with each other and with decimal literals
            let a = E::Col(*self.rng.pick(&dcols));
            (a, self.dbl_operand(tys, p), "dbl")
        } else if has_text && k < 3 {
            (self.text_expr(tys, p), self.text_expr(tys, p), "text")
        } else if has_bool && k == 3 {
            let cols = self.cols_of(tys, &[Ty::Bool]);
            let a = E::Col(*self.rng.pick(&cols));
            let b = if self.rng.chance(1, 2) { E::Col(*self.rng.pick(&cols)) } else { self.lit(Ty::Bool, p) };
            (a, b, "bool")
        } else {
            (self.int_expr(tys, p, depth), self.int_expr(tys, p, depth), "int")
        }
    }

    /// LIKE / NOT LIKE over the small alphabet: patterns with wildcards, escapes (often after a wildcard) and subjects
    /// that match or nearly match, so that the matcher backtracks
    fn like_family(&mut self, tys: &[Ty]) -> E {
        let items = like_pattern(self.rng);
        let trailing = self.rng.chance(1, 15);
        for t in like_tags(&items, trailing) {
            self.tag(t);
        }
        let cols = self.cols_of(tys, &[Ty::Text]);
        let subject = if !cols.is_empty() && self.rng.chance(1, 2) {
            self.tag("like.subject.col");
            E::Col(*self.rng.pick(&cols))
        } else if self.rng.chance(2, 3) {
            self.tag("like.subject.near-match");
            E::Lit(Val::Text(like_subject_for(self.rng, &items, trailing)))
        } else {
            self.tag("like.subject.random");
            E::Lit(Val::Text(like_subject(self.rng)))
        };
        if matches!(&subject, E::Lit(Val::Text(s)) if s.iter().any(|b| *b >= 0x80)) {
            self.tag("like.multibyte-subject");
        }
        let neg = self.rng.chance(1, 2);
        self.tag(if neg { "op.nlike" } else { "op.like" });
        let pat = E::Lit(Val::Text(like_pattern_bytes(&items, trailing)));
        E::Like(neg, Box::new(subject), Box::new(pat))
    }

    /// `column op literal` across type categories (number vs text vs boolean): a type error of the statement
    fn cross_type_cmp(&mut self, tys: &[Ty]) -> E {
        let c = self.rng.below(tys.len() as u64) as usize;
        let lit = match tys[c] {
            Ty::Int | Ty::BigInt | Ty::Double | Ty::UInt | Ty::BigUInt | Ty::Float => {
                if self.rng.chance(1, 2) { Val::Text(b"x".to_vec()) } else { Val::Bool(true) }
            }
            Ty::Text => {
                if self.rng.chance(1, 2) { Val::Int(self.rng.range(0, 3) as i128) } else { Val::Bool(false) }
            }
            Ty::Bool => {
                if self.rng.chance(1, 2) { Val::Int(1) } else { Val::Text(b"t".to_vec()) }
            }
        };
        let op = *self.rng.pick(&CMP_OPS);
        self.tag(&format!("cmp.cross-type.{}", op));
        match self.rng.below(4) {
            0 => E::Cmp(op, Box::new(E::Lit(lit)), Box::new(E::Col(c))),
            1 => E::Between(self.rng.chance(1, 2), Box::new(E::Col(c)), Box::new(E::Lit(lit.clone())), Box::new(E::Lit(lit))),
            2 => E::InList(self.rng.chance(1, 2), Box::new(E::Col(c)), vec![E::Lit(lit)]),
            _ => E::Cmp(op, Box::new(E::Col(c)), Box::new(E::Lit(lit))),
        }
    }

    fn bool_expr(&mut self, tys: &[Ty], p: Profile, depth: u32) -> E {
        if depth > 0 && !self.no_case && self.rng.chance(1, 12) {
            return self.case_expr(tys, p, 'b', depth - 1);
        }
        let k = if depth == 0 { self.rng.below(7) + 3 } else { self.rng.below(10) };
        match k {
            0 => {
                self.tag("op.and");
                let a = self.bool_expr(tys, p, depth - 1);
                let b = self.bool_expr(tys, p, depth - 1);
                E::And(Box::new(a), Box::new(b))
            }
            1 => {
                self.tag("op.or");
                let a = self.bool_expr(tys, p, depth - 1);
                let b = self.bool_expr(tys, p, depth - 1);
                E::Or(Box::new(a), Box::new(b))
            }
            2 => {
                self.tag("op.not");
                E::Not(Box::new(self.bool_expr(tys, p, depth - 1)))
            }
            3 | 4 => {
                let (a, b, t) = self.same_type_pair(tys, p, depth.min(2));
                let op = *self.rng.pick(&CMP_OPS);
                self.tag(&format!("cmp.{}.{}", op, t));
                E::Cmp(op, Box::new(a), Box::new(b))
            }
            5 => {
                let neg = self.rng.chance(1, 2);
                self.tag(if neg { "op.notnull" } else { "op.isnull" });
                let dcols = self.cols_of(tys, &[Ty::Double, Ty::Float]);
                let e = match self.rng.below(3) {
                    0 => self.text_expr(tys, p),
                    1 if !dcols.is_empty() => E::Col(*self.rng.pick(&dcols)),
                    _ => self.int_expr(tys, p, depth.min(1)),
                };
                E::IsNull(neg, Box::new(e))
            }
            6 => {
                let neg = self.rng.chance(1, 2);
                let (a, lo, t) = self.same_type_pair(tys, p, depth.min(1));
                let bcols = self.cols_of(tys, &[Ty::Bool]);
                let (a, lo, t) = if !bcols.is_empty() && self.rng.chance(1, 3) {
                    (E::Col(*self.rng.pick(&bcols)), self.lit(Ty::Bool, p), "bool")
                } else {
                    (a, lo, t)
                };
                let cmp_bound = |g: &mut Self| -> E {
                    let op = *g.rng.pick(&CMP_OPS);
                    let a = g.int_expr(tys, p, 0);
                    let b = g.int_expr(tys, p, 0);
                    E::Cmp(op, Box::new(a), Box::new(b))
                };
                // (boolean bounds that are comparisons, written without parentheses: `x BETWEEN a AND b = c`)
                let lo = if t == "bool" && self.rng.chance(1, 3) {
                    self.tag("op.btw.bound-is-comparison");
                    cmp_bound(self)
                } else {
                    lo
                };
                let hi = match t {
                    "text" => self.text_expr(tys, p),
                    "bool" if self.rng.chance(1, 2) => {
                        self.tag("op.btw.bound-is-comparison");
                        cmp_bound(self)
                    }
                    "bool" => self.lit(Ty::Bool, p),
                    "dbl" => self.dbl_operand(tys, p),
                    _ => self.int_expr(tys, p, depth.min(1)),
                };
                self.tag(&format!("{}.{}", if neg { "op.nbtw" } else { "op.btw" }, t));
                E::Between(neg, Box::new(a), Box::new(lo), Box::new(hi))
            }
            7 => {
                let neg = self.rng.chance(1, 2);
                let (a, x, t) = self.same_type_pair(tys, p, depth.min(1));
                // the engine evaluates the list before the tested expression, the spec after it (SQL leaves the order
                // open): the list elements are leaves, which cannot fail
                let x = if t == "int" { self.int_expr(tys, p, 0) } else { x };
                let mut xs = vec![x];
                for _ in 0..self.rng.below(3) {
                    xs.push(match t {
                        "text" => self.text_expr(tys, p),
                        "bool" => self.lit(Ty::Bool, p),
                        "dbl" => self.dbl_operand(tys, p),
                        _ => self.int_expr(tys, p, 0),
                    });
                }
                self.tag(&format!("{}.{}", if neg { "op.nin" } else { "op.in" }, t));
                E::InList(neg, Box::new(a), xs)
            }
            8 => {
                let cols = self.cols_of(tys, &[Ty::Text]);
                if self.rng.chance(1, 2) {
                    return self.like_family(tys);
                }
                if cols.is_empty() {
                    return self.bool_expr(tys, p, 0);
                }
                let neg = self.rng.chance(1, 2);
                self.tag(if neg { "op.nlike" } else { "op.like" });
                let pat = if self.rng.chance(1, 15) {
                    E::Lit(Val::Null)
                } else {
                    E::Lit(Val::Text(self.rng.pick(&PATTERNS).as_bytes().to_vec()))
                };
                E::Like(neg, Box::new(E::Col(*self.rng.pick(&cols))), Box::new(pat))
            }
            _ => {
                let cols = self.cols_of(tys, &[Ty::Bool]);
                if cols.is_empty() {
                    let (a, b, t) = self.same_type_pair(tys, p, 1);
                    let op = *self.rng.pick(&CMP_OPS);
                    self.tag(&format!("cmp.{}.{}", op, t));
                    return E::Cmp(op, Box::new(a), Box::new(b));
                }
                self.tag("bool.col");
                E::Col(*self.rng.pick(&cols))
            }
        }
    }

    /// left-deep join tree over 1–3 table occurrences
    /// a derived table over `inner`: some of its columns in some order, now and then a computed column, half of the
    /// time with a WHERE of its own.  Everything inside is generated in safe mode (it cannot raise an error), and every
    /// output column has a type (an untyped NULL column is left to the engine's discretion).
    fn derived_over(&mut self, inner: From, db: &[Table], p: Profile) -> From {
        let tys = from_tys(&inner, db);
        if tys.is_empty() {
            return inner;
        }
        self.tag("from.derived");
        if has_join(&inner) {
            self.tag("from.derived.over-join");
        }
        if matches!(inner, From::Derived(..)) {
            self.tag("from.derived.nested");
        }
        let saved = self.safe_arith;
        self.safe_arith = true;
        let w = if self.rng.chance(1, 2) {
            self.tag("from.derived.where");
            Some(self.bool_expr(&tys, p, 1))
        } else {
            None
        };
        let n = 1 + self.rng.below(tys.len() as u64 + 1) as usize;
        let mut items = Vec::new();
        for _ in 0..n {
            let e = if self.rng.chance(3, 4) {
                E::Col(self.rng.below(tys.len() as u64) as usize)
            } else {
                self.tag("from.derived.expr");
                match self.rng.below(3) {
                    0 => self.int_expr(&tys, p, 1),
                    1 => self.bool_expr(&tys, p, 1),
                    _ => self.text_expr(&tys, p),
                }
            };
            items.push(if expr_ty(&e, &tys).is_none() { E::Col(0) } else { e });
        }
        self.safe_arith = saved;
        // a third of them as common table expressions (only a top-level operand of FROM is written as one); now and then
        // under the name of a table of the database that the statement does not read
        let used = {
            let mut ls = Vec::new();
            let mut wd = 0;
            leaves(&inner, db, &mut ls, &mut wd);
            ls
        };
        let cte = if self.rng.chance(1, 3) {
            let free: Vec<usize> = (0..db.len()).filter(|j| !used.iter().any(|(t, _)| t == j)).collect();
            if !free.is_empty() && self.rng.chance(1, 3) {
                self.tag("from.cte.shadows-table");
                Cte::Shadow(*self.rng.pick(&free))
            } else {
                self.tag("from.cte");
                Cte::Named
            }
        } else {
            Cte::No
        };
        From::Derived(Box::new(inner), w, items, cte)
    }

    /// one operand of FROM: a table, now and then wrapped in a derived table
    fn leaf(&mut self, db: &[Table], p: Profile) -> From {
        let t = From::Table(self.rng.below(db.len() as u64) as usize);
        if self.rng.chance(1, 6) { self.derived_over(t, db, p) } else { t }
    }

    fn from(&mut self, db: &[Table], p: Profile, max_tables: usize) -> From {
        let f = self.from_tree(db, p, max_tables);
        // the whole FROM as a derived table (over a join, or a derived table of a derived table)
        let mut f = if self.rng.chance(1, 12) { self.derived_over(f, db, p) } else { f };
        // a CTE may take the name of a table only if the statement reads that table nowhere
        let mut used = Vec::new();
        all_tables(&f, &mut used);
        unshadow(&mut f, &used);
        f
    }

    fn from_tree(&mut self, db: &[Table], p: Profile, max_tables: usize) -> From {
        let n = 1 + self.rng.below(max_tables as u64) as usize;
        self.safe_arith = true;
        let mut f = From::Table(self.rng.below(db.len() as u64) as usize);
        // family "key-chain": a chain of equi-joins that all use the same column of the first table as their (first) key,
        // the later ones with a second key from the first table — the shape in which an ordering established for one
        // join is (wrongly or rightly) reused for the next
        if n == 3 && self.rng.chance(1, 2) {
            let tys0 = from_tys(&f, db);
            let ints0: Vec<usize> = (0..tys0.len()).filter(|i| matches!(tys0[*i], Ty::Int | Ty::BigInt)).collect();
            if ints0.len() >= 2 {
                self.tag("join.keychain");
                let x = *self.rng.pick(&ints0);
                let others: Vec<usize> = ints0.iter().cloned().filter(|i| *i != x).collect();
                let s2 = *self.rng.pick(&others);
                for step in 1..n {
                    let t = self.rng.below(db.len() as u64) as usize;
                    let kind = *self.rng.pick(&["inner", "inner", "left", "right", "full"]);
                    self.tag(&format!("join.{}", kind));
                    let lw = from_tys(&f, db).len();
                    let joined = From::Join(kind, Box::new(f.clone()), Box::new(From::Table(t)), None);
                    let tys = from_tys(&joined, db);
                    let rints: Vec<usize> =
                        (lw..tys.len()).filter(|i| matches!(tys[*i], Ty::Int | Ty::BigInt)).collect();
                    if rints.is_empty() {
                        f = From::Join("cross", Box::new(f), Box::new(From::Table(t)), None);
                        continue;
                    }
                    let r1 = *self.rng.pick(&rints);
                    let c1 = E::Cmp("eq", Box::new(E::Col(x)), Box::new(E::Col(r1)));
                    let on = if step >= 2 || self.rng.chance(1, 3) {
                        let r2 = *self.rng.pick(&rints);
                        self.tag("join.equi.2keys");
                        E::And(Box::new(c1), Box::new(E::Cmp("eq", Box::new(E::Col(s2)), Box::new(E::Col(r2)))))
                    } else {
                        c1
                    };
                    self.tag("join.equi");
                    f = From::Join(kind, Box::new(f), Box::new(From::Table(t)), Some(on));
                }
                return f;
            }
        }
        if self.rng.chance(1, 6) {
            f = self.derived_over(f, db, p);
        }
        for _ in 1..n {
            let right = match &f {
                // the same CTE a second time
                From::Derived(.., Cte::Named | Cte::Shadow(_)) if self.rng.chance(1, 2) => {
                    self.tag("from.cte.used-twice");
                    f.clone()
                }
                _ => self.leaf(db, p),
            };
            let kind = *self.rng.pick(&["inner", "inner", "left", "right", "full", "cross"]);
            self.tag(&format!("join.{}", kind));
            let ltys = from_tys(&f, db);
            let joined = From::Join(kind, Box::new(f.clone()), Box::new(right.clone()), None);
            let tys = from_tys(&joined, db);
            let on = if kind == "cross" {
                None
            } else {
                let lw = ltys.len();
                let lints: Vec<usize> = (0..lw).filter(|i| matches!(tys[*i], Ty::Int | Ty::BigInt)).collect();
                let rints: Vec<usize> =
                    (lw..tys.len()).filter(|i| matches!(tys[*i], Ty::Int | Ty::BigInt)).collect();
                let k = self.rng.below(10);
                if k < 5 && !lints.is_empty() && !rints.is_empty() {
                    // equi-join, written either way round, possibly with a second key
                    let mk = |g: &mut Self| {
                        let (l, r) = (*g.rng.pick(&lints), *g.rng.pick(&rints));
                        if g.rng.chance(1, 3) {
                            g.tag("join.equi.reversed");
                            E::Cmp("eq", Box::new(E::Col(r)), Box::new(E::Col(l)))
                        } else {
                            E::Cmp("eq", Box::new(E::Col(l)), Box::new(E::Col(r)))
                        }
                    };
                    self.tag("join.equi");
                    let c = mk(self);
                    if self.rng.chance(1, 4) {
                        self.tag("join.equi.2keys");
                        let c2 = mk(self);
                        Some(E::And(Box::new(c), Box::new(c2)))
                    } else {
                        Some(c)
                    }
                } else {
                    self.tag("join.theta");
                    Some(self.bool_expr(&tys, p, 1))
                }
            };
            // a join condition that does not mention both inputs (region of finding KF-C05-commuted-join-keeps-indices)
            if let Some(c) = &on {
                let mut cs = Vec::new();
                expr_cols(c, &mut cs);
                let lw = ltys.len();
                if !cs.is_empty() && (cs.iter().all(|i| *i < lw) || cs.iter().all(|i| *i >= lw)) {
                    self.tag("join.on.oneside");
                }
            }
            f = From::Join(kind, Box::new(f), Box::new(right), on);
        }
        f
    }

    fn select(&mut self, db: &[Table], p: Profile) -> Select {
        let max_tables = if self.rng.chance(1, 3) { 3 } else { 1 };
        let from = self.from(db, p, max_tables);
        let multi = has_join(&from);
        self.tag(if multi { "multi-table" } else { "single-table" });
        // shape of the rest of the statement, decided first because it determines which clause may fail
        let kind = self.rng.below(10); // < 3: aggregate query
        let order_kind = self.rng.below(10); // < 3 partial order, < 6 total order (+ limit), else none
        let limit_kind = self.rng.below(4);
        let has_limit = (3..6).contains(&order_kind) && limit_kind < 3;
        // the one clause that may raise an arithmetic error: 0 = none, 1 = WHERE, 2 = output (items / keys), 3 = aggregate arguments
        // (a WHERE inside a derived table is merged with the outer one: a row it rejects may still meet the outer predicate)
        let risky = if multi || has_derived_where(&from) {
            0
        } else if has_limit {
            self.rng.below(2)
        } else {
            self.rng.below(4)
        };
        // the select list of a plain query under ORDER BY is evaluated in sorted order by the engine, in table order by
        // the spec: if several rows fail differently the reported error differs, so the list is generated safe
        let risky = if risky == 2 && kind >= 3 && order_kind < 6 { 0 } else { risky };
        let tys = from_tys(&from, db);
        let depth = self.rng.range(0, 3) as u32;
        self.safe_arith = risky != 1;
        // a cross-category comparison as the whole WHERE of a single-table statement whose table has a row on which
        // both sides are non-NULL: the engine meets it for certain (it checks when it evaluates)
        let cross = matches!(from, From::Table(_)) && self.pristine && self.rng.chance(1, 40);
        let where_ = if cross {
            let mut w = self.cross_type_cmp(&tys);
            let t = match &from { From::Table(t) => *t, _ => 0 };
            let mut cols = Vec::new();
            expr_cols(&w, &mut cols);
            let reachable = db[t].rows.iter().any(|r| cols.iter().all(|c| r[*c] != Val::Null));
            if !reachable {
                self.tags.retain(|t| !t.starts_with("cmp.cross-type"));
                w = self.bool_expr(&tys, p, 0);
            }
            Some(w)
        } else if self.rng.chance(4, 5) {
            self.tag("where");
            Some(self.bool_expr(&tys, p, depth))
        } else {
            None
        };
        let mut q = Select {
            distinct: false,
            from,
            where_,
            group_by: vec![],
            aggs: vec![],
            items: None,
            order_by: vec![],
            limit: None,
            offset: None,
            having: None,
        };
        let nout;
        // output columns holding an AVG (a double): not usable as sort keys by the comparator of the harness
        let mut avg_out: Vec<usize> = Vec::new();
        if kind < 3 {
            // aggregate query
            self.tag("agg");
            self.safe_arith = risky != 2;
            // kinds of the columns of the aggregate row: i integer, t text, b boolean, s SUM (a double in the engine:
            // compared, never divided), v AVG (only shown)
            let mut kinds: Vec<char> = Vec::new();
            let kind_of = |t: Ty| match t {
                Ty::Int | Ty::BigInt => 'i',
                Ty::Text => 't',
                Ty::Bool => 'b',
                Ty::UInt | Ty::BigUInt => 'i',
                // shown only (like AVG)
                Ty::Double | Ty::Float => 'v',
            };
            let nkeys = self.rng.below(3) as usize;
            for _ in 0..nkeys {
                let k = match self.rng.below(4) {
                    0 => {
                        kinds.push('i');
                        self.int_expr(&tys, p, 1)
                    }
                    _ => {
                        let c = self.rng.below(tys.len() as u64) as usize;
                        kinds.push(kind_of(tys[c]));
                        E::Col(c)
                    }
                };
                q.group_by.push(k);
            }
            self.tag(&format!("groupby.{}", nkeys));
            self.safe_arith = risky != 3;
            let small = !big_values(p);
            let naggs = if nkeys > 0 && self.rng.chance(1, 8) { 0 } else { 1 + self.rng.below(3) };
            if naggs == 0 {
                self.tag("agg.none");
            }
            for _ in 0..naggs {
                let f = *self.rng.pick(&["cnt*", "cnt", "sum", "avg", "min", "max", "cntd", "cntd", "sumd", "avgd", "mind"]);
                let mut kind = 'i';
                let arg = match f {
                    "cnt*" => None,
                    "sum" | "avg" | "sumd" | "avgd" => {
                        kind = if f.starts_with("sum") { 's' } else { 'v' };
                        if small {
                            Some(self.int_expr(&tys, p, 1))
                        } else {
                            // sums of boundary values are kept to single columns of INT type (no 64-bit overflow)
                            let cols = self.cols_of(&tys, &[Ty::Int]);
                            // (a derived table need not have an INT column)
                            Some(if cols.is_empty() { E::Lit(Val::Int(1)) } else { E::Col(*self.rng.pick(&cols)) })
                        }
                    }
                    _ => Some(match self.rng.below(3) {
                        0 => self.int_expr(&tys, p, 1),
                        _ => {
                            let c = self.rng.below(tys.len() as u64) as usize;
                            if f.starts_with("m") {
                                kind = kind_of(tys[c]);
                            }
                            E::Col(c)
                        }
                    }),
                };
                kinds.push(kind);
                self.tag(&format!("agg.{}", f));
                q.aggs.push(Agg { f, arg });
            }
            // expressions over the aggregate row: never failing (small counts and values), SUM only compared
            let numeric: Vec<usize> =
                (0..kinds.len()).filter(|i| kinds[*i] == 'i' && (small || *i >= nkeys && q.aggs[*i - nkeys].f.starts_with("cnt"))).collect();
            let comparable: Vec<usize> = (0..kinds.len()).filter(|i| kinds[*i] == 'i' || kinds[*i] == 's').collect();
            let over_row = |g: &mut Self, want_bool: bool| -> E {
                if want_bool && comparable.is_empty() {
                    let c = g.rng.below(kinds.len() as u64) as usize;
                    return E::IsNull(g.rng.chance(1, 2), Box::new(E::Col(c)));
                }
                if want_bool {
                    let c = *g.rng.pick(&comparable);
                    let op = *g.rng.pick(&CMP_OPS);
                    let lit = E::Lit(Val::Int(g.rng.range(-2, 4) as i128));
                    if g.rng.chance(1, 5) {
                        return E::IsNull(g.rng.chance(1, 2), Box::new(E::Col(c)));
                    }
                    return E::Cmp(op, Box::new(E::Col(c)), Box::new(lit));
                }
                if !numeric.is_empty() && g.rng.chance(1, 2) {
                    let c = *g.rng.pick(&numeric);
                    let op = *g.rng.pick(&["add", "sub", "mul"]);
                    let lit = E::Lit(Val::Int(g.rng.range(1, 3) as i128));
                    return if g.rng.chance(1, 2) {
                        E::Arith(op, Box::new(E::Col(c)), Box::new(lit))
                    } else {
                        E::Arith(op, Box::new(lit), Box::new(E::Col(c)))
                    };
                }
                E::Col(g.rng.below(kinds.len() as u64) as usize)
            };
            if self.rng.chance(1, 3) {
                self.tag("having");
                let h = over_row(self, true);
                q.having = Some(if self.rng.chance(1, 3) {
                    let h2 = over_row(self, true);
                    if self.rng.chance(1, 2) { E::And(Box::new(h), Box::new(h2)) } else { E::Or(Box::new(h), Box::new(h2)) }
                } else {
                    h
                });
            }
            if self.rng.chance(1, 2) {
                // a select list of its own over the aggregate row: any order, repeated columns, arithmetic, predicates
                self.tag("agg.select-list");
                let n = self.rng.range(1, 3) as usize;
                let mut items: Vec<E> = (0..n)
                    .map(|_| {
                        let b = self.rng.chance(1, 5);
                        over_row(self, b)
                    })
                    .collect();
                // an aggregate that occurs nowhere in the text does not exist for the engine: show the unused ones
                let mut used = Vec::new();
                for e in items.iter().chain(q.having.iter()) {
                    expr_cols(e, &mut used);
                }
                for j in nkeys..kinds.len() {
                    if !used.contains(&j) {
                        items.push(E::Col(j));
                    }
                }
                let n = items.len();
                nout = n;
                avg_out = (0..n).filter(|i| matches!(&items[*i], E::Col(c) if kinds[*c] == 'v')).collect();
                q.items = Some(items);
            } else {
                nout = kinds.len();
                avg_out = (0..nout).filter(|i| kinds[*i] == 'v').collect();
            }
        } else {
        // projection
        self.safe_arith = risky != 2;
        if self.rng.chance(1, 2) {
            nout = tys.len();
        } else {
            let n = self.rng.range(1, 3) as usize;
            let mut items = Vec::new();
            for _ in 0..n {
                items.push(match self.rng.below(6) {
                    0 => {
                        self.tag("project.arith");
                        self.int_expr(&tys, p, 2)
                    }
                    5 => {
                        self.tag("project.numfn");
                        self.num_fn_expr(&tys, p)
                    }
                    1 => {
                        self.tag("project.pred");
                        self.bool_expr(&tys, p, 1)
                    }
                    _ => E::Col(self.rng.below(tys.len() as u64) as usize),
                });
            }
            nout = n;
            q.items = Some(items);
        }
        }
        if self.rng.chance(1, 4) {
            self.tag("distinct");
            q.distinct = true;
        }
        let k = if !avg_out.is_empty() && (3..6).contains(&order_kind) { 0 } else { order_kind };
        if k < 3 && avg_out.len() < nout {
            // partial order, no limit: ties are free
            self.tag("orderby.partial");
            let n = 1 + self.rng.below(2.min(nout as u64)) as usize;
            let mut pos: Vec<usize> = (0..nout).filter(|i| !avg_out.contains(i)).collect();
            self.rng.shuffle(&mut pos);
            for p in pos.into_iter().take(n) {
                let asc = self.rng.chance(1, 2);
                self.tag(if asc { "orderby.asc" } else { "orderby.desc" });
                q.order_by.push((p, asc));
            }
        } else if (3..6).contains(&k) {
            // total order over all output columns, so that LIMIT / OFFSET have exactly one answer
            self.tag("orderby.total");
            let mut pos: Vec<usize> = (0..nout).collect();
            self.rng.shuffle(&mut pos);
            for p in pos {
                let asc = self.rng.chance(1, 2);
                self.tag(if asc { "orderby.asc" } else { "orderby.desc" });
                q.order_by.push((p, asc));
            }
            match limit_kind {
                0 => {
                    self.tag("limit");
                    q.limit = Some(self.rng.below(5));
                }
                1 => {
                    self.tag("limit+offset");
                    q.limit = Some(self.rng.below(5));
                    q.offset = Some(self.rng.below(4));
                }
                2 => {
                    self.tag("offset");
                    q.offset = Some(self.rng.below(6));
                }
                _ => {}
            }
        }
        q
    }

    /// INSERT with a column list: a random permutation of a random non-empty subset of the columns (the others become
    /// NULL), one or more rows.  One in three is ill-formed — too few or too many values, a column named twice, a column
    /// the table does not have — and must be rejected (class `bind`) with the table unchanged.
    fn insert_with_list(&mut self, t: usize, tys: &[Ty], p: Profile, n: usize) -> Stmt {
        let mut cols: Vec<usize> = (0..tys.len()).collect();
        self.rng.shuffle(&mut cols);
        let k = 1 + self.rng.below(tys.len() as u64) as usize;
        cols.truncate(k);
        self.tag("dml.insert.column-list");
        if k < tys.len() {
            self.tag("dml.insert.column-list.subset");
        }
        if cols.windows(2).any(|w| w[0] > w[1]) {
            self.tag("dml.insert.column-list.permuted");
        }
        let mut width = cols.len();
        let mut list = Some(cols.clone());
        if self.rng.chance(1, 3) {
            match self.rng.below(6) {
                0 | 5 if width > 1 => {
                    self.tag("dml.insert.ill-formed.too-few-values");
                    width -= 1;
                }
                1 => {
                    self.tag("dml.insert.ill-formed.too-many-values");
                    width += 1;
                }
                2 => {
                    self.tag("dml.insert.ill-formed.duplicate-column");
                    let c = cols[self.rng.below(cols.len() as u64) as usize];
                    cols.push(c);
                    width = cols.len();
                    list = Some(cols.clone());
                }
                3 => {
                    self.tag("dml.insert.ill-formed.unknown-column");
                    cols.push(tys.len() + self.rng.below(3) as usize);
                    width = cols.len();
                    list = Some(cols.clone());
                }
                _ => {
                    // no list, wrong number of values
                    self.tag("dml.insert.ill-formed.no-list-arity");
                    list = None;
                    cols = (0..tys.len()).collect();
                    width = if tys.len() > 1 && self.rng.chance(1, 2) { tys.len() - 1 } else { tys.len() + 1 };
                }
            }
        }
        let rows: Vec<Vec<E>> = (0..n)
            .map(|_| {
                (0..width)
                    .map(|i| {
                        let c = cols.get(i).copied().filter(|c| *c < tys.len()).unwrap_or(0);
                        E::Lit(self.val(tys[c], p, c > 0))
                    })
                    .collect()
            })
            .collect();
        Stmt::InsertX(t, list, rows)
    }

    fn dml(&mut self, db: &[Table], p: Profile) -> Vec<Stmt> {
        self.pristine = false;
        let t = self.rng.below(db.len() as u64) as usize;
        let tys = db[t].tys.clone();
        let depth = self.rng.range(0, 2) as u32;
        let risky_where = self.rng.chance(1, 2);
        self.safe_arith = !risky_where;
        let w = if self.rng.chance(5, 6) { Some(self.bool_expr(&tys, p, depth)) } else { None };
        let s = match self.rng.below(3) {
            0 => {
                self.tag("dml.insert");
                let n = self.rng.range(1, 3) as usize;
                if self.rng.chance(1, 2) {
                    self.insert_with_list(t, &tys, p, n)
                } else {
                    let rows: Vec<Vec<E>> = (0..n)
                        .map(|_| (0..tys.len()).map(|c| E::Lit(self.val(tys[c], p, c > 0))).collect())
                        .collect();
                    Stmt::Insert(t, rows)
                }
            }
            1 => {
                self.tag("dml.update");
                self.safe_arith = risky_where;
                let n = self.rng.range(1, 2) as usize;
                let mut sets = Vec::new();
                let mut cols: Vec<usize> = (0..tys.len()).collect();
                self.rng.shuffle(&mut cols);
                for c in cols.into_iter().take(n) {
                    let e = match tys[c] {
                        Ty::Int | Ty::BigInt => self.int_expr(&tys, p, 1),
                        Ty::Text => self.text_expr(&tys, p),
                        Ty::Bool => self.bool_expr(&tys, p, 0),
                        Ty::Double | Ty::Float => self.dbl_operand(&tys, p),
                        // a value the column can hold for certain; or (not in safe mode) any integer expression
                        Ty::UInt | Ty::BigUInt => {
                            if self.safe_arith { E::Lit(Val::Int(self.rng.range(0, 20) as i128)) } else { self.int_expr(&tys, p, 1) }
                        }
                    };
                    sets.push((c, e));
                }
                Stmt::Update(t, sets, w)
            }
            _ => {
                self.tag("dml.delete");
                Stmt::Delete(t, w)
            }
        };
        let check = Stmt::Select(Select {
            distinct: false,
            from: From::Table(t),
            where_: None,
            group_by: vec![],
            aggs: vec![],
            items: None,
            order_by: vec![],
            limit: None,
            offset: None,
            having: None,
        });
        vec![s, check]
    }
}

fn expr_cols(e: &E, out: &mut Vec<usize>) {
    match e {
        E::Lit(_) => {}
        E::Col(i) => out.push(*i),
        E::Coalesce(xs) => {
            for x in xs {
                expr_cols(x, out)
            }
        }
        E::Not(a) | E::Neg(a) | E::Pos(a) | E::IsNull(_, a) | E::StrFn(_, a) => expr_cols(a, out),
        E::And(a, b) | E::Or(a, b) | E::Cmp(_, a, b) | E::Arith(_, a, b) | E::Like(_, a, b) | E::Concat(a, b)
        | E::NullIf(a, b) => {
            expr_cols(a, out);
            expr_cols(b, out)
        }
        E::Between(_, a, b, c) => {
            expr_cols(a, out);
            expr_cols(b, out);
            expr_cols(c, out)
        }
        E::InList(_, a, xs) => {
            expr_cols(a, out);
            for x in xs {
                expr_cols(x, out)
            }
        }
        E::Case(x, arms, els) => {
            if let Some(x) = x {
                expr_cols(x, out)
            }
            for (c, r) in arms {
                expr_cols(c, out);
                expr_cols(r, out)
            }
            if let Some(e) = els {
                expr_cols(e, out)
            }
        }
    }
}

fn top_op(e: &E) -> &'static str {
    match e {
        E::Lit(_) => "lit",
        E::Col(_) => "col",
        E::Not(_) => "not",
        E::Neg(_) | E::Pos(_) | E::Arith(..) => "arith",
        E::And(..) => "and",
        E::Or(..) => "or",
        E::Cmp(..) => "cmp",
        E::Like(..) => "like",
        E::IsNull(..) => "isnull",
        E::Between(..) => "between",
        E::InList(..) => "in",
        E::Case(..) => "case",
        E::StrFn(..) | E::Concat(..) | E::NullIf(..) | E::Coalesce(..) => "strfn",
    }
}

/// statement-level coverage: top operator of the predicate × does it read a column that holds a NULL in this
/// population (so that the three-valued paths are really taken) × literal NULL
fn predicate_tags(kind: &str, e: &E, from: &From, db: &[Table], tags: &mut BTreeSet<String>) {
    let mut ls = Vec::new();
    let mut w = 0;
    leaves(from, db, &mut ls, &mut w);
    let mut cols = Vec::new();
    expr_cols(e, &mut cols);
    let mut reads_null = false;
    for c in cols {
        for (t, start) in ls.iter().rev() {
            if c >= *start {
                if let Some(tb) = db.get(*t) {
                    if tb.rows.iter().any(|r| r.get(c - start) == Some(&Val::Null)) {
                        reads_null = true;
                    }
                }
                break;
            }
        }
    }
    // outer joins produce NULLs of their own
    let outer = matches!(from, From::Join(k, ..) if *k == "left" || *k == "right" || *k == "full");
    tags.insert(format!(
        "{}.top.{}.{}",
        kind,
        top_op(e),
        if reads_null { "null-data" } else if outer && kind == "where" { "outer-join-nulls" } else { "no-null-data" }
    ));
}

fn gen_line(rng: &mut Rng, nstmts: usize) -> Case {
    let mut g = Gen { rng, tags: BTreeSet::new(), safe_arith: false, no_case: false, pristine: true, no_unsigned: false };
    let (p, pname) = *g.rng.pick(&[
        (Profile::Small, "small"),
        (Profile::Small, "small"),
        (Profile::Boundary, "boundary"),
        (Profile::Sparse, "sparse"),
        (Profile::Dups, "dups"),
        (Profile::Text, "text"),
        (Profile::Nulls, "nulls"),
        (Profile::Wide, "wide"),
    ]);
    g.tag(&format!("pop.{}", pname));
    let ntables = g.rng.range(1, 3) as usize;
    let db: Vec<Table> = (0..ntables).map(|k| g.table(p, k == 0)).collect();
    if db.iter().any(|t| t.rows.is_empty()) {
        g.tag("pop.empty-table");
    }
    if db.iter().any(|t| t.rows.iter().any(|r| r.contains(&Val::Null))) {
        g.tag("pop.has-null");
    }
    let mut stmts: Vec<Stmt> = Vec::new();
    while stmts.len() < nstmts {
        if g.rng.chance(1, 6) {
            stmts.extend(g.dml(&db, p));
        } else {
            stmts.push(Stmt::Select(g.select(&db, p)));
        }
    }
    for st in &stmts {
        match st {
            Stmt::Select(q) => {
                if let Some(w) = &q.where_ {
                    predicate_tags("where", w, &q.from, &db, &mut g.tags);
                }
                let mut f = &q.from;
                while let From::Join(_, l, _, on) = f {
                    if let Some(on) = on {
                        predicate_tags("on", on, f, &db, &mut g.tags);
                    }
                    f = l;
                }
            }
            Stmt::Update(t, _, Some(w)) | Stmt::Delete(t, Some(w)) => {
                predicate_tags("dmlwhere", w, &From::Table(*t), &db, &mut g.tags);
            }
            _ => {}
        }
    }
    let line = format!("sql {} ; {}", show_db(&db), stmts.iter().map(show_stmt).collect::<Vec<_>>().join(" ; "));
    let mut tags: Vec<String> = g.tags.into_iter().collect();
    tags.push("nt".into());
    Case { line, tags }
}

impl Engine for SqlEngine {
    fn gen_cases(&self, rng: &mut Rng, tier: Tier) -> Vec<Case> {
        let (lines, per) = match tier {
            Tier::Quick => (600, 12),
            Tier::Thorough => (6000, 15),
        };
        (0..lines).map(|_| gen_line(rng, per)).collect()
    }

    fn exec(&mut self, line: &str) -> String {
        // debugging aids (not part of the protocol): `raw <sql>; <sql>…` runs SQL text on a scratch database,
        // `show <case>` prints the SQL text of a case. Only with AXH_SQL_DEBUG set; otherwise such lines are `bad-op`.
        let debug = std::env::var_os("AXH_SQL_DEBUG").is_some();
        if let (true, Some(rest)) = (debug, line.strip_prefix("raw ")) {
            return raw(rest);
        }
        if let (true, Some(rest)) = (debug, line.strip_prefix("show ")) {
            return match parse_case(rest) {
                None => "bad-op".into(),
                Some((db, stmts)) => stmts.iter().map(|s| sql_stmt(s, &db)).collect::<Vec<_>>().join(" ; "),
            };
        }
        install_worker_panic_recorder();
        let Some((tables, stmts)) = parse_case(line) else {
            return "bad-op".into();
        };
        let t = TempDb::new();
        let db = t.db.as_ref().unwrap();
        if let Err(e) = load(db, &tables) {
            return format!("load-failed ## {} {:?}", e, take_worker_panic());
        }
        let mut panics = Vec::new();
        let mut failed_dml = false;
        let outs: Vec<String> = stmts
            .iter()
            .map(|s| {
                // what a failed INSERT/UPDATE/DELETE leaves behind is C03's business: stop comparing
                if failed_dml {
                    return "-".to_string();
                }
                let o = run_stmt(db, &tables, s);
                // (a statement the parser or the binder rejects was never executed: the comparison goes on)
                if !matches!(s, Stmt::Select(_)) && o.starts_with('E') && o != "Ebind" && o != "Eparse" {
                    failed_dml = true;
                }
                if let Some(p) = take_worker_panic() {
                    panics.push(p);
                }
                o
            })
            .collect();
        if panics.is_empty() { outs.join(" ; ") } else { format!("{} ## worker-panic@{}", outs.join(" ; "), panics.join(",")) }
    }

    fn timeout_ms(&self) -> u64 {
        60_000
    }
}

/// Content of `lean/AxVerif/Generated/<Engine>.lean`, if this engine extracts constants from the code.
pub fn generated() -> Option<(&'static str, String)> {
    None
}
