//! Engine `plan` (C06): the chosen plan never changes the answer — pair mode through the public API.
//!
//! A case line carries a database, a list of unique indexes and a history (syntax in `lean/AxVerif/Driver/Plan.lean`):
//!
//!   plan <DB> <IX> | OP ; OP ; …
//!
//! `exec` builds the database twice — **early**: indexes created on the empty tables, rows loaded through INSERT
//! (index maintenance path); **late**: rows loaded first, indexes created at the `mkix` op (population path) — runs
//! the history on both and every query in several semantically identical forms that force different plans:
//!
//!   a  as written (early database)
//!   b  every indexed column wrapped as `(col + 0)`, which the binder does not see through: no index applies
//!   c  join operands permuted (LEFT <-> RIGHT), ON conjuncts reordered and, for all-inner joins, re-distributed
//!   f  every table replaced by a derived table over it (columns permuted; for one table part of WHERE moves inside)
//!   g  the last `column = column` conjunct of the outermost ON clause that has one written `(x + 0) = y`: no equi-join
//!      key, so no hash or merge join there and no ordering asked of the joins below
//!   e  as written on the late database (after `mkix`)
//!   d  the same query again after an `analyze` op of the history (different statistics)
//!
//! All forms must return the same canonical result; the answer line is `same <result>` per query (or
//! `PROPFAIL variant=<x> …`), and the Lean reference evaluator must produce the same line.  `Database::explain` of
//! every form is recorded after ` ## ` (plan-shape digests) so that one can see the forms really use different plans.
use super::sql::{
    E, From, Select, Stmt, Table, Ty, Val, install_worker_panic_recorder, parse_case, show_db, show_stmt, show_val,
    sql_expr, take_worker_panic,
};
use super::{Case, Engine, Tier};
use crate::rng::Rng;
use axmosdb::{DBConfig, DataType, Database, runtime::QueryResult, tcp::session::Session};
use std::collections::{BTreeMap, BTreeSet};

pub struct PlanEngine;

// ------------------------------------------------------------------------------------------------ case

#[derive(Clone, Debug, PartialEq)]
pub struct Ix {
    pub table: usize,
    pub cols: Vec<usize>,
}

#[derive(Clone, Debug)]
pub enum Op {
    Stmt(Stmt),
    Begin,
    Rollback,
    Commit,
    Vacuum,
    /// sample rate in permille, maximal number of sampled rows
    Analyze(u32, usize),
    MkIx,
    /// the INSERT / UPDATE / DELETE statements up to `endbatch` (or the next other op) run as one `execute_batch`
    Batch,
    EndBatch,
}

fn show_ixs(ixs: &[Ix]) -> String {
    if ixs.is_empty() {
        return "-".into();
    }
    ixs.iter()
        .map(|x| format!("{}:{}", x.table, x.cols.iter().map(|c| c.to_string()).collect::<Vec<_>>().join("+")))
        .collect::<Vec<_>>()
        .join(",")
}

fn parse_ixs(w: &str) -> Option<Vec<Ix>> {
    if w == "-" {
        return Some(vec![]);
    }
    let mut out = Vec::new();
    for part in w.split(',') {
        let (t, cs) = part.split_once(':')?;
        let dec = |s: &str| -> Option<usize> {
            if s.is_empty() || !s.bytes().all(|b| b.is_ascii_digit()) { None } else { s.parse().ok() }
        };
        let cols: Option<Vec<usize>> = cs.split('+').map(dec).collect();
        let cols = cols?;
        if cols.is_empty() {
            return None;
        }
        out.push(Ix { table: dec(t)?, cols });
    }
    Some(out)
}

fn show_op(op: &Op) -> String {
    match op {
        Op::Stmt(s) => show_stmt(s),
        Op::Begin => "begin".into(),
        Op::Rollback => "rollback".into(),
        Op::Commit => "commit".into(),
        Op::Vacuum => "vacuum".into(),
        Op::Analyze(r, m) => format!("analyze {} {}", r, m),
        Op::MkIx => "mkix".into(),
        Op::Batch => "batch".into(),
        Op::EndBatch => "endbatch".into(),
    }
}

pub fn show_case(db: &[Table], ixs: &[Ix], ops: &[Op]) -> String {
    format!("plan {} {} | {}", show_db(db), show_ixs(ixs), ops.iter().map(show_op).collect::<Vec<_>>().join(" ; "))
}

fn parse_plan_case(line: &str) -> Option<(Vec<Table>, Vec<Ix>, Vec<Op>)> {
    let ws: Vec<&str> = line.split_whitespace().collect();
    if ws.len() < 5 || ws[0] != "plan" || ws[3] != "|" {
        return None;
    }
    let ixs = parse_ixs(ws[2])?;
    let mut ops = Vec::new();
    let mut tables: Option<Vec<Table>> = None;
    for part in ws[4..].split(|w| *w == ";") {
        let op = match part {
            ["begin"] => Op::Begin,
            ["rollback"] => Op::Rollback,
            ["commit"] => Op::Commit,
            ["vacuum"] => Op::Vacuum,
            ["mkix"] => Op::MkIx,
            ["batch"] => Op::Batch,
            ["endbatch"] => Op::EndBatch,
            ["analyze", r, m] => {
                let ok = |s: &str| !s.is_empty() && s.len() < 8 && s.bytes().all(|b| b.is_ascii_digit());
                if !ok(r) || !ok(m) {
                    return None;
                }
                Op::Analyze(r.parse().ok()?, m.parse().ok()?)
            }
            _ => {
                // one SQL statement in the syntax of engine `sql`: parsed by that engine's parser
                let l = format!("sql {} ; {}", ws[1], part.join(" "));
                let (db, mut stmts) = parse_case(&l)?;
                if tables.is_none() {
                    tables = Some(db);
                }
                Op::Stmt(stmts.pop()?)
            }
        };
        ops.push(op);
    }
    let tables = match tables {
        Some(t) => t,
        None => parse_case(&format!("sql {} ; del t0 -", ws[1]))?.0,
    };
    for x in &ixs {
        let t = tables.get(x.table)?;
        if x.cols.iter().any(|c| *c >= t.tys.len()) {
            return None;
        }
    }
    Some((tables, ixs, ops))
}

// ------------------------------------------------------------------------------------------------ SQL text of the variants

fn sql_ty(t: Ty) -> &'static str {
    match t {
        Ty::Int => "INT",
        Ty::BigInt => "BIGINT",
        Ty::Bool => "BOOLEAN",
        Ty::Text => "TEXT",
        Ty::Double => "DOUBLE",
        Ty::UInt => "UINT",
        Ty::BigUInt => "BIGUINT",
        Ty::Float => "FLOAT",
    }
}

fn sql_lit(v: &Val) -> String {
    match v {
        Val::Null => "NULL".into(),
        Val::Int(i) => i.to_string(),
        Val::Bool(b) => if *b { "TRUE".into() } else { "FALSE".into() },
        Val::Text(s) => format!("'{}'", String::from_utf8_lossy(s).replace('\'', "''")),
        Val::F64(b) => format!("{:e}", f64::from_bits(*b)),
    }
}

/// leaves of a FROM tree, left to right: (table, first column index in the joined row)
fn leaves(f: &From, db: &[Table], out: &mut Vec<(usize, usize)>, width: &mut usize) {
    match f {
        From::Table(t) => {
            out.push((*t, *width));
            *width += db.get(*t).map(|t| t.tys.len()).unwrap_or(0);
        }
        From::Join(_, l, r, _) => {
            leaves(l, db, out, width);
            leaves(r, db, out, width);
        }
        // a derived table written in the case itself (engine `sql` generates them; this engine's generator does not):
        // one opaque leaf
        From::Derived(_, _, items, _) => {
            out.push((super::sql::DERIVED_LEAF, *width));
            *width += items.len();
        }
    }
}

fn leaves_of(f: &From, db: &[Table]) -> (Vec<(usize, usize)>, usize) {
    let mut ls = Vec::new();
    let mut w = 0;
    leaves(f, db, &mut ls, &mut w);
    (ls, w)
}

fn from_tys(f: &From, db: &[Table]) -> Vec<Ty> {
    super::sql::from_tys(f, db)
}

#[derive(Clone, Copy, PartialEq, Eq, Debug)]
pub enum Variant {
    AsWritten,
    /// indexed columns wrapped
    NoIndex,
    /// join operands permuted; the number seeds the permutation
    Permuted(u64),
    /// every table replaced by a derived table `(SELECT <its columns, permuted> FROM t [WHERE …]) AS r`; for a single
    /// table the first conjuncts of WHERE move inside (Filter over Project over Filter: filter push-down through a
    /// projection, filter merge)
    Derived(u64),
    /// the last `column = column` conjunct (integer columns) of the outermost ON clause that has one is written
    /// `(x + 0) = y`: that join has no equi-join key any more, so it is neither a hash join nor a merge join and the
    /// joins below it are not asked for an ordering
    NoEquiKey,
}

/// the FROM clause of form `g`; `None` if no ON clause has a `column = column` conjunct over integer columns
fn defeat_equi(f: &From, tys: &[Ty]) -> Option<From> {
    let From::Join(k, l, r, on) = f else { return None };
    if let Some(on) = on {
        let mut cs = Vec::new();
        conjuncts(on, &mut cs);
        let int_col = |e: &E| matches!(e, E::Col(i) if tys.get(*i).copied().map(is_int).unwrap_or(false));
        let hit = cs.iter().rposition(|c| matches!(c, E::Cmp(op, a, d) if *op == "eq" && int_col(a) && int_col(d)));
        if let Some(i) = hit {
            if let E::Cmp(op, a, d) = cs[i].clone() {
                cs[i] = E::Cmp(op, Box::new(E::Arith("add", a, Box::new(E::Lit(Val::Int(0))))), d);
            }
            return Some(From::Join(k, l.clone(), r.clone(), conj(cs)));
        }
    }
    if let Some(l2) = defeat_equi(l, tys) {
        return Some(From::Join(k, Box::new(l2), r.clone(), on.clone()));
    }
    defeat_equi(r, tys).map(|r2| From::Join(k, l.clone(), Box::new(r2), on.clone()))
}

fn is_int(t: Ty) -> bool {
    matches!(t, Ty::Int | Ty::BigInt)
}

/// column name printer for a FROM clause: joined-row index -> `r<leaf>.c<col>`, wrapped when asked for
fn col_printer<'a>(
    ls: &'a [(usize, usize)],
    db: &'a [Table],
    ixs: &'a [Ix],
    wrap: bool,
) -> impl Fn(usize) -> String + 'a {
    move |i: usize| -> String {
        for (k, (t, start)) in ls.iter().enumerate().rev() {
            if i >= *start {
                let c = i - start;
                let name = format!("r{}.c{}", k, c);
                let indexed = ixs.iter().any(|x| x.table == *t && x.cols.contains(&c));
                let ty = db.get(*t).and_then(|tb| tb.tys.get(c)).copied();
                if wrap && indexed && ty.map(is_int).unwrap_or(false) {
                    return format!("({} + 0)", name);
                }
                return name;
            }
        }
        format!("r0.c{}", i)
    }
}

fn conjuncts(e: &E, out: &mut Vec<E>) {
    match e {
        E::And(a, b) => {
            conjuncts(a, out);
            conjuncts(b, out);
        }
        _ => out.push(e.clone()),
    }
}

fn conj(mut es: Vec<E>) -> Option<E> {
    if es.is_empty() {
        return None;
    }
    let first = es.remove(0);
    Some(es.into_iter().fold(first, |a, b| E::And(Box::new(a), Box::new(b))))
}

fn expr_cols(e: &E, out: &mut Vec<usize>) {
    match e {
        E::Lit(_) => {}
        E::Col(i) => out.push(*i),
        E::Coalesce(xs) => {
            for x in xs {
                expr_cols(x, out)
            }
        }
        E::Not(a) | E::Neg(a) | E::Pos(a) | E::IsNull(_, a) | E::StrFn(_, a) => expr_cols(a, out),
        E::And(a, b) | E::Or(a, b) | E::Cmp(_, a, b) | E::Arith(_, a, b) | E::Like(_, a, b) | E::Concat(a, b)
        | E::NullIf(a, b) => {
            expr_cols(a, out);
            expr_cols(b, out)
        }
        E::Between(_, a, b, c) => {
            expr_cols(a, out);
            expr_cols(b, out);
            expr_cols(c, out)
        }
        E::InList(_, a, xs) => {
            expr_cols(a, out);
            for x in xs {
                expr_cols(x, out)
            }
        }
        E::Case(x, arms, els) => {
            if let Some(x) = x {
                expr_cols(x, out)
            }
            for (c, r) in arms {
                expr_cols(c, out);
                expr_cols(r, out)
            }
            if let Some(e) = els {
                expr_cols(e, out)
            }
        }
    }
}

fn join_kw(k: &str) -> &'static str {
    match k {
        "inner" => "INNER JOIN",
        "left" => "LEFT JOIN",
        "right" => "RIGHT JOIN",
        "full" => "FULL JOIN",
        _ => "CROSS JOIN",
    }
}

/// (kind, ON) of every join of a left-deep tree, innermost first; `None` if the tree is not left-deep
fn left_deep(f: &From) -> Option<(usize, Vec<(&'static str, Option<E>)>)> {
    match f {
        From::Table(t) => Some((*t, vec![])),
        From::Join(k, l, r, on) => {
            if !matches!(**r, From::Table(_)) {
                return None;
            }
            let (t, mut js) = left_deep(l)?;
            js.push((*k, on.clone()));
            Some((t, js))
        }
        From::Derived(..) => None,
    }
}

/// FROM clause as written
fn sql_from_plain(f: &From, db: &[Table], next: &mut usize, col: &dyn Fn(usize) -> String) -> String {
    match f {
        From::Table(t) => {
            let s = format!("t{} AS r{}", t, *next);
            *next += 1;
            s
        }
        From::Derived(inner, w, items, _) => {
            let s = super::sql::sql_derived(inner, w, items, *next, db);
            *next += 1;
            s
        }
        From::Join(k, l, r, on) => {
            let ls = sql_from_plain(l, db, next, col);
            let rs = sql_from_plain(r, db, next, col);
            match on {
                Some(e) => format!("{} {} {} ON {}", ls, join_kw(k), rs, sql_expr(e, 1, col)),
                None => format!("{} {} {}", ls, join_kw(k), rs),
            }
        }
    }
}

/// FROM clause with the operands permuted.  Aliases keep their meaning (r<k> = k-th leaf of the tree as written), so
/// every expression of the statement is printed unchanged.
///  * all joins INNER/CROSS: the leaves in a seeded random order, every ON conjunct attached to the first join at which
///    all its aliases are available (conjuncts that can be placed nowhere go to WHERE; returned);
///  * otherwise: the two operands of the innermost join are swapped (LEFT <-> RIGHT) and its ON conjuncts reversed.
fn sql_from_permuted(
    f: &From,
    db: &[Table],
    seed: u64,
    col: &dyn Fn(usize) -> String,
) -> Option<(String, Vec<E>)> {
    let (ls, _) = leaves_of(f, db);
    let (_, joins) = left_deep(f)?;
    if joins.is_empty() {
        return None;
    }
    let n = ls.len();
    let leaf_of_col = |c: usize| -> usize {
        for (k, (_, start)) in ls.iter().enumerate().rev() {
            if c >= *start {
                return k;
            }
        }
        0
    };
    let all_inner = joins.iter().all(|(k, _)| *k == "inner" || *k == "cross");
    if all_inner {
        let mut order: Vec<usize> = (0..n).collect();
        let mut rng = Rng::new(seed);
        // a permutation different from the identity
        for _ in 0..4 {
            rng.shuffle(&mut order);
            if order.iter().enumerate().any(|(i, k)| i != *k) {
                break;
            }
        }
        if order.iter().enumerate().all(|(i, k)| i == *k) {
            order.reverse();
        }
        let mut cs: Vec<E> = Vec::new();
        for (_, on) in &joins {
            if let Some(e) = on {
                conjuncts(e, &mut cs);
            }
        }
        cs.reverse();
        let mut placed = vec![false; cs.len()];
        let mut avail: BTreeSet<usize> = BTreeSet::new();
        avail.insert(order[0]);
        let mut s = format!("t{} AS r{}", ls[order[0]].0, order[0]);
        for &k in &order[1..] {
            avail.insert(k);
            let mut here = Vec::new();
            for (i, c) in cs.iter().enumerate() {
                if placed[i] {
                    continue;
                }
                let mut cols = Vec::new();
                expr_cols(c, &mut cols);
                if cols.iter().all(|c| avail.contains(&leaf_of_col(*c))) {
                    placed[i] = true;
                    here.push(c.clone());
                }
            }
            match conj(here) {
                Some(e) => s += &format!(" INNER JOIN t{} AS r{} ON {}", ls[k].0, k, sql_expr(&e, 1, col)),
                None => s += &format!(" CROSS JOIN t{} AS r{}", ls[k].0, k),
            }
        }
        let rest: Vec<E> = cs.iter().zip(&placed).filter(|(_, p)| !**p).map(|(c, _)| c.clone()).collect();
        Some((s, rest))
    } else {
        // swap the operands of the innermost join
        let (k0, on0) = &joins[0];
        let k0s = match *k0 {
            "left" => "right",
            "right" => "left",
            k => k,
        };
        let mut s = format!("t{} AS r1 {} t{} AS r0", ls[1].0, join_kw(k0s), ls[0].0);
        if let Some(e) = on0 {
            let mut cs = Vec::new();
            conjuncts(e, &mut cs);
            cs.reverse();
            s += &format!(" ON {}", sql_expr(&conj(cs).unwrap(), 1, col));
        }
        for (i, (k, on)) in joins.iter().enumerate().skip(1) {
            s += &format!(" {} t{} AS r{}", join_kw(k), ls[i + 1].0, i + 1);
            if let Some(e) = on {
                s += &format!(" ON {}", sql_expr(e, 1, col));
            }
        }
        Some((s, vec![]))
    }
}

/// FROM clause with derived tables; returns the conjuncts of a single-table WHERE that stay outside
fn sql_from_derived(
    f: &From,
    db: &[Table],
    seed: u64,
    where_: &Option<E>,
    col: &dyn Fn(usize) -> String,
) -> (String, Option<Vec<E>>) {
    let mut rng = Rng::new(seed);
    let mut derived = |t: usize, k: usize, inner: Option<String>| -> String {
        let n = db.get(t).map(|t| t.tys.len()).unwrap_or(0);
        let mut order: Vec<usize> = (0..n).collect();
        rng.shuffle(&mut order);
        let cols: Vec<String> = order.iter().map(|c| format!("c{}", c)).collect();
        match inner {
            Some(w) => format!("(SELECT {} FROM t{} WHERE {}) AS r{}", cols.join(", "), t, w, k),
            None => format!("(SELECT {} FROM t{}) AS r{}", cols.join(", "), t, k),
        }
    };
    match f {
        From::Table(t) => {
            // single table: the first half of the conjuncts (at least one) is applied inside the derived table
            let mut outside = None;
            let mut inner = None;
            if let Some(w) = where_ {
                let mut cs = Vec::new();
                conjuncts(w, &mut cs);
                let k = cs.len().div_ceil(2);
                let plain = |i: usize| format!("c{}", i);
                inner = conj(cs[..k].to_vec()).map(|e| sql_expr(&e, 1, &plain));
                outside = Some(cs[k..].to_vec());
            }
            (derived(*t, 0, inner), outside)
        }
        _ => {
            fn go(
                f: &From,
                db: &[Table],
                next: &mut usize,
                derived: &mut dyn FnMut(usize, usize, Option<String>) -> String,
                col: &dyn Fn(usize) -> String,
            ) -> String {
                match f {
                    From::Table(t) => {
                        let s = derived(*t, *next, None);
                        *next += 1;
                        s
                    }
                    From::Derived(inner, w, items, _) => {
                        let s = super::sql::sql_derived(inner, w, items, *next, db);
                        *next += 1;
                        s
                    }
                    From::Join(k, l, r, on) => {
                        let ls = go(l, db, next, derived, col);
                        let rs = go(r, db, next, derived, col);
                        match on {
                            Some(e) => format!("{} {} {} ON {}", ls, join_kw(k), rs, sql_expr(e, 1, col)),
                            None => format!("{} {} {}", ls, join_kw(k), rs),
                        }
                    }
                }
            }
            let mut next = 0;
            (go(f, db, &mut next, &mut derived, col), None)
        }
    }
}

/// SQL text of a SELECT in the given form; `None` if the form does not exist for this query
pub fn select_sql(q: &Select, db: &[Table], ixs: &[Ix], v: Variant) -> Option<String> {
    let (ls, w) = leaves_of(&q.from, db);
    let wrap = v == Variant::NoIndex;
    if wrap {
        // the form exists only if some indexed integer column belongs to a table of the query
        let any = ls.iter().any(|(t, _)| {
            ixs.iter().any(|x| x.table == *t && x.cols.iter().any(|c| db[*t].tys.get(*c).copied().map(is_int).unwrap_or(false)))
        });
        if !any {
            return None;
        }
    }
    let col = col_printer(&ls, db, ixs, wrap);
    let mut where_override: Option<Vec<E>> = None;
    let (from_sql, extra_where) = match v {
        Variant::NoEquiKey => {
            let f = defeat_equi(&q.from, &from_tys(&q.from, db))?;
            let mut next = 0;
            (sql_from_plain(&f, db, &mut next, &col), vec![])
        }
        Variant::Permuted(seed) => sql_from_permuted(&q.from, db, seed, &col)?,
        Variant::Derived(seed) => {
            let (s, outside) = sql_from_derived(&q.from, db, seed, &q.where_, &col);
            where_override = outside;
            (s, vec![])
        }
        _ => {
            let mut next = 0;
            (sql_from_plain(&q.from, db, &mut next, &col), vec![])
        }
    };
    let out_exprs: Vec<String>;
    let items: String = if !q.aggs.is_empty() {
        let mut parts: Vec<String> = q.group_by.iter().map(|e| sql_expr(e, 1, &col)).collect();
        for a in &q.aggs {
            parts.push(match (a.f, &a.arg) {
                ("cnt*", _) | (_, None) => "COUNT(*)".to_string(),
                ("cnt", Some(e)) => format!("COUNT({})", sql_expr(e, 1, &col)),
                ("sum", Some(e)) => format!("SUM({})", sql_expr(e, 1, &col)),
                ("avg", Some(e)) => format!("AVG({})", sql_expr(e, 1, &col)),
                ("min", Some(e)) => format!("MIN({})", sql_expr(e, 1, &col)),
                (_, Some(e)) => format!("MAX({})", sql_expr(e, 1, &col)),
            });
        }
        out_exprs = parts.clone();
        parts.join(", ")
    } else {
        match &q.items {
            None => {
                // `*` of a permuted FROM would list the columns in another order: name them.  (Never wrapped.)
                let plain = col_printer(&ls, db, ixs, false);
                out_exprs = (0..w).map(&plain).collect();
                if matches!(v, Variant::Permuted(_) | Variant::Derived(_)) { out_exprs.join(", ") } else { "*".to_string() }
            }
            Some(es) => {
                out_exprs = es.iter().map(|e| sql_expr(e, 1, &col)).collect();
                out_exprs.join(", ")
            }
        }
    };
    let mut sql = format!("SELECT {}{} FROM {}", if q.distinct { "DISTINCT " } else { "" }, items, from_sql);
    let mut wh: Vec<E> = Vec::new();
    match where_override {
        Some(outside) => wh.extend(outside),
        None => {
            if let Some(e) = &q.where_ {
                wh.push(e.clone());
            }
        }
    }
    wh.extend(extra_where);
    if let Some(e) = conj(wh) {
        sql += &format!(" WHERE {}", sql_expr(&e, 1, &col));
    }
    if !q.group_by.is_empty() {
        sql += &format!(" GROUP BY {}", q.group_by.iter().map(|e| sql_expr(e, 1, &col)).collect::<Vec<_>>().join(", "));
    }
    if !q.order_by.is_empty() {
        let parts: Vec<String> = q
            .order_by
            .iter()
            .map(|(p, asc)| {
                format!("{}{}", out_exprs.get(*p).cloned().unwrap_or_else(|| "NULL".into()), if *asc { "" } else { " DESC" })
            })
            .collect();
        sql += &format!(" ORDER BY {}", parts.join(", "));
    }
    if let Some(l) = q.limit {
        sql += &format!(" LIMIT {}", l);
    }
    if let Some(o) = q.offset {
        sql += &format!(" OFFSET {}", o);
    }
    Some(sql)
}

/// SQL text of a DML statement (`wrap`: indexed integer columns of the WHERE clause wrapped; not used for running)
pub fn dml_sql(s: &Stmt) -> String {
    let col = |i: usize| format!("c{}", i);
    match s {
        Stmt::Select(_) => String::new(),
        // (engine `sql` prints these; the plan generators build no column lists)
        Stmt::InsertX(..) => super::sql::sql_stmt(s, &[]),
        Stmt::Insert(t, rows) => {
            let rs: Vec<String> = rows
                .iter()
                .map(|r| format!("({})", r.iter().map(|e| sql_expr(e, 1, &col)).collect::<Vec<_>>().join(", ")))
                .collect();
            format!("INSERT INTO t{} VALUES {}", t, rs.join(", "))
        }
        Stmt::Update(t, sets, w) => {
            let ss: Vec<String> = sets.iter().map(|(c, e)| format!("c{} = {}", c, sql_expr(e, 1, &col))).collect();
            let mut sql = format!("UPDATE t{} SET {}", t, ss.join(", "));
            if let Some(w) = w {
                sql += &format!(" WHERE {}", sql_expr(w, 1, &col));
            }
            sql
        }
        Stmt::Delete(t, w) => {
            let mut sql = format!("DELETE FROM t{}", t);
            if let Some(w) = w {
                sql += &format!(" WHERE {}", sql_expr(w, 1, &col));
            }
            sql
        }
    }
}

// ------------------------------------------------------------------------------------------------ running

/// Error classes, read from the prefixes the error enums' `Display` implementations produce (never the detail text).
fn err_class(msg: &str) -> &'static str {
    if msg.contains("Task channel closed") {
        "panic"
    } else if msg.contains("preparation error parse error") {
        "parse"
    } else if msg.contains("preparation error binder error") {
        "bind"
    } else if msg.contains("division by zero") {
        "divzero"
    } else if msg.contains("integer overflow") {
        "overflow"
    } else if msg.contains("column index out of bounds") {
        "eval"
    } else if msg.contains("runtime error: type error") || msg.contains("Type error:") {
        "type"
    } else if msg.contains("constraint validation error") {
        "constraint"
    } else {
        "other"
    }
}

fn canon_f64(f: f64) -> Val {
    if f.fract() == 0.0 && f.abs() < 9.2e18 { Val::Int(f as i128) } else { Val::F64(f.to_bits()) }
}

fn canon_val(v: &DataType) -> Val {
    match v {
        DataType::Null => Val::Null,
        DataType::Bool(b) => Val::Bool(b.0),
        DataType::Int(i) => Val::Int(i.0 as i128),
        DataType::BigInt(i) => Val::Int(i.0 as i128),
        DataType::UInt(i) => Val::Int(i.0 as i128),
        DataType::BigUInt(i) => Val::Int(i.0 as i128),
        DataType::Float(f) => canon_f64(f.0 as f64),
        DataType::Double(f) => canon_f64(f.0),
        DataType::Blob(b) => Val::Text(b.data().map(|d| d.to_vec()).unwrap_or_default()),
    }
}

fn rank(v: &Val) -> u8 {
    match v {
        Val::Bool(_) => 0,
        Val::Int(_) | Val::F64(_) => 1,
        Val::Text(_) => 2,
        Val::Null => 3,
    }
}

/// the spec comparator of ORDER BY keys: NULL is the largest value; DESC reverses
fn cmp_key(asc: bool, a: &Val, b: &Val) -> std::cmp::Ordering {
    use std::cmp::Ordering::*;
    let o = match (a, b) {
        (Val::Null, Val::Null) => Equal,
        (Val::Null, _) => Greater,
        (_, Val::Null) => Less,
        (Val::Int(x), Val::Int(y)) => x.cmp(y),
        (Val::Bool(x), Val::Bool(y)) => x.cmp(y),
        (Val::Text(x), Val::Text(y)) => x.cmp(y),
        (x, y) => rank(x).cmp(&rank(y)),
    };
    if asc { o } else { o.reverse() }
}

fn is_sorted(rows: &[Vec<Val>], order: &[(usize, bool)]) -> bool {
    rows.windows(2).all(|w| {
        for (p, asc) in order {
            let (a, b) = (w[0].get(*p).unwrap_or(&Val::Null), w[1].get(*p).unwrap_or(&Val::Null));
            match cmp_key(*asc, a, b) {
                std::cmp::Ordering::Less => return true,
                std::cmp::Ordering::Greater => return false,
                _ => {}
            }
        }
        true
    })
}

fn show_rows(rows: &[Vec<Val>], canonical: bool) -> String {
    let mut ss: Vec<String> = rows.iter().map(|r| r.iter().map(show_val).collect::<Vec<_>>().join(",")).collect();
    if canonical {
        ss.sort();
    }
    ss.join("|")
}

fn canon_result(r: Result<QueryResult, String>, q: Option<&Select>) -> String {
    match r {
        Err(e) => format!("E{}", err_class(&e)),
        Ok(QueryResult::RowsAffected(n)) => format!("A{}", n),
        Ok(QueryResult::Ddl(_)) => "Eother".into(),
        Ok(QueryResult::Rows(rows)) => {
            let rs: Vec<Vec<Val>> = rows.iterrows().map(|r| r.iter().map(canon_val).collect()).collect();
            match q {
                Some(q) if q.limit.is_some() || q.offset.is_some() => format!("Rlist:{}", show_rows(&rs, false)),
                Some(q) if !q.order_by.is_empty() => {
                    if is_sorted(&rs, &q.order_by) {
                        format!("Rord:{}", show_rows(&rs, true))
                    } else {
                        format!("Runsorted:{}", show_rows(&rs, false))
                    }
                }
                _ => format!("Rset:{}", show_rows(&rs, true)),
            }
        }
    }
}

static SEQ: std::sync::atomic::AtomicU64 = std::sync::atomic::AtomicU64::new(0);

/// `CREATE INDEX` prints a line on the process' stdout (a left-over debug `println!`), which is the protocol channel
/// of `axh exec`: file descriptor 1 points to /dev/null while such a statement runs.
fn with_stdout_muted<T>(f: impl FnOnce() -> T) -> T {

    use std::io::Write;
    let _ = std::io::stdout().flush();
    unsafe {
        let saved = libc::dup(1);
        let null = libc::open(c"/dev/null".as_ptr(), libc::O_WRONLY);
        if saved >= 0 && null >= 0 {
            libc::dup2(null, 1);
        }
        let r = f();
        let _ = std::io::stdout().flush();
        if saved >= 0 && null >= 0 {
            libc::dup2(saved, 1);
        }
        if saved >= 0 {
            libc::close(saved);
        }
        if null >= 0 {
            libc::close(null);
        }
        r
    }
}

/// one database instance with an optional open session
struct Inst {
    db: Option<Database>,
    sess: Option<Session>,
    dir: std::path::PathBuf,
    has_ix: bool,
}

impl Inst {
    fn new() -> Inst {
        let n = SEQ.fetch_add(1, std::sync::atomic::Ordering::Relaxed);
        let dir = std::env::temp_dir().join(format!("axh-plan-{}-{}", std::process::id(), n));
        let _ = std::fs::remove_dir_all(&dir);
        std::fs::create_dir_all(&dir).unwrap();
        let db = Database::create(dir.join("db"), DBConfig::default()).expect("create database");
        Inst { db: Some(db), sess: None, dir, has_ix: false }
    }
    fn db(&self) -> &Database {
        self.db.as_ref().unwrap()
    }
    /// statements go through the open session, if any
    fn run(&mut self, sql: &str) -> Result<QueryResult, String> {
        match self.sess.as_mut() {
            Some(s) => s.execute(sql).map_err(|e| e.to_string()),
            None => self.db().execute(sql).map_err(|e| e.to_string()),
        }
    }
    fn create_tables(&mut self, tables: &[Table]) -> Result<(), String> {
        for (k, t) in tables.iter().enumerate() {
            let cols: Vec<String> = t.tys.iter().enumerate().map(|(i, ty)| format!("c{} {}", i, sql_ty(*ty))).collect();
            self.run(&format!("CREATE TABLE t{} ({})", k, cols.join(", "))).map_err(|e| format!("create: {}", e))?;
        }
        Ok(())
    }
    fn load(&mut self, tables: &[Table]) -> Result<(), String> {
        for (k, t) in tables.iter().enumerate() {
            for chunk in t.rows.chunks(20) {
                let rs: Vec<String> =
                    chunk.iter().map(|r| format!("({})", r.iter().map(sql_lit).collect::<Vec<_>>().join(", "))).collect();
                self.run(&format!("INSERT INTO t{} VALUES {}", k, rs.join(", "))).map_err(|e| format!("load: {}", e))?;
            }
        }
        Ok(())
    }
    fn create_indexes(&mut self, ixs: &[Ix]) -> Result<(), String> {
        for (n, x) in ixs.iter().enumerate() {
            let cols: Vec<String> = x.cols.iter().map(|c| format!("c{}", c)).collect();
            let sql = format!("CREATE UNIQUE INDEX ix{} ON t{} ({})", n, x.table, cols.join(", "));
            with_stdout_muted(|| self.run(&sql)).map_err(|e| format!("index: {}", e))?;
        }
        self.has_ix = true;
        Ok(())
    }
}

impl Drop for Inst {
    fn drop(&mut self) {
        self.sess.take();
        self.db.take();
        let _ = std::fs::remove_dir_all(&self.dir);
    }
}

/// plan-shape digest of an EXPLAIN text: operator names with their depth, scans with their object ids
fn digest(explain: &Result<String, String>) -> String {
    match explain {
        Err(e) => format!("!{}", err_class(e)),
        Ok(s) => {
            let mut out = Vec::new();
            for line in s.lines() {
                let indent = line.chars().take_while(|c| *c == ' ').count();
                let rest = line.trim_start().trim_start_matches(|c: char| !c.is_ascii_alphabetic());
                if rest.is_empty() {
                    continue;
                }
                let name: String = rest.chars().take_while(|c| c.is_ascii_alphanumeric()).collect();
                let arg = if name.ends_with("Scan") {
                    rest[name.len()..].split(')').next().map(|a| format!("{})", a)).unwrap_or_default()
                } else {
                    String::new()
                };
                out.push(format!("{}{}{}", indent / 2, name, arg));
            }
            out.join(",")
        }
    }
}

/// Does every operator of the plan get its inputs in the ordering it requires?  The rule is the specification's
/// (`Plan.leads`, Thm.C06.ordering_satisfies_iff_prefix): the required keys are the first keys the input declares.
/// Returns the first operator that does not; `edges` counts the inputs an ordering is required of.
fn lacks_ordering(p: &vp::VPhys, edges: &mut usize) -> Option<String> {
    for (i, c) in p.children.iter().enumerate() {
        let req = p.requires.get(i).cloned().unwrap_or_default();
        if !req.is_empty() {
            *edges += 1;
            let ok = req.len() <= c.delivers.len() && req.iter().zip(&c.delivers).all(|((col, asc), d)| *d == vp::VOrdKey::Col(*col, *asc));
            if !ok {
                let show = |ks: &[vp::VOrdKey]| {
                    ks.iter()
                        .map(|k| match k {
                            vp::VOrdKey::Col(c, true) => format!("a{}", c),
                            vp::VOrdKey::Col(c, false) => format!("d{}", c),
                            vp::VOrdKey::Expr(true) => "x".into(),
                            vp::VOrdKey::Expr(false) => "y".into(),
                        })
                        .collect::<Vec<_>>()
                        .join(",")
                };
                let reqs = req.iter().map(|(c, asc)| format!("{}{}", if *asc { "a" } else { "d" }, c)).collect::<Vec<_>>().join(",");
                return Some(format!("{}.input{}:requires={}:{}-delivers={}", p.op, i, reqs, c.op, if c.delivers.is_empty() { "-".into() } else { show(&c.delivers) }));
            }
        }
        if let Some(x) = lacks_ordering(c, edges) {
            return Some(x);
        }
    }
    None
}

fn variant_name(v: Variant) -> &'static str {
    match v {
        Variant::AsWritten => "a",
        Variant::NoIndex => "b",
        Variant::Permuted(_) => "c",
        Variant::Derived(_) => "f",
        Variant::NoEquiKey => "g",
    }
}

fn case_seed(line: &str) -> u64 {
    let mut h: u64 = 0xcbf29ce484222325;
    for b in line.bytes() {
        h ^= b as u64;
        h = h.wrapping_mul(0x100000001b3);
    }
    h
}

pub struct Outcome {
    pub line: String,
    /// measured: (pairs of forms compared, pairs whose plan digests differ, queries answered by an index scan, …)
    pub facts: BTreeMap<String, usize>,
}

/// `Database::execute_batch` of the collected statements on both databases; the outcome of every statement goes to
/// its place in `outs`.  A failed batch fails as a whole (`E<class>` for each of its statements).
fn flush_batch(stmts: &[(usize, String)], early: &mut Inst, late: Option<&mut Inst>, outs: &mut [String], failed: &mut bool) {
    if stmts.is_empty() {
        return;
    }
    let sqls: Vec<&str> = stmts.iter().map(|(_, s)| s.as_str()).collect();
    let run = |inst: &mut Inst| -> Vec<String> {
        match inst.db().execute_batch(&sqls) {
            Ok(rs) => rs.into_iter().map(|r| canon_result(Ok(r), None)).collect(),
            Err(e) => {
                let c = format!("E{}", err_class(&e.to_string()));
                sqls.iter().map(|_| c.clone()).collect()
            }
        }
    };
    let a = run(early);
    let e = late.map(run);
    for (k, (pos, _)) in stmts.iter().enumerate() {
        let ak = a.get(k).cloned().unwrap_or_else(|| "Eother".into());
        let mut o = ak.clone();
        if let Some(e) = &e {
            let ek = e.get(k).cloned().unwrap_or_else(|| "Eother".into());
            if ek != ak {
                o = format!("PROPFAIL variant=e a={} e={}", ak, ek);
            }
        }
        if ak.starts_with('E') {
            *failed = true;
        }
        if let Some(slot) = outs.get_mut(*pos) {
            *slot = o;
        }
    }
}

/// Runs a case.  `run_queries = false`: only EXPLAIN (used by the generator to measure plan diversity).
pub fn run_case(line: &str, run_queries: bool) -> Outcome {
    let mut facts: BTreeMap<String, usize> = BTreeMap::new();
    let Some((tables, ixs, ops)) = parse_plan_case(line) else {
        return Outcome { line: "bad-op".into(), facts };
    };
    let fail = |what: String| Outcome { line: format!("setup-failed ## {} {:?}", what, take_worker_panic()), facts: BTreeMap::new() };
    let seed = case_seed(line);
    vp::record_plans(true);
    let mut early = Inst::new();
    if let Err(e) = early.create_tables(&tables).and_then(|_| early.create_indexes(&ixs)).and_then(|_| early.load(&tables)) {
        return fail(format!("early {}", e));
    }
    let want_late = !ixs.is_empty() && ops.iter().any(|o| matches!(o, Op::MkIx));
    let mut late: Option<Inst> = None;
    if want_late {
        let mut l = Inst::new();
        if let Err(e) = l.create_tables(&tables).and_then(|_| l.load(&tables)) {
            return fail(format!("late {}", e));
        }
        late = Some(l);
    }
    let mut bump = |k: &str, n: usize| *facts.entry(k.to_string()).or_insert(0) += n;
    let mut outs: Vec<String> = Vec::new();
    let mut diags: Vec<String> = Vec::new();
    let mut panics: Vec<String> = Vec::new();
    let mut failed = false;
    // digest of form `a` of every query text seen so far (to see whether ANALYZE changed the plan)
    let mut seen: BTreeMap<String, String> = BTreeMap::new();
    let mut analyzed = false;
    // an open batch: (position in `outs`, SQL text) of the statements collected so far
    let mut batch: Option<Vec<(usize, String)>> = None;
    for (opno, op) in ops.iter().enumerate() {
        if failed {
            outs.push("-".into());
            continue;
        }
        let collects = batch.is_some() && early.sess.is_none() && matches!(op, Op::Stmt(Stmt::Insert(..) | Stmt::InsertX(..) | Stmt::Update(..) | Stmt::Delete(..)));
        if !collects {
            if let Some(stmts) = batch.take() {
                flush_batch(&stmts, &mut early, late.as_mut(), &mut outs, &mut failed);
                if failed {
                    outs.push("-".into());
                    continue;
                }
            }
        }
        match op {
            Op::Batch => {
                batch = Some(Vec::new());
                outs.push("ok".into());
            }
            Op::EndBatch => outs.push("ok".into()),
            Op::Stmt(s @ (Stmt::Insert(..) | Stmt::InsertX(..) | Stmt::Update(..) | Stmt::Delete(..))) if collects => {
                if let Some(b) = batch.as_mut() {
                    b.push((outs.len(), dml_sql(s)));
                }
                outs.push("?".into());
            }
            Op::Begin => {
                for inst in std::iter::once(&mut early).chain(late.iter_mut()) {
                    if inst.sess.is_none() {
                        inst.sess = inst.db().session().ok();
                    }
                }
                outs.push("ok".into());
            }
            Op::Rollback | Op::Commit => {
                let mut res = Vec::new();
                for inst in std::iter::once(&mut early).chain(late.iter_mut()) {
                    if let Some(mut s) = inst.sess.take() {
                        let r = if matches!(op, Op::Commit) { s.commit_transaction() } else { s.abort_transaction() };
                        res.push(r.is_ok());
                    }
                }
                outs.push(if res.iter().all(|b| *b) { "ok".into() } else { "Eother".into() });
            }
            Op::Vacuum => {
                let mut ok = true;
                for inst in std::iter::once(&mut early).chain(late.iter_mut()) {
                    // VACUUM aborts every open transaction: histories only vacuum outside sessions
                    if inst.sess.is_none() {
                        ok &= inst.db().vacuum().is_ok();
                    }
                }
                outs.push(if ok { "ok".into() } else { "Eother".into() });
            }
            Op::Analyze(permille, max) => {
                let mut ok = true;
                for inst in std::iter::once(&mut early).chain(late.iter_mut()) {
                    ok &= inst.db().analyze(*permille as f64 / 1000.0, *max).is_ok();
                }
                analyzed = true;
                outs.push(if ok { "ok".into() } else { "Eother".into() });
            }
            Op::MkIx => {
                let mut o = "ok".to_string();
                if let Some(l) = late.as_mut() {
                    if !l.has_ix {
                        if let Err(e) = l.create_indexes(&ixs) {
                            o = format!("E{} ## {}", err_class(&e), e);
                            failed = true;
                        }
                    }
                }
                outs.push(o);
            }
            Op::Stmt(s @ (Stmt::Insert(..) | Stmt::InsertX(..) | Stmt::Update(..) | Stmt::Delete(..))) => {
                let sql = dml_sql(s);
                let a = canon_result(early.run(&sql), None);
                let mut o = a.clone();
                if let Some(l) = late.as_mut() {
                    let e = canon_result(l.run(&sql), None);
                    bump("pairs", 1);
                    if e != a {
                        o = format!("PROPFAIL variant=e a={} e={}", a, e);
                    }
                }
                if a.starts_with('E') {
                    failed = true;
                }
                outs.push(o);
            }
            Op::Stmt(Stmt::Select(q)) => {
                let forms = [
                    Variant::AsWritten,
                    Variant::NoIndex,
                    Variant::Permuted(seed ^ opno as u64),
                    Variant::Derived(seed ^ opno as u64 ^ 0x5bd1e995),
                    Variant::NoEquiKey,
                ];
                let mut results: Vec<(String, String)> = Vec::new(); // (form name, canonical result)
                let mut digs: Vec<(String, String)> = Vec::new();
                // forms whose chosen plan feeds an operator an input that does not declare the ordering it requires
                let mut unordered: Vec<(String, String)> = Vec::new();
                let mut ord_edges = 0usize;
                let sql_a = select_sql(q, &tables, &ixs, Variant::AsWritten).unwrap_or_default();
                for v in forms {
                    let Some(sql) = select_sql(q, &tables, &ixs, v) else { continue };
                    if v != Variant::AsWritten && sql == sql_a {
                        continue;
                    }
                    let name = variant_name(v).to_string();
                    let _ = vp::take_last_plan();
                    digs.push((name.clone(), digest(&early.db().explain(&sql).map_err(|e| e.to_string()))));
                    if let Some(p) = vp::take_last_plan() {
                        let mut edges = 0;
                        if let Some(what) = lacks_ordering(&p, &mut edges) {
                            unordered.push((name.clone(), what));
                        }
                        ord_edges += edges;
                    }
                    if run_queries {
                        results.push((name, canon_result(early.run(&sql), Some(q))));
                    }
                }
                if let Some(l) = late.as_mut() {
                    if l.has_ix {
                        let _ = vp::take_last_plan();
                        digs.push(("e".into(), digest(&l.db().explain(&sql_a).map_err(|e| e.to_string()))));
                        if let Some(p) = vp::take_last_plan() {
                            let mut edges = 0;
                            if let Some(what) = lacks_ordering(&p, &mut edges) {
                                unordered.push(("e".into(), what));
                            }
                            ord_edges += edges;
                        }
                        if run_queries {
                            results.push(("e".into(), canon_result(l.run(&sql_a), Some(q))));
                        }
                    }
                }
                bump("ordering-required", ord_edges);
                let da = digs[0].1.clone();
                for (n, d) in &digs[1..] {
                    bump("pairs", 1);
                    bump(&format!("pairs.{}", n), 1);
                    if *d != da {
                        bump("differ", 1);
                        bump(&format!("differ.{}", n), 1);
                    }
                }
                if let Some(prev) = seen.get(&sql_a) {
                    if analyzed {
                        bump("pairs", 1);
                        bump("pairs.d", 1);
                        if *prev != da {
                            bump("differ", 1);
                            bump("differ.d", 1);
                        }
                    }
                }
                seen.insert(sql_a.clone(), da.clone());
                // physical operators of the chosen plans: op.<Name> = forms whose plan holds the operator
                for (_, d) in &digs {
                    let mut names: BTreeSet<String> = BTreeSet::new();
                    for part in d.split(',') {
                        let name: String = part.trim_start_matches(|c: char| c.is_ascii_digit()).chars().take_while(|c| c.is_ascii_alphanumeric()).collect();
                        if !name.is_empty() {
                            names.insert(name);
                        }
                    }
                    for n in names {
                        bump(&format!("op.{}", n), 1);
                    }
                }
                for (_, d) in &digs {
                    if d.contains("IndexScan") {
                        bump("uses.index-scan", 1);
                    }
                    for j in ["HashJoin", "MergeJoin", "NLJoin"] {
                        if d.contains(j) {
                            bump(&format!("uses.{}", j), 1);
                        }
                    }
                }
                diags.push(format!("q{}:{}", opno, digs.iter().map(|(n, d)| format!("{}={}", n, d)).collect::<Vec<_>>().join("|")));
                if run_queries {
                    let a = results[0].1.clone();
                    match (unordered.first(), results.iter().find(|(_, r)| *r != a)) {
                        (Some((n, what)), _) => outs.push(format!("PROPFAIL variant={} input-not-ordered {}", n, what)),
                        (None, None) => outs.push(format!("same {}", a)),
                        (None, Some((n, r))) => outs.push(format!("PROPFAIL variant={} a={} {}={}", n, a, n, r)),
                    }
                } else {
                    outs.push("-".into());
                }
            }
        }
        if let Some(p) = take_worker_panic() {
            panics.push(p);
        }
    }
    if let Some(stmts) = batch.take() {
        flush_batch(&stmts, &mut early, late.as_mut(), &mut outs, &mut failed);
    }
    let pairs = facts.get("pairs").copied().unwrap_or(0);
    let differ = facts.get("differ").copied().unwrap_or(0);
    let mut line = format!("{} ## pairs={} differ={} {}", outs.join(" ; "), pairs, differ, diags.join(" "));
    if !panics.is_empty() {
        line += &format!(" worker-panic@{}", panics.join(","));
    }
    Outcome { line, facts }
}

/// debugging aid (only with AXH_SQL_DEBUG): `raw <sql>; <sql>…` on a scratch database; besides SQL text the words
/// EXPLAIN <q>, ANALYZE <rate> <max>, VACUUM, BEGIN, ROLLBACK, COMMIT are understood.
fn raw(sqls: &str) -> String {
    let mut t = Inst::new();
    let mut out = Vec::new();
    for s in sqls.split(';') {
        let s = s.trim();
        if s.is_empty() {
            continue;
        }
        if let Some(q) = s.strip_prefix("EXPLAIN ") {
            out.push(format!("PLAN {}", digest(&t.db().explain(q).map_err(|e| e.to_string()))));
            continue;
        }
        if let Some(q) = s.strip_prefix("EXPLAINFULL ") {
            out.push(format!("PLAN {:?}", t.db().explain(q)));
            continue;
        }
        if let Some(a) = s.strip_prefix("ANALYZE") {
            let ws: Vec<&str> = a.split_whitespace().collect();
            let r: f64 = ws.first().and_then(|w| w.parse().ok()).unwrap_or(1.0);
            let m: usize = ws.get(1).and_then(|w| w.parse().ok()).unwrap_or(1000);
            out.push(format!("ANALYZE {:?}", t.db().analyze(r, m).map_err(|e| e.to_string())));
            continue;
        }
        match s {
            "VACUUM" => {
                out.push(format!("VACUUM {:?}", t.db().vacuum().map(|_| ()).map_err(|e| e.to_string())));
                continue;
            }
            "BEGIN" => {
                t.sess = t.db().session().ok();
                out.push("BEGIN".into());
                continue;
            }
            "ROLLBACK" | "COMMIT" => {
                if let Some(mut x) = t.sess.take() {
                    let r = if s == "COMMIT" { x.commit_transaction() } else { x.abort_transaction() };
                    out.push(format!("{} {:?}", s, r.map_err(|e| e.to_string())));
                }
                continue;
            }
            _ => {}
        }
        match with_stdout_muted(|| t.run(s)) {
            Err(e) => out.push(format!("ERR[{}] {}", err_class(&e), e)),
            Ok(QueryResult::Rows(rows)) => {
                let rs: Vec<Vec<Val>> = rows.iterrows().map(|r| r.iter().map(canon_val).collect()).collect();
                out.push(format!("ROWS[{}] {}", rs.len(), show_rows(&rs, false)));
            }
            Ok(QueryResult::RowsAffected(n)) => out.push(format!("AFFECTED {}", n)),
            Ok(QueryResult::Ddl(_)) => out.push("DDL".into()),
        }
    }
    out.join(" || ")
}

fn show_sql(line: &str) -> String {
    let Some((tables, ixs, ops)) = parse_plan_case(line) else {
        return "bad-op".into();
    };
    let mut out = Vec::new();
    for (i, op) in ops.iter().enumerate() {
        match op {
            Op::Stmt(Stmt::Select(q)) => {
                for v in [
                    Variant::AsWritten,
                    Variant::NoIndex,
                    Variant::Permuted(case_seed(line) ^ i as u64),
                    Variant::Derived(case_seed(line) ^ i as u64 ^ 0x5bd1e995),
                ] {
                    if let Some(s) = select_sql(q, &tables, &ixs, v) {
                        out.push(format!("[{}] {}", variant_name(v), s));
                    }
                }
            }
            Op::Stmt(s) => out.push(dml_sql(s)),
            o => out.push(show_op(o)),
        }
    }
    out.join(" ;; ")
}

// ------------------------------------------------------------------------------------------------ rule-level cases
//
//   rule <TABLES> <IX> | <PLAN>
//   TABLES := TYS ("/" TYS)*      one letter per column, I B O S as in DB; lower case = declared NOT NULL
//   PLAN   := scan t<k> | filter E PLAN | project p<n> E×n PLAN | join KIND (on E | -) PLAN PLAN
//   answer := <rule>:<ALTS> (" ; " …)   for the six transformation rules in the order of `transformation_rules()`
//   ALTS   := "-" | PLAN (" & " PLAN)*   with  ixscan t<k> x<index> lo<n> BOUND×n hi<n> BOUND×n (r E | -),  BOUND := b<pos> (in|ex) <literal>

use axmosdb::verif::plan as vp;

fn to_vexpr(e: &E) -> vp::VExpr {
    let b = |x: &E| Box::new(to_vexpr(x));
    match e {
        E::Lit(Val::Null) => vp::VExpr::Lit(vp::VLit::Null),
        E::Lit(Val::Int(i)) => vp::VExpr::Lit(vp::VLit::Int(*i as i64)),
        E::Lit(Val::Bool(x)) => vp::VExpr::Lit(vp::VLit::Bool(*x)),
        E::Lit(Val::Text(t)) => vp::VExpr::Lit(vp::VLit::Text(t.clone())),
        E::Lit(Val::F64(_)) => vp::VExpr::Lit(vp::VLit::Null),
        E::Col(i) => vp::VExpr::Col(*i),
        E::Not(a) => vp::VExpr::Not(b(a)),
        E::Neg(a) => vp::VExpr::Neg(b(a)),
        E::Pos(a) => vp::VExpr::Pos(b(a)),
        E::And(l, r) => vp::VExpr::And(b(l), b(r)),
        E::Or(l, r) => vp::VExpr::Or(b(l), b(r)),
        E::Cmp(op, l, r) => vp::VExpr::Cmp(op, b(l), b(r)),
        E::Arith(op, l, r) => vp::VExpr::Arith(op, b(l), b(r)),
        E::Like(n, l, r) => vp::VExpr::Like(*n, b(l), b(r)),
        E::IsNull(n, a) => vp::VExpr::IsNull(*n, b(a)),
        E::Between(n, a, lo, hi) => vp::VExpr::Between(*n, b(a), b(lo), b(hi)),
        E::InList(n, a, xs) => vp::VExpr::InList(*n, b(a), xs.iter().map(to_vexpr).collect()),
        // CASE and the string functions are not part of the rule facade; the plan generators never produce them
        E::Case(..) | E::StrFn(..) | E::Concat(..) | E::NullIf(..) | E::Coalesce(..) => vp::VExpr::Lit(vp::VLit::Null),
    }
}

fn show_vlit(v: &vp::VLit) -> String {
    match v {
        vp::VLit::Null => "n".into(),
        vp::VLit::Int(i) => format!("i{}", i),
        vp::VLit::Bool(b) => if *b { "b1".into() } else { "b0".into() },
        vp::VLit::Text(t) => format!("t{}", crate::util::hex_or_dash(t)),
    }
}

fn show_vexpr(e: &vp::VExpr, out: &mut Vec<String>) {
    match e {
        vp::VExpr::Lit(v) => out.push(show_vlit(v)),
        vp::VExpr::Col(i) => out.push(format!("c{}", i)),
        vp::VExpr::Not(a) | vp::VExpr::Neg(a) | vp::VExpr::Pos(a) => {
            out.push(match e {
                vp::VExpr::Not(_) => "not",
                vp::VExpr::Neg(_) => "neg",
                _ => "pos",
            }
            .into());
            show_vexpr(a, out)
        }
        vp::VExpr::And(l, r) | vp::VExpr::Or(l, r) => {
            out.push(if matches!(e, vp::VExpr::And(..)) { "and" } else { "or" }.into());
            show_vexpr(l, out);
            show_vexpr(r, out)
        }
        vp::VExpr::Cmp(op, l, r) | vp::VExpr::Arith(op, l, r) => {
            out.push(op.to_string());
            show_vexpr(l, out);
            show_vexpr(r, out)
        }
        vp::VExpr::Like(n, l, r) => {
            out.push(if *n { "nlike" } else { "like" }.into());
            show_vexpr(l, out);
            show_vexpr(r, out)
        }
        vp::VExpr::IsNull(n, a) => {
            out.push(if *n { "notnull" } else { "isnull" }.into());
            show_vexpr(a, out)
        }
        vp::VExpr::Between(n, a, lo, hi) => {
            out.push(if *n { "nbtw" } else { "btw" }.into());
            show_vexpr(a, out);
            show_vexpr(lo, out);
            show_vexpr(hi, out)
        }
        vp::VExpr::InList(n, a, xs) => {
            out.push(format!("{}{}", if *n { "nin" } else { "in" }, xs.len()));
            show_vexpr(a, out);
            for x in xs {
                show_vexpr(x, out)
            }
        }
        vp::VExpr::Other(s) => out.push(format!("?{}", s.replace(' ', "_"))),
    }
}

fn show_vplan(p: &vp::VPlan, out: &mut Vec<String>) {
    match p {
        vp::VPlan::Scan(t) => {
            out.push("scan".into());
            out.push(format!("t{}", t))
        }
        vp::VPlan::IndexScan { table, index, lo, hi, resid } => {
            out.push("ixscan".into());
            out.push(format!("t{}", table));
            out.push(format!("x{}", index));
            for (name, bs) in [("lo", lo), ("hi", hi)] {
                out.push(format!("{}{}", name, bs.len()));
                for b in bs {
                    out.push(format!("b{}", b.pos));
                    out.push(if b.inclusive { "in" } else { "ex" }.into());
                    out.push(show_vlit(&b.value));
                }
            }
            match resid {
                Some(e) => {
                    out.push("r".into());
                    show_vexpr(e, out)
                }
                None => out.push("-".into()),
            }
        }
        vp::VPlan::Filter(e, c) => {
            out.push("filter".into());
            show_vexpr(e, out);
            show_vplan(c, out)
        }
        vp::VPlan::Project(items, c) => {
            out.push("project".into());
            out.push(format!("p{}", items.len()));
            for e in items {
                show_vexpr(e, out)
            }
            show_vplan(c, out)
        }
        vp::VPlan::Join(k, on, l, r) => {
            out.push("join".into());
            out.push(k.to_string());
            match on {
                Some(e) => {
                    out.push("on".into());
                    show_vexpr(e, out)
                }
                None => out.push("-".into()),
            }
            show_vplan(l, out);
            show_vplan(r, out)
        }
        vp::VPlan::Other(s) => out.push(format!("?{}", s.replace(' ', "_"))),
    }
}

/// one expression of the case syntax, through the parser of engine `sql` (a WHERE clause of a throw-away statement)
fn parse_expr_words(ws: &[&str], pos: &mut usize, ncols_hint: &str) -> Option<E> {
    // find the shortest prefix that parses as an expression
    for end in (*pos + 1)..=ws.len() {
        let l = format!("sql {}= ; del t0 w {}", ncols_hint, ws[*pos..end].join(" "));
        if let Some((_, mut stmts)) = parse_case(&l) {
            if let Some(Stmt::Delete(_, Some(e))) = stmts.pop() {
                *pos = end;
                return Some(e);
            }
        }
    }
    None
}

fn parse_vplan(ws: &[&str], pos: &mut usize) -> Option<vp::VPlan> {
    let w = *ws.get(*pos)?;
    *pos += 1;
    match w {
        "scan" => {
            let t = ws.get(*pos)?.strip_prefix('t')?.parse().ok()?;
            *pos += 1;
            Some(vp::VPlan::Scan(t))
        }
        "filter" => {
            let e = parse_expr_words(ws, pos, "I")?;
            let c = parse_vplan(ws, pos)?;
            Some(vp::VPlan::Filter(to_vexpr(&e), Box::new(c)))
        }
        "project" => {
            let n: usize = ws.get(*pos)?.strip_prefix('p')?.parse().ok()?;
            *pos += 1;
            let mut items = Vec::new();
            for _ in 0..n {
                items.push(to_vexpr(&parse_expr_words(ws, pos, "I")?));
            }
            let c = parse_vplan(ws, pos)?;
            Some(vp::VPlan::Project(items, Box::new(c)))
        }
        "join" => {
            let k = *["inner", "left", "right", "full", "cross"].iter().find(|k| **k == *ws.get(*pos).unwrap_or(&""))?;
            *pos += 1;
            let on = match *ws.get(*pos)? {
                "-" => {
                    *pos += 1;
                    None
                }
                "on" => {
                    *pos += 1;
                    Some(to_vexpr(&parse_expr_words(ws, pos, "I")?))
                }
                _ => return None,
            };
            let l = parse_vplan(ws, pos)?;
            let r = parse_vplan(ws, pos)?;
            Some(vp::VPlan::Join(k, on, Box::new(l), Box::new(r)))
        }
        _ => None,
    }
}

fn parse_vtables(w: &str, ixs: &[Ix]) -> Option<Vec<vp::VTable>> {
    let mut out = Vec::new();
    for (t, tw) in w.split('/').enumerate() {
        if tw.is_empty() {
            return None;
        }
        let mut cols = Vec::new();
        for ch in tw.chars() {
            let ty = match ch.to_ascii_uppercase() {
                'I' => vp::VTy::Int,
                'B' => vp::VTy::BigInt,
                'O' => vp::VTy::Bool,
                'S' => vp::VTy::Text,
                _ => return None,
            };
            cols.push((ty, ch.is_ascii_lowercase()));
        }
        let indexes: Vec<Vec<usize>> = ixs.iter().filter(|x| x.table == t).map(|x| x.cols.clone()).collect();
        if indexes.iter().any(|ix| ix.iter().any(|c| *c >= cols.len())) || indexes.len() > 15 {
            return None;
        }
        out.push(vp::VTable { cols, indexes });
    }
    Some(out)
}

fn run_rule_case(line: &str) -> String {
    let ws: Vec<&str> = line.split_whitespace().collect();
    if ws.len() < 5 || ws[0] != "rule" || ws[3] != "|" {
        return "bad-op".into();
    }
    let Some(ixs) = parse_ixs(ws[2]) else { return "bad-op".into() };
    let ntables = ws[1].split('/').count();
    if ixs.iter().any(|x| x.table >= ntables) {
        return "bad-op".into();
    }
    let Some(tables) = parse_vtables(ws[1], &ixs) else { return "bad-op".into() };
    let mut pos = 4;
    let Some(plan) = parse_vplan(&ws, &mut pos) else { return "bad-op".into() };
    if pos != ws.len() {
        return "bad-op".into();
    }
    match vp::apply_rules(&tables, &plan) {
        Err(e) => format!("rule-error ## {}", e),
        Ok(rs) => rs
            .iter()
            .map(|(name, alts)| {
                let a = if alts.is_empty() {
                    "-".to_string()
                } else {
                    alts.iter()
                        .map(|p| {
                            let mut out = Vec::new();
                            show_vplan(p, &mut out);
                            out.join(" ")
                        })
                        .collect::<Vec<_>>()
                        .join(" & ")
                };
                format!("{}:{}", name, a)
            })
            .collect::<Vec<_>>()
            .join(" ; "),
    }
}

// ------------------------------------------------------------------------------------------------ ordering cases

/// `ord <DELIVERED> <REQUIRED>` → `sat` / `unsat`: `PhysicalProperties::satisfies` through the facade
/// (`verif::plan::ordering_satisfies`); syntax in `lean/AxVerif/Driver/Plan.lean`.
fn run_ord_case(line: &str) -> String {
    let ws: Vec<&str> = line.split_whitespace().collect();
    if ws.len() != 3 || ws[0] != "ord" {
        return "bad-op".into();
    }
    let key = |w: &str| -> Option<(usize, bool)> {
        let asc = match w.chars().next()? {
            'a' => true,
            'd' => false,
            _ => return None,
        };
        let n = &w[1..];
        if n.is_empty() || n.len() > 7 || !n.bytes().all(|b| b.is_ascii_digit()) {
            return None;
        }
        Some((n.parse().ok()?, asc))
    };
    let mut delivered: Vec<vp::VOrdKey> = Vec::new();
    if ws[1] != "-" {
        for w in ws[1].split(',') {
            match w {
                "x" => delivered.push(vp::VOrdKey::Expr(true)),
                "y" => delivered.push(vp::VOrdKey::Expr(false)),
                _ => match key(w) {
                    Some((c, asc)) => delivered.push(vp::VOrdKey::Col(c, asc)),
                    None => return "bad-op".into(),
                },
            }
        }
    }
    let mut required: Vec<(usize, bool)> = Vec::new();
    if ws[2] != "-" {
        for w in ws[2].split(',') {
            match key(w) {
                Some(k) => required.push(k),
                None => return "bad-op".into(),
            }
        }
    }
    if vp::ordering_satisfies(&delivered, &required) { "sat".into() } else { "unsat".into() }
}

/// random pairs of orderings, most of them near the boundary: one a prefix of the other, equal, or differing in one
/// key's column, direction or kind
fn gen_ord_case(rng: &mut Rng) -> Case {
    let mut tags: Vec<String> = vec!["ord".into()];
    let show_r = |k: &(usize, bool)| format!("{}{}", if k.1 { "a" } else { "d" }, k.0);
    let n = *rng.pick(&[0usize, 1, 1, 2, 2, 2, 3, 3, 4]);
    let base: Vec<(usize, bool)> = (0..n).map(|_| (rng.below(5) as usize, rng.chance(4, 5))).collect();
    let mut required = base.clone();
    let mut delivered: Vec<String> = base.iter().map(show_r).collect();
    let shape = rng.below(10);
    match shape {
        0 | 1 => tags.push("ord.equal".into()),
        2 | 3 => {
            // the delivered ordering goes on
            tags.push("ord.delivered-longer".into());
            for _ in 0..rng.range(1, 2) {
                delivered.push(if rng.chance(1, 5) { "x".into() } else { show_r(&(rng.below(5) as usize, rng.chance(4, 5))) });
            }
        }
        4..=6 => {
            // the required ordering goes on: the delivered one is a proper prefix of it
            tags.push("ord.required-longer".into());
            for _ in 0..rng.range(1, 2) {
                required.push((rng.below(5) as usize, rng.chance(4, 5)));
            }
        }
        7 | 8 => {
            // one delivered key differs
            tags.push("ord.one-key-differs".into());
            if !delivered.is_empty() {
                let i = rng.below(delivered.len() as u64) as usize;
                let (c, asc) = base[i];
                delivered[i] = match rng.below(4) {
                    0 => show_r(&(c, !asc)),
                    1 => show_r(&(c + 1, asc)),
                    2 => if asc { "x".into() } else { "y".into() },
                    _ => show_r(&(rng.below(5) as usize, rng.chance(1, 2))),
                };
                if rng.chance(1, 3) {
                    required.push((rng.below(5) as usize, true));
                }
            }
        }
        _ => {
            tags.push("ord.unrelated".into());
            delivered = (0..rng.below(4)).map(|_| show_r(&(rng.below(5) as usize, rng.chance(1, 2)))).collect();
        }
    }
    if required.is_empty() {
        tags.push("ord.nothing-required".into());
    }
    if delivered.is_empty() {
        tags.push("ord.nothing-delivered".into());
    }
    let d = if delivered.is_empty() { "-".to_string() } else { delivered.join(",") };
    let r = if required.is_empty() { "-".to_string() } else { required.iter().map(show_r).collect::<Vec<_>>().join(",") };
    tags.push("nt".into());
    Case { line: format!("ord {} {}", d, r), tags }
}

// ------------------------------------------------------------------------------------------------ join operator cases

/// `jop <DB> | sel all j <kind> t0 t1 (on E | -) - g0 a0 star o0 lim- off-`: the join of the two tables of the database
/// is handed to the implementation rules through the facade (`verif::plan::run_join_operators`) and **every** physical
/// join operator they offer is run directly on the two inputs — the cost model has no say.  Answer: one
/// `<Operator>=<result>` per offered operator (NestedLoopJoin always; HashJoin and MergeJoin for a pure conjunction of
/// `column = column` over both sides), result = `Rset:` rows in canonical order or `E<class>`.
fn run_jop_case(line: &str) -> String {
    let Some(rest) = line.strip_prefix("jop ") else { return "bad-op".into() };
    let Some((dbw, stmt)) = rest.split_once(" | ") else { return "bad-op".into() };
    let Some((db, stmts)) = parse_case(&format!("sql {} ; {}", dbw.trim(), stmt)) else { return "bad-op".into() };
    let [Stmt::Select(q)] = stmts.as_slice() else { return "bad-op".into() };
    let From::Join(kind, l, r, on) = &q.from else { return "bad-op".into() };
    if db.len() != 2 || !matches!(**l, From::Table(0)) || !matches!(**r, From::Table(1)) {
        return "bad-op".into();
    }
    let plain = q.where_.is_none() && q.aggs.is_empty() && q.group_by.is_empty() && q.items.is_none() && q.order_by.is_empty()
        && q.limit.is_none() && q.offset.is_none() && !q.distinct && q.having.is_none();
    if !plain {
        return "bad-op".into();
    }
    let vty = |t: Ty| match t {
        Ty::Int => Some(vp::VTy::Int),
        Ty::BigInt => Some(vp::VTy::BigInt),
        Ty::Bool => Some(vp::VTy::Bool),
        Ty::Text => Some(vp::VTy::Text),
        _ => None,
    };
    let mut vts: Vec<vp::VTable> = Vec::new();
    for t in &db {
        let Some(cols) = t.tys.iter().map(|t| vty(*t).map(|v| (v, false))).collect::<Option<Vec<_>>>() else { return "bad-op".into() };
        vts.push(vp::VTable { cols, indexes: vec![] });
    }
    let vlit = |v: &Val| match v {
        Val::Null | Val::F64(_) => vp::VLit::Null,
        Val::Int(i) => vp::VLit::Int(*i as i64),
        Val::Bool(b) => vp::VLit::Bool(*b),
        Val::Text(t) => vp::VLit::Text(t.clone()),
    };
    let rows = |t: &Table| -> Vec<Vec<vp::VLit>> { t.rows.iter().map(|r| r.iter().map(vlit).collect()).collect() };
    let tables: [vp::VTable; 2] = [vts[0].clone(), vts[1].clone()];
    let on_v = on.as_ref().map(to_vexpr);
    let unv = |v: &vp::VLit| match v {
        vp::VLit::Null => Val::Null,
        vp::VLit::Int(i) => Val::Int(*i as i128),
        vp::VLit::Bool(b) => Val::Bool(*b),
        vp::VLit::Text(t) => Val::Text(t.clone()),
    };
    match vp::run_join_operators(&tables, kind, on_v.as_ref(), &rows(&db[0]), &rows(&db[1])) {
        Err(e) => format!("jop-error ## {}", e),
        Ok(ops) => ops
            .iter()
            .map(|(name, res)| match res {
                Ok(rs) => {
                    let rows: Vec<Vec<Val>> = rs.iter().map(|r| r.iter().map(unv).collect()).collect();
                    format!("{}=Rset:{}", name, show_rows(&rows, true))
                }
                Err(e) => format!("{}=E{}", name, err_class(e)),
            })
            .collect::<Vec<_>>()
            .join(" ; "),
    }
}

/// two small inputs with NULL keys and duplicates on both sides, every join kind, mostly pure equi conditions
fn gen_jop_case(rng: &mut Rng) -> Case {
    let mut tags: Vec<String> = vec!["jop".into(), "nt".into()];
    let text_keys = rng.chance(1, 6);
    let mixed = !text_keys && rng.chance(1, 6);
    let key_ty = |rng: &mut Rng, side: usize| -> Ty {
        if text_keys {
            Ty::Text
        } else if mixed {
            if side == 0 { Ty::Int } else { Ty::BigInt }
        } else if rng.chance(1, 8) {
            Ty::BigInt
        } else {
            Ty::Int
        }
    };
    if text_keys {
        tags.push("jop.text-keys".into());
    }
    if mixed {
        tags.push("jop.int-bigint-keys".into());
    }
    let dom = rng.range(2, 4) as u64;
    let null_rate = *rng.pick(&[0u64, 3, 3, 4, 6]);
    let mut db: Vec<Table> = Vec::new();
    for side in 0..2 {
        let w = rng.range(1, 3) as usize;
        // column 0 and (if there) column 1 are key columns; a further column is an INT payload
        let mut tys: Vec<Ty> = Vec::new();
        for c in 0..w {
            tys.push(if c < 2 { key_ty(rng, side) } else { Ty::Int });
        }
        let n = *rng.pick(&[0usize, 1, 2, 3, 4, 5, 6, 8]);
        let rows: Vec<Vec<Val>> = (0..n)
            .map(|_| {
                tys.iter()
                    .map(|t| {
                        if null_rate > 0 && rng.chance(1, null_rate) {
                            Val::Null
                        } else if *t == Ty::Text {
                            Val::Text(TEXTS[rng.below(dom) as usize].as_bytes().to_vec())
                        } else {
                            Val::Int(rng.below(dom) as i128)
                        }
                    })
                    .collect()
            })
            .collect();
        db.push(Table { tys, rows });
    }
    let (lw, rw) = (db[0].tys.len(), db[1].tys.len());
    let nulls = |t: &Table| t.rows.iter().any(|r| r[0] == Val::Null);
    if nulls(&db[0]) && nulls(&db[1]) {
        tags.push("jop.null-keys-both-sides".into());
    }
    if db[0].rows.is_empty() || db[1].rows.is_empty() {
        tags.push("jop.empty-input".into());
    }
    let kind = *rng.pick(&["inner", "left", "right", "full"]);
    tags.push(format!("jop.{}", kind));
    let eq = |rng: &mut Rng, l: usize, r: usize| if rng.chance(1, 3) { cmp("eq", E::Col(lw + r), E::Col(l)) } else { cmp("eq", E::Col(l), E::Col(lw + r)) };
    let mut cs: Vec<E> = Vec::new();
    let shape = rng.below(10);
    match shape {
        0..=6 => {
            tags.push("jop.equi".into());
            cs.push(eq(rng, 0, 0));
            if lw > 1 && rw > 1 && rng.chance(1, 2) {
                tags.push("jop.equi.2keys".into());
                cs.push(eq(rng, 1, 1));
            }
            if rng.chance(1, 2) {
                cs.reverse();
            }
        }
        7 => {
            tags.push("jop.equi-and-more".into());
            cs.push(eq(rng, 0, 0));
            let extra = if text_keys {
                E::IsNull(true, b(E::Col(rng.below((lw + rw) as u64) as usize)))
            } else {
                match rng.below(3) {
                    0 => cmp(*rng.pick(&["lt", "ge", "ne"]), E::Col(rng.below(lw as u64) as usize), lit_i(rng.below(dom) as i128)),
                    1 => cmp(*rng.pick(&["le", "gt"]), E::Col(lw - 1), E::Col(lw + rw - 1)),
                    _ => E::IsNull(rng.chance(1, 2), b(E::Col(lw + rng.below(rw as u64) as usize))),
                }
            };
            cs.push(extra);
        }
        8 => {
            tags.push("jop.theta".into());
            cs.push(cmp(*rng.pick(&["lt", "le", "ne", "ge"]), E::Col(0), E::Col(lw)));
        }
        _ => tags.push("jop.no-condition".into()),
    }
    let q = Select {
        distinct: false,
        from: From::Join(kind, b2(From::Table(0)), b2(From::Table(1)), conj(cs)),
        where_: None,
        group_by: vec![],
        aggs: vec![],
        items: None,
        order_by: vec![],
        limit: None,
        offset: None,
        having: None,
    };
    Case { line: format!("jop {} | {}", show_db(&db), show_stmt(&Stmt::Select(q))), tags }
}

// generator of rule-level cases

struct RG<'a> {
    rng: &'a mut Rng,
    tables: Vec<Vec<(Ty, bool)>>,
}

impl<'a> RG<'a> {
    fn lit(&mut self, ty: Ty) -> E {
        if self.rng.chance(1, 12) {
            return E::Lit(Val::Null);
        }
        match ty {
            Ty::Int | Ty::BigInt => {
                if self.rng.chance(1, 10) {
                    lit_i(*self.rng.pick(&[3_000_000_000i128, -2147483649, 2147483647]))
                } else {
                    lit_i(self.rng.range(-3, 12) as i128)
                }
            }
            Ty::Bool => E::Lit(Val::Bool(self.rng.chance(1, 2))),
            Ty::Text => E::Lit(Val::Text(self.rng.pick(&TEXTS).as_bytes().to_vec())),
            // (the generators of this engine build no DOUBLE columns)
            Ty::Double | Ty::UInt | Ty::BigUInt | Ty::Float => E::Lit(Val::Null),
        }
    }

    fn atom(&mut self, cols: &[(usize, Ty)]) -> E {
        let (c, ty) = *self.rng.pick(cols);
        let col = E::Col(c);
        let same: Vec<usize> = cols.iter().filter(|x| x.1 == ty || (is_int(x.1) && is_int(ty))).map(|x| x.0).collect();
        match self.rng.below(14) {
            0..=3 => {
                let l = self.lit(ty);
                cmp(*self.rng.pick(&["eq", "ne", "lt", "le", "gt", "ge"]), col, l)
            }
            4 | 5 => {
                let l = self.lit(ty);
                cmp(*self.rng.pick(&["eq", "lt", "le", "gt", "ge"]), l, col)
            }
            6 | 7 => cmp(*self.rng.pick(&["eq", "eq", "lt", "ne"]), col, E::Col(*self.rng.pick(&same))),
            8 => E::IsNull(self.rng.chance(1, 2), b(col)),
            9 => {
                let (lo, hi) = (self.lit(ty), self.lit(ty));
                E::Between(self.rng.chance(1, 3), b(col), b(lo), b(hi))
            }
            10 => {
                let xs = vec![self.lit(ty), E::Col(*self.rng.pick(&same))];
                E::InList(self.rng.chance(1, 3), b(col), xs)
            }
            11 if is_int(ty) => {
                let l = self.lit(ty);
                cmp("eq", E::Arith(*self.rng.pick(&["add", "sub", "mul"]), b(col), b(E::Col(*self.rng.pick(&same)))), l)
            }
            12 if is_int(ty) => {
                let l = self.lit(ty);
                cmp("gt", E::Neg(b(col)), l)
            }
            13 if ty == Ty::Text => E::Like(self.rng.chance(1, 3), b(col), b(E::Lit(Val::Text(b"a%".to_vec())))),
            _ => {
                let l = self.lit(ty);
                cmp("eq", col, l)
            }
        }
    }

    fn pred(&mut self, cols: &[(usize, Ty)], depth: u32) -> E {
        if depth == 0 || cols.is_empty() {
            if cols.is_empty() {
                return cmp("eq", lit_i(1), lit_i(1));
            }
            return self.atom(cols);
        }
        match self.rng.below(10) {
            0..=5 => and(self.pred(cols, depth - 1), self.pred(cols, depth - 1)),
            6 => E::Or(b(self.pred(cols, depth - 1)), b(self.pred(cols, depth - 1))),
            7 => E::Not(b(self.pred(cols, depth - 1))),
            _ => self.atom(cols),
        }
    }

    /// a plan with its output column types
    fn plan(&mut self, depth: u32) -> (vp::VPlan, Vec<Ty>) {
        let leaf = depth == 0 || self.rng.chance(1, 4);
        if leaf {
            let t = self.rng.below(self.tables.len() as u64) as usize;
            return (vp::VPlan::Scan(t), self.tables[t].iter().map(|c| c.0).collect());
        }
        match self.rng.below(10) {
            0..=3 => {
                let (c, tys) = self.plan(depth - 1);
                let cols: Vec<(usize, Ty)> = tys.iter().copied().enumerate().collect();
                let d = self.rng.below(3) as u32;
                let e = self.pred(&cols, d);
                (vp::VPlan::Filter(to_vexpr(&e), Box::new(c)), tys)
            }
            4 | 5 => {
                let (c, tys) = self.plan(depth - 1);
                let n = self.rng.range(1, 4) as usize;
                let mut items = Vec::new();
                let mut out = Vec::new();
                let plain = self.rng.chance(3, 4);
                for _ in 0..n {
                    let i = self.rng.below(tys.len() as u64) as usize;
                    if !plain && is_int(tys[i]) && self.rng.chance(1, 2) {
                        items.push(E::Arith("add", b(E::Col(i)), b(lit_i(1))));
                        out.push(Ty::BigInt);
                    } else {
                        items.push(E::Col(i));
                        out.push(tys[i]);
                    }
                }
                (vp::VPlan::Project(items.iter().map(to_vexpr).collect(), Box::new(c)), out)
            }
            _ => {
                let (l, lt) = self.plan(depth - 1);
                let (r, rt) = self.plan(depth.saturating_sub(2));
                let mut tys = lt.clone();
                tys.extend(rt.iter().copied());
                let kind = *self.rng.pick(&["inner", "inner", "inner", "cross", "left", "right", "full"]);
                let on = if kind == "cross" && self.rng.chance(2, 3) {
                    None
                } else {
                    let cols: Vec<(usize, Ty)> = tys.iter().copied().enumerate().collect();
                    let d = self.rng.below(3) as u32;
                    Some(to_vexpr(&self.pred(&cols, d)))
                };
                (vp::VPlan::Join(kind, on, Box::new(l), Box::new(r)), tys)
            }
        }
    }
}

fn gen_rule_case(rng: &mut Rng) -> Case {
    loop {
        let c = gen_rule_case_once(rng);
        if let Some(c) = c {
            return c;
        }
    }
}

fn gen_rule_case_once(rng: &mut Rng) -> Option<Case> {
    let nt = rng.range(1, 3) as usize;
    let mut tables: Vec<Vec<(Ty, bool)>> = Vec::new();
    let mut ixs: Vec<Ix> = Vec::new();
    for t in 0..nt {
        let n = rng.range(1, 4) as usize;
        let cols: Vec<(Ty, bool)> =
            (0..n).map(|_| (*rng.pick(&[Ty::Int, Ty::Int, Ty::BigInt, Ty::Text, Ty::Bool]), rng.chance(1, 3))).collect();
        for _ in 0..rng.below(3) {
            let mut cs: Vec<usize> = (0..n).collect();
            rng.shuffle(&mut cs);
            cs.truncate(rng.range(1, 2.min(n as i64)) as usize);
            ixs.push(Ix { table: t, cols: cs });
        }
        tables.push(cols);
    }
    let mut g = RG { rng, tables: tables.clone() };
    // shapes the rules look for at the root, on top of random sub-plans
    let (plan, _) = match g.rng.below(8) {
        0 | 1 => {
            // a filter over a table scan (index scan rule): mostly conjunctions of comparisons with literals
            let t = g.rng.below(nt as u64) as usize;
            let cols: Vec<(usize, Ty)> = tables[t].iter().map(|c| c.0).enumerate().collect();
            let d = g.rng.range(0, 2) as u32;
            let e = g.pred(&cols, d);
            (vp::VPlan::Filter(to_vexpr(&e), Box::new(vp::VPlan::Scan(t))), vec![])
        }
        _ => {
            let d = g.rng.range(1, 3) as u32;
            g.plan(d)
        }
    };
    // A join of a plan with itself is left out: whether the memo takes the two inputs for one group depends on the
    // iteration order of a HashMap (Schema's Debug output is part of the memo hash), and with it whether the commuted
    // join counts as new — either outcome is sound, but the outcome is not a function of the case.
    if let vp::VPlan::Join(_, _, l, r) = &plan {
        if l == r {
            return None;
        }
    }
    let tw: Vec<String> = tables
        .iter()
        .map(|cols| {
            cols.iter()
                .map(|(ty, nn)| {
                    let ch = match ty {
                        Ty::Int => 'I',
                        Ty::BigInt => 'B',
                        Ty::Bool => 'O',
                        Ty::Text => 'S',
                        Ty::Double => 'D',
                        Ty::UInt => 'U',
                        Ty::BigUInt => 'W',
                        Ty::Float => 'F',
                    };
                    if *nn { ch.to_ascii_lowercase() } else { ch }
                })
                .collect()
        })
        .collect();
    let mut words = Vec::new();
    show_vplan(&plan, &mut words);
    let line = format!("rule {} {} | {}", tw.join("/"), show_ixs(&ixs), words.join(" "));
    // which rules really fire on it (the facade is pure: no database, no threads)
    let vt: Vec<vp::VTable> = tables
        .iter()
        .enumerate()
        .map(|(t, cols)| vp::VTable {
            cols: cols
                .iter()
                .map(|(ty, nn)| {
                    (
                        match ty {
                            Ty::Int => vp::VTy::Int,
                            Ty::BigInt => vp::VTy::BigInt,
                            Ty::Bool => vp::VTy::Bool,
                            // (no DOUBLE columns in rule cases)
                            Ty::Text | Ty::Double | Ty::UInt | Ty::BigUInt | Ty::Float => vp::VTy::Text,
                        },
                        *nn,
                    )
                })
                .collect(),
            indexes: ixs.iter().filter(|x| x.table == t).map(|x| x.cols.clone()).collect(),
        })
        .collect();
    let mut tags = vec!["rule".to_string()];
    if let Ok(rs) = vp::apply_rules(&vt, &plan) {
        let mut any = false;
        for (name, alts) in rs {
            if !alts.is_empty() {
                any = true;
                tags.push(format!("rule.fires.{}", name));
            }
        }
        if !any {
            tags.push("rule.fires.none".into());
        }
    }
    tags.push("nt".into());
    Some(Case { line, tags })
}

// ------------------------------------------------------------------------------------------------ generation

const TEXTS: [&str; 14] = ["a", "ab", "abc", "b", "ba", "bb", "c", "ca", "d", "x", "xy", "y", "zz", "m"];

#[derive(Clone, Copy, PartialEq, Debug)]
enum Size {
    Tiny,
    Small,
    Medium,
    Big,
}

struct G<'a> {
    rng: &'a mut Rng,
    tags: BTreeSet<String>,
    db: Vec<Table>,
    ixs: Vec<Ix>,
    /// columns whose values are distinct and non-NULL (column 0 and every indexed column)
    uniq: Vec<BTreeSet<usize>>,
    /// current contents (simulated)
    cur: Vec<Vec<Vec<Val>>>,
    /// next fresh value of every unique integer column
    fresh: Vec<Vec<i128>>,
    /// unique keys (whole rows) deleted so far, for re-insertion
    deleted: Vec<Vec<Vec<Val>>>,
    /// the one known-finding region this case may enter (cfg/C06.py); `None` for at least 70 % of the cases
    region: Region,
    /// rows ever inserted into each table (every inserted row adds a version to the table's catalog row)
    inserted: Vec<usize>,
    /// ANALYZE may be used (at most three relations, or the region `CatalogGrowth`)
    allow_analyze: bool,
}

#[derive(Clone, Copy, PartialEq, Debug)]
enum Region {
    None,
    /// UPDATE of a column that belongs to a unique index (the index keeps the old key: pinned by a test)
    UpdateIndexed,
    /// DELETE + INSERT of the same unique key inside a session that is rolled back (the index entry is replaced)
    ReinsertInRollback,
    /// more than three relations whose catalog rows grow (many inserted rows, ANALYZE): the catalog B-tree gets a
    /// second leaf and its dividers share overflow chains with the leaf cells ("Expected overflow frame")
    CatalogGrowth,
    /// a unique index over an INT and a BIGINT column: the uniqueness probe panics (key alignment)
    MixedKey,
}

fn b(e: E) -> Box<E> {
    Box::new(e)
}
fn lit_i(i: i128) -> E {
    E::Lit(Val::Int(i))
}
fn cmp(op: &'static str, a: E, c: E) -> E {
    E::Cmp(op, b(a), b(c))
}
fn and(a: E, c: E) -> E {
    E::And(b(a), b(c))
}

/// three-valued evaluation of the restricted predicates the history uses (for the generator's simulation only)
fn sim_val(e: &E, row: &[Val]) -> Val {
    match e {
        E::Lit(v) => v.clone(),
        E::Col(i) => row.get(*i).cloned().unwrap_or(Val::Null),
        E::Arith(op, a, c) => match (sim_val(a, row), sim_val(c, row)) {
            (Val::Int(x), Val::Int(y)) => match *op {
                "add" => Val::Int(x + y),
                "sub" => Val::Int(x - y),
                _ => Val::Null,
            },
            _ => Val::Null,
        },
        E::Cmp(op, a, c) => {
            let (x, y) = (sim_val(a, row), sim_val(c, row));
            let o = match (&x, &y) {
                (Val::Int(p), Val::Int(q)) => p.cmp(q),
                (Val::Text(p), Val::Text(q)) => p.cmp(q),
                (Val::Bool(p), Val::Bool(q)) => p.cmp(q),
                _ => return Val::Null,
            };
            use std::cmp::Ordering::*;
            Val::Bool(match *op {
                "eq" => o == Equal,
                "ne" => o != Equal,
                "lt" => o == Less,
                "le" => o != Greater,
                "gt" => o == Greater,
                _ => o != Less,
            })
        }
        E::And(a, c) => match (sim_val(a, row), sim_val(c, row)) {
            (Val::Bool(false), _) | (_, Val::Bool(false)) => Val::Bool(false),
            (Val::Bool(true), Val::Bool(true)) => Val::Bool(true),
            _ => Val::Null,
        },
        E::IsNull(neg, a) => Val::Bool((sim_val(a, row) == Val::Null) != *neg),
        _ => Val::Null,
    }
}

fn sim_true(w: &Option<E>, row: &[Val]) -> bool {
    match w {
        None => true,
        Some(e) => sim_val(e, row) == Val::Bool(true),
    }
}

impl<'a> G<'a> {
    fn tag(&mut self, t: &str) {
        self.tags.insert(t.to_string());
    }

    fn plain_val(&mut self, ty: Ty, nullable: bool) -> Val {
        if nullable && self.rng.chance(1, 5) {
            return Val::Null;
        }
        match ty {
            Ty::Int | Ty::BigInt => {
                if self.rng.chance(1, 10) {
                    Val::Int(self.rng.range(-1000, 1000) as i128)
                } else {
                    Val::Int(self.rng.range(-3, 12) as i128)
                }
            }
            Ty::Bool => Val::Bool(self.rng.chance(1, 2)),
            Ty::Text => Val::Text(self.rng.pick(&TEXTS).as_bytes().to_vec()),
            Ty::Double | Ty::UInt | Ty::BigUInt | Ty::Float => Val::Null,
        }
    }

    fn make_db(&mut self) {
        // The catalog keeps one row per relation (table or index) and the row of a table grows with every inserted row
        // and every ANALYZE.  As long as there are at most three relations the catalog tree is a single leaf whatever
        // the rows' sizes; with more relations it stays one while the database is small.  Beyond that lies a listed
        // finding (catalog B-tree, not C06's mechanism), entered only by the cases of region `CatalogGrowth`.
        let few_relations = self.region != Region::CatalogGrowth && self.rng.chance(1, 2);
        let ntables = if few_relations { *self.rng.pick(&[1usize, 1, 2, 2, 2]) } else { *self.rng.pick(&[1usize, 2, 2, 2, 3, 3]) };
        let mut index_budget = if few_relations { 3 - ntables } else { usize::MAX };
        // ANALYZE adds a statistics blob to every catalog row: two relations of any size, or three small ones
        let mut small_only = false;
        if few_relations && ntables == 2 && self.rng.chance(1, 2) {
            small_only = true;
        }
        if few_relations && !small_only && index_budget + ntables > 2 {
            index_budget = 2 - ntables.min(2);
        }
        self.allow_analyze = few_relations || self.region == Region::CatalogGrowth;
        self.tag(if self.region == Region::CatalogGrowth {
            "reg.catalog-growth"
        } else if few_relations {
            "shape.few-relations"
        } else {
            "shape.small-db"
        });
        let profile = if (few_relations && !small_only) || self.region == Region::CatalogGrowth { self.rng.below(10) } else { self.rng.below(5) };
        for k in 0..ntables {
            let ncols = self.rng.range(2, 4) as usize;
            let mut tys = vec![Ty::Int];
            for _ in 1..ncols {
                tys.push(*self.rng.pick(&[Ty::Int, Ty::Int, Ty::Int, Ty::BigInt, Ty::Text, Ty::Bool]));
            }
            // index
            let mut uniq: BTreeSet<usize> = BTreeSet::new();
            uniq.insert(0);
            if self.region == Region::MixedKey && k == 0 {
                tys[1] = Ty::BigInt;
                uniq.insert(1);
                self.ixs.push(Ix { table: 0, cols: vec![0, 1] });
                self.tag("reg.mixed-composite-key");
                index_budget = index_budget.saturating_sub(1);
            } else if index_budget > 0 && self.rng.chance(4, 5) {
                index_budget -= 1;
                let ints: Vec<usize> = (0..ncols).filter(|c| is_int(tys[*c])).collect();
                let texts: Vec<usize> = (0..ncols).filter(|c| tys[*c] == Ty::Text).collect();
                let kind = self.rng.below(20);
                // composite keys only over columns of one type (a key of INT and BIGINT columns panics in the tuple
                // builder: alignment padding inside the key is not counted, types/core.rs:333 — C18's area)
                let same: Vec<usize> = {
                    let i32s: Vec<usize> = ints.iter().copied().filter(|c| tys[*c] == Ty::Int).collect();
                    let i64s: Vec<usize> = ints.iter().copied().filter(|c| tys[*c] == Ty::BigInt).collect();
                    if i64s.len() >= 2 { i64s } else { i32s }
                };
                let cols: Vec<usize> = if kind < 3 && same.len() >= 2 {
                    self.tag("ix.two-col");
                    let mut cs = same.clone();
                    self.rng.shuffle(&mut cs);
                    cs.truncate(2);
                    cs
                } else if kind < 5 && !texts.is_empty() {
                    self.tag("ix.text");
                    vec![*self.rng.pick(&texts)]
                } else if kind < 10 {
                    self.tag("ix.on-c0");
                    vec![0]
                } else {
                    self.tag("ix.single");
                    vec![*self.rng.pick(&ints)]
                };
                // every column of a unique index is itself kept unique and non-NULL (a stronger invariant than the
                // index needs: NULL keys and duplicate parts are out of reach, see cfg/C06.py)
                for c in &cols {
                    uniq.insert(*c);
                }
                self.ixs.push(Ix { table: k, cols });
            } else {
                self.tag("ix.none");
            }
            let size = match (profile, k) {
                (0, _) => Size::Tiny,
                (1..=4, _) => Size::Small,
                (5 | 6, 0) => Size::Tiny,
                (5 | 6, _) => Size::Medium,
                (7, 0) => Size::Medium,
                (7, _) => Size::Tiny,
                (8, 0) => Size::Big,
                (8, _) => Size::Small,
                (_, 0) => Size::Small,
                (_, _) => Size::Big,
            };
            let nrows = match size {
                Size::Tiny => self.rng.range(0, 3),
                Size::Small => self.rng.range(3, 9),
                Size::Medium => self.rng.range(25, 60),
                Size::Big => self.rng.range(150, 320),
            } as usize;
            self.tag(&format!("size.{:?}", size).to_lowercase());
            // distinct values for the unique columns
            let mut pools: BTreeMap<usize, Vec<Val>> = BTreeMap::new();
            let mut fresh = vec![0i128; ncols];
            for &c in &uniq {
                match tys[c] {
                    Ty::Text => {
                        // distinct words: base words, then numbered ones
                        let mut ws: Vec<Val> = (0..nrows + 40)
                            .map(|i| {
                                if i < TEXTS.len() { Val::Text(TEXTS[i].as_bytes().to_vec()) } else { Val::Text(format!("w{:04}", i).into_bytes()) }
                            })
                            .collect();
                        fresh[c] = (nrows + 40) as i128;
                        let keep = ws.split_off(nrows.min(ws.len()));
                        drop(keep);
                        self.rng.shuffle(&mut ws);
                        pools.insert(c, ws);
                    }
                    _ => {
                        let step = if c == 0 { 1 } else { self.rng.range(1, 3) as i128 };
                        let base = if c == 0 { 1 } else { self.rng.range(-5, 10) as i128 };
                        let mut vs: Vec<Val> = (0..nrows as i128).map(|i| Val::Int(base + i * step)).collect();
                        fresh[c] = base + nrows as i128 * step + 1;
                        if c != 0 || self.rng.chance(1, 2) {
                            self.rng.shuffle(&mut vs);
                        }
                        pools.insert(c, vs);
                    }
                }
            }
            // NULLs in indexed columns other than c0 (such rows have no index entry; NULL never collides), in some tables
            let null_keys = self.region != Region::MixedKey && self.rng.chance(1, 3);
            if null_keys && uniq.len() > 1 {
                self.tag("ix.null-keys");
            }
            let mut rows = Vec::new();
            for i in 0..nrows {
                let row: Vec<Val> = (0..ncols)
                    .map(|c| {
                        if uniq.contains(&c) {
                            if c != 0 && null_keys && self.rng.chance(1, 5) { Val::Null } else { pools[&c][i].clone() }
                        } else {
                            self.plain_val(tys[c], true)
                        }
                    })
                    .collect();
                rows.push(row);
            }
            self.cur.push(rows.clone());
            self.inserted.push(rows.len());
            self.db.push(Table { tys, rows });
            self.uniq.push(uniq);
            self.fresh.push(fresh);
            self.deleted.push(Vec::new());
        }
    }

    fn fresh_val(&mut self, t: usize, c: usize) -> Val {
        let v = self.fresh[t][c];
        self.fresh[t][c] += 1 + self.rng.below(3) as i128;
        match self.db[t].tys[c] {
            Ty::Text => Val::Text(format!("w{:04}", v).into_bytes()),
            _ => Val::Int(v),
        }
    }

    fn new_row(&mut self, t: usize) -> Vec<Val> {
        let tys = self.db[t].tys.clone();
        (0..tys.len())
            .map(|c| {
                if self.uniq[t].contains(&c) {
                    if c != 0 && self.region != Region::MixedKey && self.rng.chance(1, 10) { Val::Null } else { self.fresh_val(t, c) }
                } else {
                    self.plain_val(tys[c], true)
                }
            })
            .collect()
    }

    /// an existing value of column c of table t (or a made-up one)
    fn some_val(&mut self, t: usize, c: usize) -> Val {
        let n = self.cur[t].len();
        if n > 0 && self.rng.chance(4, 5) {
            let v = self.cur[t][self.rng.below(n as u64) as usize][c].clone();
            if v != Val::Null {
                return v;
            }
        }
        let ty = self.db[t].tys[c];
        self.plain_val(ty, false)
    }

    /// a simple predicate the simulation understands, over table t
    fn hist_pred(&mut self, t: usize) -> Option<E> {
        let tys = self.db[t].tys.clone();
        let ix_cols: Vec<usize> = self.ixs.iter().filter(|x| x.table == t).flat_map(|x| x.cols.clone()).filter(|c| is_int(tys[*c])).collect();
        let ints: Vec<usize> = (0..tys.len()).filter(|c| is_int(tys[*c])).collect();
        match self.rng.below(10) {
            0 => None,
            1..=3 => {
                // one row by id
                let v = self.some_val(t, 0);
                Some(cmp("eq", E::Col(0), E::Lit(v)))
            }
            4..=7 if !ix_cols.is_empty() => {
                // through the index: point or range on an indexed column
                self.tag("hist.where-indexed");
                let c = *self.rng.pick(&ix_cols);
                let v = self.some_val(t, c);
                match self.rng.below(4) {
                    0 => Some(cmp("eq", E::Col(c), E::Lit(v))),
                    1 => Some(cmp(*self.rng.pick(&["lt", "le", "gt", "ge"]), E::Col(c), E::Lit(v))),
                    2 => Some(cmp(*self.rng.pick(&["lt", "le", "gt", "ge"]), E::Lit(v), E::Col(c))),
                    _ => {
                        let w = match &v {
                            Val::Int(i) => Val::Int(*i + self.rng.range(0, 6) as i128),
                            o => o.clone(),
                        };
                        Some(and(cmp("ge", E::Col(c), E::Lit(v)), cmp(*self.rng.pick(&["lt", "le"]), E::Col(c), E::Lit(w))))
                    }
                }
            }
            _ => {
                let c = *self.rng.pick(&ints);
                let v = self.some_val(t, c);
                let p = cmp(*self.rng.pick(&["eq", "ne", "lt", "ge"]), E::Col(c), E::Lit(v));
                if self.rng.chance(1, 4) { Some(and(p, E::IsNull(true, b(E::Col(c))))) } else { Some(p) }
            }
        }
    }

    fn sim_insert(&mut self, t: usize, rows: &[Vec<Val>]) {
        self.inserted[t] += rows.len();
        self.cur[t].extend(rows.iter().cloned());
    }

    fn sim_delete(&mut self, t: usize, w: &Option<E>) {
        let (gone, kept): (Vec<_>, Vec<_>) = self.cur[t].drain(..).partition(|r| sim_true(w, r));
        self.cur[t] = kept;
        self.deleted[t].extend(gone);
    }

    fn sim_update(&mut self, t: usize, sets: &[(usize, E)], w: &Option<E>) {
        for r in self.cur[t].iter_mut() {
            if sim_true(w, r) {
                let old = r.clone();
                for (c, e) in sets {
                    r[*c] = sim_val(e, &old);
                }
            }
        }
    }

    fn insert_stmt(&mut self, t: usize) -> Stmt {
        let n = self.rng.range(1, 3) as usize;
        let rows: Vec<Vec<Val>> = (0..n).map(|_| self.new_row(t)).collect();
        self.sim_insert(t, &rows);
        self.tag("hist.insert");
        Stmt::Insert(t, rows.iter().map(|r| r.iter().map(|v| E::Lit(v.clone())).collect()).collect())
    }

    /// re-insert a row whose unique keys were deleted earlier (the index entries of the dead row are replaced)
    fn reinsert_stmt(&mut self, t: usize) -> Option<Stmt> {
        let row = self.deleted[t].pop()?;
        // its keys must still be free
        for &c in &self.uniq[t] {
            if self.cur[t].iter().any(|r| r[c] == row[c]) {
                return None;
            }
        }
        self.sim_insert(t, &[row.clone()]);
        self.tag("hist.reinsert-deleted-key");
        Some(Stmt::Insert(t, vec![row.iter().map(|v| E::Lit(v.clone())).collect()]))
    }

    fn delete_stmt(&mut self, t: usize) -> Stmt {
        let w = self.hist_pred(t);
        self.sim_delete(t, &w);
        self.tag("hist.delete");
        Stmt::Delete(t, w)
    }

    fn update_stmt(&mut self, t: usize, allow_key: bool) -> Stmt {
        let tys = self.db[t].tys.clone();
        let keyed: Vec<usize> = self.uniq[t].iter().copied().filter(|c| is_int(tys[*c])).collect();
        let indexed: Vec<usize> = self.ixs.iter().filter(|x| x.table == t).flat_map(|x| x.cols.clone()).filter(|c| is_int(tys[*c])).collect();
        let plain: Vec<usize> = (0..tys.len()).filter(|c| !self.uniq[t].contains(c)).collect();
        // outside the region only unique columns without an index get new keys
        let (keyed, indexed) = if self.region == Region::UpdateIndexed {
            (keyed, indexed)
        } else {
            (keyed.into_iter().filter(|c| !indexed.contains(c)).collect::<Vec<_>>(), Vec::new())
        };
        if allow_key && !keyed.is_empty() && (plain.is_empty() || self.rng.chance(1, 2)) {
            // a unique (mostly: indexed) column gets new values
            let c = if !indexed.is_empty() && self.rng.chance(3, 4) { *self.rng.pick(&indexed) } else { *self.rng.pick(&keyed) };
            if indexed.contains(&c) {
                self.tag("reg.update-indexed");
            } else {
                self.tag("hist.update-unique");
            }
            if self.rng.chance(1, 2) || self.cur[t].is_empty() {
                // one row, to a fresh key
                let id = self.some_val(t, 0);
                let v = self.fresh_val(t, c);
                let w = Some(cmp("eq", E::Col(0), E::Lit(id)));
                let sets = vec![(c, E::Lit(v))];
                self.sim_update(t, &sets, &w);
                return Stmt::Update(t, sets, w);
            }
            // every selected row shifted beyond all existing keys: no two rows ever share a key, whatever the order
            let lo = self.cur[t].iter().filter_map(|r| if let Val::Int(i) = r[c] { Some(i) } else { None }).min().unwrap_or(0);
            let hi = self.fresh[t][c].max(lo);
            let shift = hi - lo + 1 + self.rng.below(5) as i128;
            self.fresh[t][c] = hi + shift + 1;
            self.tag("hist.update-key-shift");
            let w = if self.rng.chance(1, 2) { None } else { self.hist_pred(t) };
            let sets = vec![(c, E::Arith("add", b(E::Col(c)), b(lit_i(shift))))];
            self.sim_update(t, &sets, &w);
            return Stmt::Update(t, sets, w);
        }
        if plain.is_empty() {
            return self.insert_stmt(t);
        }
        let c = *self.rng.pick(&plain);
        self.tag("hist.update-plain");
        let e = match tys[c] {
            Ty::Int | Ty::BigInt => {
                if self.rng.chance(1, 2) {
                    E::Arith("add", b(E::Col(c)), b(lit_i(self.rng.range(1, 5) as i128)))
                } else {
                    E::Lit(self.plain_val(tys[c], true))
                }
            }
            ty => E::Lit(self.plain_val(ty, true)),
        };
        let w = self.hist_pred(t);
        let sets = vec![(c, e)];
        self.sim_update(t, &sets, &w);
        Stmt::Update(t, sets, w)
    }

    fn history(&mut self, ops: &mut Vec<Op>) {
        let n = self.rng.range(0, 7) as usize;
        let nt = self.db.len();
        let mut i = 0;
        while i < n {
            i += 1;
            let t = self.rng.below(nt as u64) as usize;
            match self.rng.below(20) {
                0..=3 => ops.push(Op::Stmt(self.insert_stmt(t))),
                4..=8 => ops.push(Op::Stmt(self.update_stmt(t, true))),
                9..=11 => ops.push(Op::Stmt(self.delete_stmt(t))),
                12 => {
                    if let Some(s) = self.reinsert_stmt(t) {
                        ops.push(Op::Stmt(s));
                    } else {
                        let d = self.delete_stmt(t);
                        ops.push(Op::Stmt(d));
                        if let Some(s) = self.reinsert_stmt(t) {
                            ops.push(Op::Stmt(s));
                        }
                    }
                }
                13 if self.region == Region::ReinsertInRollback && !self.cur[t].is_empty() => {
                    // inside a session: delete one row by id and insert a row with the same unique keys again; roll back
                    let saved = (self.cur.clone(), self.deleted.clone());
                    let row = self.cur[t][self.rng.below(self.cur[t].len() as u64) as usize].clone();
                    let w = Some(cmp("eq", E::Col(0), E::Lit(row[0].clone())));
                    ops.push(Op::Begin);
                    self.sim_delete(t, &w);
                    ops.push(Op::Stmt(Stmt::Delete(t, w)));
                    let tys = self.db[t].tys.clone();
                    let again: Vec<Val> =
                        (0..tys.len()).map(|c| if self.uniq[t].contains(&c) { row[c].clone() } else { self.plain_val(tys[c], true) }).collect();
                    self.sim_insert(t, &[again.clone()]);
                    ops.push(Op::Stmt(Stmt::Insert(t, vec![again.iter().map(|v| E::Lit(v.clone())).collect()])));
                    let rollback = self.rng.chance(3, 4);
                    if rollback {
                        self.cur = saved.0;
                        self.deleted = saved.1;
                        ops.push(Op::Rollback);
                        self.tag("reg.reinsert-in-rollback");
                    } else {
                        ops.push(Op::Commit);
                        self.tag("hist.reinsert-in-commit");
                    }
                }
                13..=15 => {
                    // a session: rolled back (inserts and deletes only: a rolled-back UPDATE is C03's pinned finding) or committed
                    let rollback = self.rng.chance(3, 5);
                    let saved = (self.cur.clone(), self.deleted.clone());
                    ops.push(Op::Begin);
                    for _ in 0..self.rng.range(1, 3) {
                        let t = self.rng.below(nt as u64) as usize;
                        let s = match self.rng.below(if rollback { 2 } else { 3 }) {
                            0 => self.insert_stmt(t),
                            1 => self.delete_stmt(t),
                            _ => self.update_stmt(t, true),
                        };
                        ops.push(Op::Stmt(s));
                        // the session reads its own uncommitted changes — through the index and through the table
                        if self.rng.chance(1, 3) {
                            self.tag("q.in-session");
                            let q = self.select();
                            ops.push(Op::Stmt(Stmt::Select(q)));
                        }
                    }
                    if rollback {
                        self.tag("hist.rollback");
                        self.cur = saved.0;
                        self.deleted = saved.1;
                        ops.push(Op::Rollback);
                    } else {
                        self.tag("hist.commit");
                        ops.push(Op::Commit);
                    }
                }
                16 | 17 => {
                    self.tag("hist.vacuum");
                    ops.push(Op::Vacuum);
                }
                _ if self.allow_analyze => {
                    self.tag("hist.analyze");
                    ops.push(self.analyze_op());
                }
                _ => ops.push(Op::Stmt(self.insert_stmt(t))),
            }
        }
    }

    /// `WHERE k1 = v1 [AND k2 = v2]` over the columns of an index, for the key of `row` (a NULL part: `IS NULL`)
    fn key_pred(&mut self, kcols: &[usize], row: &[Val]) -> E {
        let mut cs = Vec::new();
        for &c in kcols {
            let v = row[c].clone();
            cs.push(if v == Val::Null {
                E::IsNull(false, b(E::Col(c)))
            } else if self.rng.chance(1, 4) {
                cmp("eq", E::Lit(v), E::Col(c))
            } else {
                cmp("eq", E::Col(c), E::Lit(v))
            });
        }
        conj(cs).unwrap()
    }

    fn star_query(&self, t: usize, w: Option<E>) -> Op {
        Op::Stmt(Stmt::Select(Select {
            distinct: false,
            from: From::Table(t),
            where_: w,
            group_by: vec![],
            aggs: vec![],
            items: None,
            order_by: vec![],
            limit: None,
            offset: None,
            having: None,
        }))
    }

    /// The family "keys re-used inside one transaction".  Within one session (committed or rolled back) or one
    /// `execute_batch`: rows are deleted and rows with the same indexed keys are inserted again (same or other values in
    /// the remaining columns); the mirror shapes (insert then delete; delete, insert, delete [, insert]); and the key of a
    /// rolled-back INSERT inserted again.  Afterwards every touched key is looked up — the pair forms compare the index
    /// plan with the table scan — before and after VACUUM (and after ANALYZE where it is allowed).
    fn reuse_family(&mut self, ops: &mut Vec<Op>) -> bool {
        let cands: Vec<(usize, usize)> = self
            .ixs
            .iter()
            .enumerate()
            .filter(|(_, x)| self.cur[x.table].len() >= 2)
            .map(|(i, x)| (i, x.table))
            .collect();
        if cands.is_empty() {
            return false;
        }
        let (ixno, t) = *self.rng.pick(&cands);
        let kcols = self.ixs[ixno].cols.clone();
        let tys = self.db[t].tys.clone();
        // 0 delete+reinsert, 1 mirror (insert then delete), 2 delete-insert-delete[-insert], 3 key of a rolled-back insert
        let shape = *self.rng.pick(&[0usize, 0, 0, 0, 1, 2, 2, 3]);
        // 0 session committed, 1 batch, 2 session rolled back
        let form = if shape == 3 {
            2
        } else if self.region == Region::ReinsertInRollback {
            *self.rng.pick(&[2usize, 2, 0, 1])
        } else if shape == 1 {
            *self.rng.pick(&[0usize, 1, 2])
        } else {
            *self.rng.pick(&[0usize, 0, 1, 1])
        };
        self.tag(&format!("fam.reuse.{}", ["delete-insert", "insert-delete", "delete-insert-delete", "after-rolled-back-insert"][shape]));
        self.tag(&format!("fam.form.{}", ["session-commit", "batch", "session-rollback"][form]));
        if form == 2 && (shape == 0 || shape == 2) {
            // the listed finding: the index entry of the old row is replaced and not restored by the rollback
            self.tag("reg.reinsert-in-rollback");
        }
        let saved = (self.cur.clone(), self.deleted.clone());
        let mut touched: Vec<Vec<Val>> = Vec::new(); // rows whose keys are looked up afterwards
        let mut body: Vec<Op> = Vec::new();
        // a row that re-uses the unique keys of `old` (all of them, or the indexed ones only), other columns the same or new
        let reuse = |g: &mut Self, old: &[Val]| -> Vec<Val> {
            let only_index = g.rng.chance(1, 3);
            let same_rest = g.rng.chance(1, 3);
            (0..tys.len())
                .map(|c| {
                    if kcols.contains(&c) {
                        old[c].clone()
                    } else if g.uniq[t].contains(&c) {
                        if only_index { g.fresh_val(t, c) } else { old[c].clone() }
                    } else if same_rest {
                        old[c].clone()
                    } else {
                        g.plain_val(tys[c], true)
                    }
                })
                .collect()
        };
        let del_of = |g: &mut Self, row: &[Val]| -> Stmt {
            // by the indexed key (through the index) or by id
            let w = if g.rng.chance(2, 3) && kcols.iter().all(|c| row[*c] != Val::Null) {
                g.key_pred(&kcols, row)
            } else {
                cmp("eq", E::Col(0), E::Lit(row[0].clone()))
            };
            Stmt::Delete(t, Some(w))
        };
        let ins_of = |rows: &[Vec<Val>]| -> Stmt { Stmt::Insert(t, rows.iter().map(|r| r.iter().map(|v| E::Lit(v.clone())).collect()).collect()) };
        match shape {
            0 => {
                let k = (self.rng.range(1, 3) as usize).min(self.cur[t].len());
                let mut idx: Vec<usize> = (0..self.cur[t].len()).collect();
                self.rng.shuffle(&mut idx);
                let victims: Vec<Vec<Val>> = idx[..k].iter().map(|i| self.cur[t][*i].clone()).collect();
                for v in &victims {
                    let d = del_of(self, v);
                    if let Stmt::Delete(_, w) = &d {
                        self.sim_delete(t, w);
                    }
                    body.push(Op::Stmt(d));
                    touched.push(v.clone());
                }
                let nre = self.rng.range(1, k as i64) as usize;
                let mut news: Vec<Vec<Val>> = victims[..nre].iter().map(|v| reuse(self, v)).collect();
                if self.rng.chance(1, 4) {
                    news.push(self.new_row(t));
                }
                if self.rng.chance(1, 2) || news.len() == 1 {
                    self.sim_insert(t, &news);
                    body.push(Op::Stmt(ins_of(&news)));
                } else {
                    for r in &news {
                        self.sim_insert(t, std::slice::from_ref(r));
                        body.push(Op::Stmt(ins_of(std::slice::from_ref(r))));
                    }
                }
                touched.extend(news);
            }
            1 => {
                let n = self.rng.range(1, 3) as usize;
                let news: Vec<Vec<Val>> = (0..n).map(|_| self.new_row(t)).collect();
                self.sim_insert(t, &news);
                body.push(Op::Stmt(ins_of(&news)));
                let nd = self.rng.range(1, n as i64) as usize;
                for v in news[..nd].to_vec() {
                    let d = del_of(self, &v);
                    if let Stmt::Delete(_, w) = &d {
                        self.sim_delete(t, w);
                    }
                    body.push(Op::Stmt(d));
                }
                if self.rng.chance(1, 2) {
                    let again = reuse(self, &news[0]);
                    self.sim_insert(t, std::slice::from_ref(&again));
                    body.push(Op::Stmt(ins_of(std::slice::from_ref(&again))));
                    touched.push(again);
                }
                touched.extend(news);
            }
            2 => {
                let v = self.cur[t][self.rng.below(self.cur[t].len() as u64) as usize].clone();
                let rounds = self.rng.range(1, 2);
                let mut last = v.clone();
                for r in 0..=rounds {
                    let d = del_of(self, &last);
                    if let Stmt::Delete(_, w) = &d {
                        self.sim_delete(t, w);
                    }
                    body.push(Op::Stmt(d));
                    if r < rounds || self.rng.chance(1, 2) {
                        last = reuse(self, &v);
                        // the same row identity every time: only the indexed key must be the same, the other unique
                        // columns may have become fresh ones
                        self.sim_insert(t, std::slice::from_ref(&last));
                        body.push(Op::Stmt(ins_of(std::slice::from_ref(&last))));
                    }
                }
                touched.push(v);
                touched.push(last);
            }
            _ => {
                let n = self.rng.range(1, 2) as usize;
                let news: Vec<Vec<Val>> = (0..n).map(|_| self.new_row(t)).collect();
                self.sim_insert(t, &news);
                body.push(Op::Stmt(ins_of(&news)));
                touched.extend(news);
            }
        }
        match form {
            0 => {
                ops.push(Op::Begin);
                ops.extend(body);
                ops.push(Op::Commit);
            }
            1 => {
                ops.push(Op::Batch);
                ops.extend(body);
                ops.push(Op::EndBatch);
            }
            _ => {
                ops.push(Op::Begin);
                ops.extend(body);
                ops.push(Op::Rollback);
                self.cur = saved.0;
                self.deleted = saved.1;
            }
        }
        if shape == 3 {
            // the keys of the rolled-back INSERT again: autocommit, a committed session or a batch
            let again: Vec<Vec<Val>> = touched.iter().map(|r| reuse(self, r)).collect();
            let wrap = self.rng.below(3);
            match wrap {
                0 => {}
                1 => ops.push(Op::Begin),
                _ => ops.push(Op::Batch),
            }
            self.sim_insert(t, &again);
            ops.push(Op::Stmt(ins_of(&again)));
            match wrap {
                0 => {}
                1 => ops.push(Op::Commit),
                _ => ops.push(Op::EndBatch),
            }
            touched.extend(again);
        }
        // look every touched key up: through the index and through the table
        touched.truncate(5);
        let mut lookups: Vec<Op> = Vec::new();
        for r in &touched {
            let w = self.key_pred(&kcols, r);
            lookups.push(self.star_query(t, Some(w)));
        }
        if is_int(tys[kcols[0]]) {
            let ks: Vec<i128> = touched.iter().filter_map(|r| if let Val::Int(i) = r[kcols[0]] { Some(i) } else { None }).collect();
            if let (Some(lo), Some(hi)) = (ks.iter().min(), ks.iter().max()) {
                let w = and(cmp("ge", E::Col(kcols[0]), lit_i(*lo)), cmp("le", E::Col(kcols[0]), lit_i(*hi)));
                lookups.push(self.star_query(t, Some(w)));
            }
        }
        ops.extend(lookups.iter().cloned());
        self.tag("hist.vacuum");
        ops.push(Op::Vacuum);
        ops.extend(lookups.iter().cloned());
        if self.allow_analyze && self.rng.chance(1, 2) {
            let a = self.analyze_op();
            ops.push(a);
            ops.extend(lookups.iter().cloned());
        }
        true
    }

    fn analyze_op(&mut self) -> Op {
        let r = *self.rng.pick(&[1000u32, 1000, 500, 100, 10, 1]);
        let m = *self.rng.pick(&[10000usize, 1000, 50, 5, 1]);
        Op::Analyze(r, m)
    }

    // ------------------------------------------------------------------ queries

    /// literal compared with column c (joined-row index) of type ty, drawn near the data of (t, col)
    fn near_lit(&mut self, t: usize, col: usize) -> E {
        if self.rng.chance(1, 14) {
            self.tag("lit.null");
            return E::Lit(Val::Null);
        }
        let ty = self.db[t].tys[col];
        let v = self.some_val(t, col);
        match (ty, v) {
            (Ty::Int | Ty::BigInt, Val::Int(i)) => {
                if self.rng.chance(1, 12) {
                    // a literal outside the 32-bit range against any integer column
                    self.tag("lit.wide");
                    return lit_i(*self.rng.pick(&[3_000_000_000i128, -3_000_000_000, 2147483648, -2147483649]));
                }
                lit_i(i + self.rng.range(-1, 1) as i128)
            }
            (_, v) => E::Lit(v),
        }
    }

    /// an atom over column `jc` of the joined row, which is column `c` of table `t`
    fn atom(&mut self, jc: usize, t: usize, c: usize) -> E {
        let ty = self.db[t].tys[c];
        let col = E::Col(jc);
        match ty {
            Ty::Bool => match self.rng.below(3) {
                0 => col,
                1 => E::Not(b(col)),
                _ => cmp("eq", col, E::Lit(Val::Bool(self.rng.chance(1, 2)))),
            },
            Ty::Text => match self.rng.below(6) {
                0 => E::Like(self.rng.chance(1, 3), b(col), b(E::Lit(Val::Text(self.rng.pick(&["a%", "%b", "_", "%", "x_", "w00%"]).as_bytes().to_vec())))),
                1 => E::IsNull(self.rng.chance(1, 2), b(col)),
                2 => {
                    let l = self.near_lit(t, c);
                    cmp(*self.rng.pick(&["lt", "le", "gt", "ge"]), col, l)
                }
                3 => {
                    let l = self.near_lit(t, c);
                    cmp("eq", l, col)
                }
                _ => {
                    let l = self.near_lit(t, c);
                    cmp(*self.rng.pick(&["eq", "eq", "ne"]), col, l)
                }
            },
            _ => {
                let l = self.near_lit(t, c);
                match self.rng.below(16) {
                    0..=2 => cmp("eq", col, l),
                    3 => cmp("eq", l, col),
                    4..=6 => cmp(*self.rng.pick(&["lt", "le", "gt", "ge"]), col, l),
                    7 | 8 => cmp(*self.rng.pick(&["lt", "le", "gt", "ge"]), l, col),
                    9 => cmp("ne", col, l),
                    10 => {
                        let hi = self.near_lit(t, c);
                        E::Between(self.rng.chance(1, 4), b(col), b(l), b(hi))
                    }
                    11 => {
                        let x = self.near_lit(t, c);
                        E::InList(self.rng.chance(1, 4), b(col), vec![l, x])
                    }
                    12 => E::IsNull(self.rng.chance(1, 2), b(col)),
                    13 => cmp(*self.rng.pick(&["eq", "lt", "ge"]), E::Arith(*self.rng.pick(&["add", "sub"]), b(col), b(lit_i(self.rng.range(0, 3) as i128))), l),
                    14 => cmp(*self.rng.pick(&["eq", "gt"]), E::Neg(b(col)), l),
                    _ => cmp("eq", col, l),
                }
            }
        }
    }

    /// a predicate over the given (joined-row index, table, column) triples; `prefer`: columns to favour (indexed ones)
    fn pred(&mut self, cols: &[(usize, usize, usize)], prefer: &[(usize, usize, usize)], depth: u32) -> E {
        let pick = |g: &mut Self| -> (usize, usize, usize) {
            if !prefer.is_empty() && g.rng.chance(3, 5) { *g.rng.pick(prefer) } else { *g.rng.pick(cols) }
        };
        if depth == 0 {
            let (jc, t, c) = pick(self);
            return self.atom(jc, t, c);
        }
        match self.rng.below(10) {
            0..=5 => {
                self.tag("where.and");
                and(self.pred(cols, prefer, depth - 1), self.pred(cols, prefer, depth - 1))
            }
            6 | 7 => {
                self.tag("where.or");
                E::Or(b(self.pred(cols, prefer, depth - 1)), b(self.pred(cols, prefer, depth - 1)))
            }
            8 => {
                self.tag("where.not");
                E::Not(b(self.pred(cols, prefer, depth - 1)))
            }
            _ => {
                let (jc, t, c) = pick(self);
                self.atom(jc, t, c)
            }
        }
    }

    /// `(A JOIN B ON p(A) AND q(B) [AND A θ B]) JOIN C ON B.x = C.y`: the shape join associativity rewrites into
    /// `A JOIN (B JOIN C)` — the one-sided conjuncts of the inner condition must end up in the right place
    fn from_assoc_bait(&mut self) -> Option<From> {
        let nt = self.db.len();
        let size = |g: &Self, t: usize| (g.cur[t].len() + 8) as u64;
        let pick3: Vec<usize> = (0..3).map(|_| self.rng.below(nt as u64) as usize).collect();
        if pick3.iter().map(|t| size(self, *t)).product::<u64>() > 30_000 {
            return None;
        }
        let (ta, tb, tc) = (pick3[0], pick3[1], pick3[2]);
        let (wa, wb) = (self.db[ta].tys.len(), self.db[tb].tys.len());
        let ints = |g: &Self, t: usize, off: usize| -> Vec<usize> {
            (0..g.db[t].tys.len()).filter(|c| is_int(g.db[t].tys[*c])).map(|c| off + c).collect()
        };
        let (ia, ib, ic) = (ints(self, ta, 0), ints(self, tb, wa), ints(self, tc, wa + wb));
        let mut inner: Vec<E> = Vec::new();
        let ca = self.rng.below(wa as u64) as usize;
        inner.push(self.atom(ca, ta, ca));
        let cb = self.rng.below(wb as u64) as usize;
        inner.push(self.atom(wa + cb, tb, cb));
        if self.rng.chance(1, 3) {
            inner.push(cmp(*self.rng.pick(&["lt", "le", "ne", "ge"]), E::Col(*self.rng.pick(&ia)), E::Col(*self.rng.pick(&ib))));
        }
        if self.rng.chance(1, 2) {
            inner.reverse();
        }
        let mut outer = vec![cmp("eq", E::Col(*self.rng.pick(&ib)), E::Col(*self.rng.pick(&ic)))];
        if self.rng.chance(1, 4) {
            let cc = self.rng.below(self.db[tc].tys.len() as u64) as usize;
            outer.push(self.atom(wa + wb + cc, tc, cc));
        }
        self.tag("join.assoc-bait");
        self.tag("join.inner");
        let ab = From::Join("inner", b2(From::Table(ta)), b2(From::Table(tb)), conj(inner));
        Some(From::Join("inner", b2(ab), b2(From::Table(tc)), conj(outer)))
    }

    fn from(&mut self) -> From {
        if self.rng.chance(1, 10) {
            if let Some(f) = self.from_assoc_bait() {
                return f;
            }
        }
        let nt = self.db.len();
        let n = *self.rng.pick(&[1usize, 1, 1, 2, 2, 2, 3]);
        let t0 = self.rng.below(nt as u64) as usize;
        let mut f = From::Table(t0);
        // the reference evaluator enumerates the whole cross product: keep it below ~30 000 rows
        let size = |g: &Self, t: usize| (g.cur[t].len() + 8) as u64;
        let mut product = size(self, t0);
        for _ in 1..n {
            let fits: Vec<usize> = (0..nt).filter(|t| product * size(self, *t) <= 30_000).collect();
            if fits.is_empty() {
                break;
            }
            let t = *self.rng.pick(&fits);
            product *= size(self, t);
            let kind = *self.rng.pick(&["inner", "inner", "inner", "inner", "left", "right", "full", "cross"]);
            self.tag(&format!("join.{}", kind));
            let (lls, lw) = leaves_of(&f, &self.db);
            let on = if kind == "cross" {
                None
            } else {
                let lcols: Vec<(usize, usize, usize)> =
                    lls.iter().flat_map(|(lt, start)| (0..self.db[*lt].tys.len()).map(move |c| (start + c, *lt, c))).collect();
                let rcols: Vec<(usize, usize, usize)> = (0..self.db[t].tys.len()).map(|c| (lw + c, t, c)).collect();
                let lints: Vec<usize> = lcols.iter().filter(|x| is_int(self.db[x.1].tys[x.2])).map(|x| x.0).collect();
                let rints: Vec<usize> = rcols.iter().filter(|x| is_int(self.db[x.1].tys[x.2])).map(|x| x.0).collect();
                let mut cs: Vec<E> = Vec::new();
                let k = self.rng.below(10);
                if k < 6 {
                    self.tag("join.equi");
                    let (l, r) = (*self.rng.pick(&lints), *self.rng.pick(&rints));
                    cs.push(if self.rng.chance(1, 3) { cmp("eq", E::Col(r), E::Col(l)) } else { cmp("eq", E::Col(l), E::Col(r)) });
                    if self.rng.chance(1, 5) {
                        self.tag("join.equi.2keys");
                        let (l, r) = (*self.rng.pick(&lints), *self.rng.pick(&rints));
                        cs.push(cmp("eq", E::Col(l), E::Col(r)));
                    }
                } else if k < 8 {
                    self.tag("join.theta");
                    let (l, r) = (*self.rng.pick(&lints), *self.rng.pick(&rints));
                    cs.push(cmp(*self.rng.pick(&["lt", "le", "gt", "ge", "ne"]), E::Col(l), E::Col(r)));
                }
                // conjuncts over one side only (they stay in the ON clause for outer joins; the associativity rule moves them)
                if cs.is_empty() || self.rng.chance(1, 3) {
                    self.tag("join.on-one-side");
                    let all: Vec<(usize, usize, usize)> = if self.rng.chance(1, 2) { lcols.clone() } else { rcols.clone() };
                    let x = *self.rng.pick(&all);
                    cs.push(self.atom(x.0, x.1, x.2));
                }
                if self.rng.chance(1, 2) {
                    cs.reverse();
                }
                conj(cs)
            };
            f = From::Join(kind, b2(f), b2(From::Table(t)), on);
        }
        f
    }

    fn select(&mut self) -> Select {
        let from = self.from();
        let (ls, w) = leaves_of(&from, &self.db);
        self.tag(match ls.len() {
            1 => "q.single",
            2 => "q.join2",
            _ => "q.join3",
        });
        let tys = from_tys(&from, &self.db);
        let all: Vec<(usize, usize, usize)> =
            ls.iter().flat_map(|(t, start)| (0..self.db[*t].tys.len()).map(move |c| (start + c, *t, c))).collect();
        let prefer: Vec<(usize, usize, usize)> =
            all.iter().copied().filter(|(_, t, c)| self.ixs.iter().any(|x| x.table == *t && x.cols.contains(c))).collect();
        let where_ = if self.rng.chance(9, 10) {
            // mostly conjunctions (bounds are extracted conjunct by conjunct, conjuncts are pushed one by one)
            let nconj = self.rng.range(1, 3);
            let mut cs = Vec::new();
            for _ in 0..nconj {
                let d = *self.rng.pick(&[0u32, 0, 0, 1, 1, 2]);
                if ls.len() > 1 && self.rng.chance(2, 3) {
                    // a conjunct over one leaf only: can be pushed below the join
                    let (t, start) = *self.rng.pick(&ls);
                    let one: Vec<(usize, usize, usize)> = (0..self.db[t].tys.len()).map(|c| (start + c, t, c)).collect();
                    let pf: Vec<(usize, usize, usize)> = one.iter().copied().filter(|x| prefer.contains(x)).collect();
                    self.tag("where.one-side");
                    cs.push(self.pred(&one, &pf, d));
                } else {
                    cs.push(self.pred(&all, &prefer, d));
                }
            }
            conj(cs)
        } else {
            None
        };
        if let Some(e) = &where_ {
            let mut cs = Vec::new();
            conjuncts(e, &mut cs);
            let indexable = cs.iter().any(|c| match c {
                E::Cmp(op, a, d) if *op != "ne" => match (&**a, &**d) {
                    (E::Col(i), E::Lit(_)) | (E::Lit(_), E::Col(i)) => prefer.iter().any(|p| p.0 == *i),
                    _ => false,
                },
                _ => false,
            });
            if indexable {
                self.tag("where.indexable");
            }
        }
        let mut q = Select { distinct: false, from, where_, group_by: vec![], aggs: vec![], items: None, order_by: vec![], limit: None, offset: None, having: None };
        let kind = self.rng.below(10);
        if kind < 2 {
            self.tag("q.agg");
            let nkeys = self.rng.below(2) as usize;
            for _ in 0..nkeys {
                q.group_by.push(E::Col(self.rng.below(w as u64) as usize));
            }
            for _ in 0..self.rng.range(1, 2) {
                let ints: Vec<usize> = (0..w).filter(|i| is_int(tys[*i])).collect();
                let f = *self.rng.pick(&["cnt*", "cnt", "sum", "min", "max"]);
                let arg = match f {
                    "cnt*" => None,
                    "sum" => Some(E::Col(*self.rng.pick(&ints))),
                    _ => Some(E::Col(self.rng.below(w as u64) as usize)),
                };
                q.aggs.push(super::sql::Agg { f, arg });
            }
            return q;
        }
        let nout;
        if self.rng.chance(1, 2) {
            nout = w;
        } else {
            let n = self.rng.range(1, 3) as usize;
            let mut items = Vec::new();
            for _ in 0..n {
                let i = self.rng.below(w as u64) as usize;
                items.push(if is_int(tys[i]) && self.rng.chance(1, 5) {
                    self.tag("project.arith");
                    E::Arith("add", b(E::Col(i)), b(lit_i(self.rng.range(0, 3) as i128)))
                } else {
                    E::Col(i)
                });
            }
            nout = n;
            q.items = Some(items);
        }
        if self.rng.chance(1, 6) {
            self.tag("q.distinct");
            q.distinct = true;
        }
        match self.rng.below(10) {
            0 | 1 => {
                self.tag("q.orderby.partial");
                let p = self.rng.below(nout as u64) as usize;
                q.order_by.push((p, self.rng.chance(1, 2)));
            }
            2 | 3 => {
                self.tag("q.orderby.total");
                let mut pos: Vec<usize> = (0..nout).collect();
                self.rng.shuffle(&mut pos);
                for p in pos {
                    q.order_by.push((p, self.rng.chance(1, 2)));
                }
                if self.rng.chance(2, 3) {
                    self.tag("q.limit");
                    q.limit = Some(self.rng.below(6));
                    if self.rng.chance(1, 2) {
                        q.offset = Some(self.rng.below(4));
                    }
                }
            }
            _ => {}
        }
        q
    }
}

fn b2(f: From) -> Box<From> {
    Box::new(f)
}

/// Family "join chains over a shared key" (what a sort enforcer is for).  Three small tables without indexes,
/// `T ⋈ U ON T.a = U.x ⋈ V ON <keys>` where the keys of the upper join
///   prefix    start with the left key(s) of the lower join and go on with a further column (`T.a = V.y AND T.b = V.z`):
///             stacked merge joins, the lower one delivers `[a]`, the upper one needs `[a, b]`
///   same      are exactly the left key(s) of the lower join (nothing to sort)
///   reversed  hold the lower join's key last (`T.b = V.z AND T.a = V.y`)
///   disjoint  do not hold it at all.
/// The first key column has few distinct values (duplicates), the further columns come in no particular order, and
/// rows inserted later by the history land behind the loaded ones.  INNER / LEFT mostly, RIGHT / FULL sometimes.
/// The query runs before and after ANALYZE (small tables: nested loops afterwards) and once more after further
/// INSERTs; every run in the forms a, c, f, g (g takes the merge key away).
fn gen_chain_case(rng: &mut Rng) -> (String, BTreeSet<String>) {
    let mut tags: BTreeSet<String> = BTreeSet::new();
    let mut tag = |t: &str| {
        tags.insert(t.to_string());
    };
    tag("fam.chain");
    tag("shape.few-relations");
    let with_nulls = rng.chance(1, 4);
    if with_nulls {
        tag("chain.null-keys");
    }
    // key domains: few values for the first key, a few more for the others
    let base: i128 = rng.range(-2, 6) as i128;
    let dom_a = rng.range(2, 3) as i128;
    let dom_b = rng.range(2, 5) as i128;
    let widths = [rng.range(3, 4) as usize, rng.range(3, 4) as usize, rng.range(3, 4) as usize];
    let sizes = [rng.range(4, 12) as usize, rng.range(1, 5) as usize, rng.range(3, 10) as usize];
    let mut db: Vec<Table> = Vec::new();
    let key_val = |rng: &mut Rng, c: usize| -> Val {
        if with_nulls && rng.chance(1, 10) {
            return Val::Null;
        }
        // column 1 is the "first key" column of every table, the others are further keys
        let d = if c == 1 { dom_a } else { dom_b };
        Val::Int(base + rng.below(d as u64) as i128)
    };
    for k in 0..3 {
        let mut tys = vec![Ty::Int];
        for _ in 1..widths[k] {
            tys.push(if rng.chance(1, 8) { Ty::BigInt } else { Ty::Int });
        }
        let rows: Vec<Vec<Val>> =
            (0..sizes[k]).map(|i| (0..widths[k]).map(|c| if c == 0 { Val::Int(i as i128 + 1) } else { key_val(rng, c) }).collect()).collect();
        db.push(Table { tys, rows });
    }
    let (w0, w1) = (widths[0], widths[1]);
    let (o1, o2) = (w0, w0 + w1);
    // lower join: T.a = U.x [AND T.b = U.y]
    let eq = |rng: &mut Rng, l: usize, r: usize| if rng.chance(1, 4) { cmp("eq", E::Col(r), E::Col(l)) } else { cmp("eq", E::Col(l), E::Col(r)) };
    let mut lower_left: Vec<usize> = vec![1];
    let mut lower: Vec<E> = vec![eq(rng, 1, o1 + 1)];
    if rng.chance(1, 5) {
        tag("chain.lower-2keys");
        lower_left.push(2);
        lower.push(eq(rng, 2, o1 + 2));
    }
    // upper join
    let further: Vec<usize> = (1..w0).filter(|c| !lower_left.contains(c)).collect();
    let extra_left = if further.is_empty() || rng.chance(1, 6) { o1 + 2 } else { *rng.pick(&further) };
    let vcols: Vec<usize> = (1..widths[2]).collect();
    let shape = match rng.below(10) {
        0..=5 => "prefix",
        6 => "same",
        7 | 8 => "reversed",
        _ => "disjoint",
    };
    tag(&format!("chain.{}", shape));
    let mut upper_pairs: Vec<(usize, usize)> = Vec::new(); // (column of T ⋈ U, column of V)
    let shared: Vec<(usize, usize)> = lower_left.iter().enumerate().map(|(i, l)| (*l, o2 + vcols[i % vcols.len()])).collect();
    let extra = (extra_left, o2 + vcols[lower_left.len() % vcols.len()]);
    match shape {
        "prefix" => {
            upper_pairs.extend(shared);
            upper_pairs.push(extra);
        }
        "same" => upper_pairs.extend(shared),
        "reversed" => {
            upper_pairs.push(extra);
            upper_pairs.extend(shared);
        }
        _ => upper_pairs.push(extra),
    }
    let upper: Vec<E> = upper_pairs.iter().map(|(l, r)| eq(rng, *l, *r)).collect();
    let kind = |rng: &mut Rng| *rng.pick(&["inner", "inner", "inner", "inner", "inner", "left", "left", "left", "left", "right", "full"]);
    let (k_low, k_up) = (kind(rng), kind(rng));
    tag(&format!("chain.lower.{}", k_low));
    tag(&format!("chain.upper.{}", k_up));
    tag(&format!("join.{}", k_low));
    tag(&format!("join.{}", k_up));
    tag("q.join3");
    let from = From::Join(k_up, b2(From::Join(k_low, b2(From::Table(0)), b2(From::Table(1)), conj(lower))), b2(From::Table(2)), conj(upper));
    let w = widths.iter().sum::<usize>();
    let where_ = if rng.chance(1, 3) {
        tag("where.one-side");
        let c = rng.below(w as u64) as usize;
        Some(match rng.below(3) {
            0 => cmp("le", E::Col(0), lit_i(rng.range(2, 9) as i128)),
            1 => cmp(*rng.pick(&["ge", "lt", "ne"]), E::Col(c), lit_i(base + rng.range(0, 2) as i128)),
            _ => E::IsNull(true, b(E::Col(c))),
        })
    } else {
        None
    };
    let mut q = Select { distinct: false, from, where_, group_by: vec![], aggs: vec![], items: None, order_by: vec![], limit: None, offset: None, having: None };
    match rng.below(8) {
        0 => {
            tag("q.agg");
            q.aggs.push(super::sql::Agg { f: "cnt*", arg: None });
        }
        1..=4 => {
            // the three row ids: which rows were paired
            q.items = Some(vec![E::Col(0), E::Col(o1), E::Col(o2)]);
            if rng.chance(1, 4) {
                tag("q.orderby.total");
                q.order_by = vec![(0, rng.chance(1, 2)), (1, true), (2, rng.chance(1, 2))];
            }
        }
        _ => {}
    }
    let mut ops: Vec<Op> = Vec::new();
    let mut next_id: Vec<i128> = sizes.iter().map(|n| *n as i128 + 1).collect();
    let mut insert = |rng: &mut Rng, t: usize, ops: &mut Vec<Op>| {
        let n = rng.range(1, 3);
        let mut rows = Vec::new();
        for _ in 0..n {
            let row: Vec<E> = (0..widths[t])
                .map(|c| {
                    if c == 0 {
                        next_id[t] += 1;
                        lit_i(next_id[t] - 1)
                    } else {
                        E::Lit(key_val(rng, c))
                    }
                })
                .collect();
            rows.push(row);
        }
        ops.push(Op::Stmt(Stmt::Insert(t, rows)));
    };
    // rows that arrive later: behind the loaded ones whatever their keys
    if rng.chance(1, 3) {
        tag("chain.history");
        let t = *rng.pick(&[0usize, 0, 2]);
        insert(rng, t, &mut ops);
        if rng.chance(1, 3) {
            ops.push(Op::Stmt(Stmt::Delete(t, Some(cmp("eq", E::Col(0), lit_i(rng.range(1, 3) as i128))))));
        }
    }
    ops.push(Op::Stmt(Stmt::Select(q.clone())));
    tag("q.around-analyze");
    ops.push(Op::Analyze(1000, 10000));
    ops.push(Op::Stmt(Stmt::Select(q.clone())));
    if rng.chance(1, 2) {
        tag("q.around-dml");
        let t = *rng.pick(&[0usize, 0, 1, 2]);
        insert(rng, t, &mut ops);
        ops.push(Op::Stmt(Stmt::Select(q)));
    }
    drop(insert);
    drop(tag);
    (show_case(&db, &[], &ops), tags)
}

/// Family "equi-joins where the operators' costs cross" (tag fam.window).  Two tables without indexes whose sizes lie
/// where, once ANALYZE has run, nested loop, hash join and merge join cost about the same — 11-14 narrow rows each,
/// 5 × 21-37, 8 × 13-30, or 12-30 rows with a TEXT column of 290-400 bytes — so that a small change of the cost model
/// changes the operator.  NULL keys and duplicates on both sides; RIGHT / FULL mostly; the query (ids and keys) runs
/// before ANALYZE (default statistics: merge join), after it, and after a further INSERT; forms a, c, f, g.
fn gen_window_case(rng: &mut Rng) -> (String, BTreeSet<String>) {
    let mut tags: BTreeSet<String> = BTreeSet::new();
    let mut tag = |t: &str| {
        tags.insert(t.to_string());
    };
    tag("fam.window");
    tag("shape.few-relations");
    let wide = rng.chance(1, 5);
    let (n0, n1) = if wide {
        tag("window.wide-rows");
        (rng.range(12, 30) as usize, rng.range(12, 30) as usize)
    } else {
        match rng.below(10) {
            0..=5 => {
                tag("window.11-14");
                (rng.range(11, 14) as usize, rng.range(11, 14) as usize)
            }
            6 | 7 => {
                tag("window.5x21-37");
                let (a, b) = (5usize, rng.range(21, 37) as usize);
                if rng.chance(1, 2) { (a, b) } else { (b, a) }
            }
            _ => {
                tag("window.8x13-30");
                let (a, b) = (8usize, rng.range(13, 30) as usize);
                if rng.chance(1, 2) { (a, b) } else { (b, a) }
            }
        }
    };
    let dom = rng.range(3, 7) as u64;
    let two_keys = rng.chance(1, 4);
    let key_ty = if rng.chance(1, 8) { Ty::BigInt } else { Ty::Int };
    let mut db: Vec<Table> = Vec::new();
    for n in [n0, n1] {
        // id, key [, second key] [, wide text]
        let mut tys = vec![Ty::Int, key_ty];
        if two_keys {
            tys.push(Ty::Int);
        }
        if wide {
            tys.push(Ty::Text);
        }
        let rows: Vec<Vec<Val>> = (0..n)
            .map(|i| {
                tys.iter()
                    .enumerate()
                    .map(|(c, t)| {
                        if c == 0 {
                            Val::Int(i as i128 + 1)
                        } else if *t == Ty::Text {
                            let len = rng.range(290, 400) as usize;
                            Val::Text((0..len).map(|k| b'a' + ((i + k) % 26) as u8).collect())
                        } else if rng.chance(1, 4) {
                            Val::Null
                        } else {
                            Val::Int(rng.below(dom) as i128)
                        }
                    })
                    .collect()
            })
            .collect();
        db.push(Table { tys, rows });
    }
    let w0 = db[0].tys.len();
    let eq = |rng: &mut Rng, l: usize, r: usize| if rng.chance(1, 4) { cmp("eq", E::Col(r), E::Col(l)) } else { cmp("eq", E::Col(l), E::Col(r)) };
    let mut cs = vec![eq(rng, 1, w0 + 1)];
    if two_keys {
        tag("join.equi.2keys");
        cs.push(eq(rng, 2, w0 + 2));
    }
    let kind = *rng.pick(&["right", "right", "right", "right", "full", "full", "full", "full", "left", "inner"]);
    tag(&format!("window.{}", kind));
    tag(&format!("join.{}", kind));
    tag("join.equi");
    tag("q.join2");
    let from = From::Join(kind, b2(From::Table(0)), b2(From::Table(1)), conj(cs));
    let mut q = Select { distinct: false, from, where_: None, group_by: vec![], aggs: vec![], items: None, order_by: vec![], limit: None, offset: None, having: None };
    if rng.chance(1, 8) {
        tag("q.agg");
        q.aggs.push(super::sql::Agg { f: "cnt*", arg: None });
    } else {
        q.items = Some(vec![E::Col(0), E::Col(1), E::Col(w0), E::Col(w0 + 1)]);
    }
    let mut ops: Vec<Op> = Vec::new();
    ops.push(Op::Stmt(Stmt::Select(q.clone())));
    tag("q.around-analyze");
    ops.push(Op::Analyze(1000, 100000));
    ops.push(Op::Stmt(Stmt::Select(q.clone())));
    if !wide && rng.chance(1, 3) {
        tag("q.around-dml");
        let t = rng.below(2) as usize;
        let n = if t == 0 { n0 } else { n1 };
        let row: Vec<E> = db[t].tys.iter().enumerate().map(|(c, _)| if c == 0 { lit_i(n as i128 + 1) } else if rng.chance(1, 3) { E::Lit(Val::Null) } else { lit_i(rng.below(dom) as i128) }).collect();
        ops.push(Op::Stmt(Stmt::Insert(t, vec![row])));
        ops.push(Op::Stmt(Stmt::Select(q)));
    }
    drop(tag);
    (show_case(&db, &[], &ops), tags)
}

fn gen_case(rng: &mut Rng) -> (String, BTreeSet<String>) {
    if rng.chance(1, 12) {
        return gen_window_case(rng);
    }
    if rng.chance(1, 10) {
        return gen_chain_case(rng);
    }
    let region = match rng.below(50) {
        0..=5 => Region::UpdateIndexed,
        6 | 7 => Region::ReinsertInRollback,
        8 | 9 => Region::CatalogGrowth,
        10 => Region::MixedKey,
        _ => Region::None,
    };
    let mut g =
        G { rng, tags: BTreeSet::new(), db: vec![], ixs: vec![], uniq: vec![], cur: vec![], fresh: vec![], deleted: vec![], region, inserted: vec![], allow_analyze: false };
    g.make_db();
    let mut ops: Vec<Op> = Vec::new();
    g.history(&mut ops);
    // a case of a region really enters it
    match g.region {
        Region::UpdateIndexed if !g.tags.contains("reg.update-indexed") => {
            for _ in 0..6 {
                let t = g.rng.below(g.db.len() as u64) as usize;
                let s = g.update_stmt(t, true);
                ops.push(Op::Stmt(s));
                if g.tags.contains("reg.update-indexed") {
                    break;
                }
            }
        }
        Region::ReinsertInRollback if !g.tags.contains("reg.reinsert-in-rollback") => {
            if let Some(t) = (0..g.db.len()).find(|t| !g.cur[*t].is_empty()) {
                let saved = (g.cur.clone(), g.deleted.clone());
                let row = g.cur[t][g.rng.below(g.cur[t].len() as u64) as usize].clone();
                let w = Some(cmp("eq", E::Col(0), E::Lit(row[0].clone())));
                ops.push(Op::Begin);
                ops.push(Op::Stmt(Stmt::Delete(t, w)));
                ops.push(Op::Stmt(Stmt::Insert(t, vec![row.iter().map(|v| E::Lit(v.clone())).collect()])));
                ops.push(Op::Rollback);
                g.cur = saved.0;
                g.deleted = saved.1;
                g.tag("reg.reinsert-in-rollback");
            }
        }
        Region::MixedKey => {
            let s = g.update_stmt(0, false);
            ops.push(Op::Stmt(s));
        }
        _ => {}
    }
    // keys re-used inside one transaction (sessions and batches)
    if matches!(g.region, Region::None | Region::ReinsertInRollback) && (g.region == Region::ReinsertInRollback || g.rng.chance(1, 3)) {
        g.reuse_family(&mut ops);
    }
    // where the late database creates its indexes: mostly after the history, sometimes in its middle
    if !g.ixs.is_empty() && g.rng.chance(9, 10) {
        let in_session = |ops: &[Op], pos: usize| {
            let mut open = false;
            for o in &ops[..pos] {
                match o {
                    Op::Begin | Op::Batch => open = true,
                    Op::Rollback | Op::Commit | Op::EndBatch => open = false,
                    _ => {}
                }
            }
            open
        };
        let mut pos = ops.len();
        if g.rng.chance(1, 3) && !ops.is_empty() {
            pos = g.rng.below(ops.len() as u64 + 1) as usize;
            while in_session(&ops, pos) {
                pos += 1;
            }
            g.tag("mkix.mid-history");
        } else {
            g.tag("mkix.after-history");
        }
        ops.insert(pos, Op::MkIx);
    }
    let nq = g.rng.range(2, 5) as usize;
    for _ in 0..nq {
        let q = g.select();
        match g.rng.below(10) {
            0..=3 if g.allow_analyze => {
                // the same query before and after ANALYZE
                g.tag("q.around-analyze");
                ops.push(Op::Stmt(Stmt::Select(q.clone())));
                let a = g.analyze_op();
                ops.push(a);
                ops.push(Op::Stmt(Stmt::Select(q)));
            }
            4 => {
                // … and around a further piece of history
                ops.push(Op::Stmt(Stmt::Select(q.clone())));
                let nt = g.db.len();
                let t = g.rng.below(nt as u64) as usize;
                let s = match g.rng.below(3) {
                    0 => g.insert_stmt(t),
                    1 => g.delete_stmt(t),
                    _ => g.update_stmt(t, true),
                };
                ops.push(Op::Stmt(s));
                ops.push(Op::Stmt(Stmt::Select(q)));
                g.tag("q.around-dml");
            }
            _ => ops.push(Op::Stmt(Stmt::Select(q))),
        }
    }
    let line = show_case(&g.db, &g.ixs, &ops);
    (line, g.tags)
}

fn gen_all(rng: &mut Rng, tier: Tier) -> Vec<Case> {
    let n = match tier {
        Tier::Quick => 900,
        Tier::Thorough => 9000,
    };
    let lines: Vec<(String, BTreeSet<String>)> = (0..n).map(|_| gen_case(rng)).collect();
    // Measure, on the real planner, how often the forms of a query really get different plans (EXPLAIN only).  The
    // engine runs in supervised children (`axh run plan` on `measure <case>` lines) so that a hang or a crash of the
    // code under test costs measurements, not the generation: after a batch that is mostly lost, measuring stops.
    let mut facts: Vec<BTreeMap<String, usize>> = Vec::new();
    let exe = std::env::current_exe().ok();
    let dir = std::env::temp_dir().join(format!("axh-plan-measure-{}", std::process::id()));
    let _ = std::fs::create_dir_all(&dir);
    for (bno, batch) in lines.chunks(150).enumerate() {
        let Some(exe) = exe.as_ref() else { break };
        let cf = dir.join(format!("b{}.cases", bno));
        let of = dir.join(format!("b{}.out", bno));
        let text: String = batch.iter().map(|(l, _)| format!("measure {}\n", l)).collect();
        if std::fs::write(&cf, text).is_err() {
            break;
        }
        let ok = std::process::Command::new(exe)
            .args(["run", "plan", "--cases"])
            .arg(&cf)
            .arg("--out")
            .arg(&of)
            .args(["--jobs", "8"])
            .env("AXH_PLAN_TIMEOUT_MS", "8000")
            .stdout(std::process::Stdio::null())
            .status()
            .map(|s| s.success())
            .unwrap_or(false);
        let outs: Vec<String> = if ok { std::fs::read_to_string(&of).unwrap_or_default().lines().map(|l| l.to_string()).collect() } else { vec![] };
        let mut lost = 0;
        for k in 0..batch.len() {
            let mut f = BTreeMap::new();
            match outs.get(k).and_then(|o| o.strip_prefix("facts")) {
                Some(rest) => {
                    for kv in rest.split_whitespace() {
                        if let Some((a, b)) = kv.split_once('=') {
                            if let Ok(n) = b.parse::<usize>() {
                                f.insert(a.to_string(), n);
                            }
                        }
                    }
                }
                None => {
                    lost += 1;
                    f.insert("unmeasured".to_string(), 1);
                }
            }
            facts.push(f);
        }
        if lost * 2 > batch.len() {
            break;
        }
    }
    let _ = std::fs::remove_dir_all(&dir);
    let nrules = match tier {
        Tier::Quick => 1500,
        Tier::Thorough => 15000,
    };
    let mut rrng = rng.fork("rules");
    let rule_cases: Vec<Case> = (0..nrules).map(|_| gen_rule_case(&mut rrng)).collect();
    // operators no chosen plan of this run holds (the cost model decides which operators the pair runs ever see;
    // the jop cases run the join operators whatever it says)
    let never: Vec<String> = if facts.is_empty() {
        vec![]
    } else {
        ["SeqScan", "IndexScan", "Filter", "Project", "NLJoin", "HashJoin", "MergeJoin", "HashAggregate", "Sort", "Limit", "Distinct", "Materialize"]
            .iter()
            .filter(|n| !facts.iter().any(|f| f.contains_key(&format!("op.{}", n))))
            .map(|n| format!("m.op-never-chosen.{}", n))
            .collect()
    };
    let mut all: Vec<Case> = lines
        .into_iter()
        .enumerate()
        .map(|(i, (line, tags))| {
            let mut tags: Vec<String> = tags.into_iter().collect();
            if let Some(f) = facts.get(i) {
                // one tag occurrence per measured event, so that the histogram of the evidence adds them up
                for (k, n) in f {
                    for _ in 0..(*n).min(40) {
                        tags.push(format!("m.{}", k));
                    }
                }
            }
            if i == 0 {
                tags.extend(never.iter().cloned());
            }
            tags.push("nt".into());
            Case { line, tags }
        })
        .collect();
    all.extend(rule_cases);
    let nord = match tier {
        Tier::Quick => 400,
        Tier::Thorough => 4000,
    };
    let mut orng = rng.fork("orderings");
    all.extend((0..nord).map(|_| gen_ord_case(&mut orng)));
    let njop = match tier {
        Tier::Quick => 1200,
        Tier::Thorough => 12000,
    };
    let mut jrng = rng.fork("join-operators");
    all.extend((0..njop).map(|_| gen_jop_case(&mut jrng)));
    all
}

impl Engine for PlanEngine {
    fn gen_cases(&self, rng: &mut Rng, tier: Tier) -> Vec<Case> {
        gen_all(rng, tier)
    }

    fn exec(&mut self, line: &str) -> String {
        let debug = std::env::var_os("AXH_SQL_DEBUG").is_some();
        if let (true, Some(rest)) = (debug, line.strip_prefix("raw ")) {
            return raw(rest);
        }
        if let (true, Some(rest)) = (debug, line.strip_prefix("show ")) {
            return show_sql(rest);
        }
        install_worker_panic_recorder();
        if line.starts_with("rule ") {
            return run_rule_case(line);
        }
        if line.starts_with("ord ") {
            return run_ord_case(line);
        }
        if line.starts_with("jop ") {
            return run_jop_case(line);
        }
        if let Some(rest) = line.strip_prefix("measure ") {
            let o = run_case(rest, false);
            if o.line.starts_with("bad-op") || o.line.starts_with("setup-failed") {
                return "nofacts".into();
            }
            return format!("facts {}", o.facts.iter().map(|(k, v)| format!("{}={}", k, v)).collect::<Vec<_>>().join(" "));
        }
        run_case(line, true).line
    }

    fn timeout_ms(&self) -> u64 {
        std::env::var("AXH_PLAN_TIMEOUT_MS").ok().and_then(|v| v.parse().ok()).unwrap_or(20_000)
    }
}

/// Content of `lean/AxVerif/Generated/<Engine>.lean`, if this engine extracts constants from the code.
pub fn generated() -> Option<(&'static str, String)> {
    None
}
